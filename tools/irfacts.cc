// irfacts: dump a linked LLVM-14 module as a JSON "program model" for the
// rule engines in /verif/sa.  Nothing is executed or solved here: the tool
// only re-expresses what clang produced (functions, blocks, instructions with
// operands, resolved callees, struct field *names* recovered from debug info,
// source positions).
//
//   irfacts <module.ll|.bc> <out.json>
//
// Field names: every LLVM struct type is bound to its DICompositeType by
// walking, in parallel, the debug-info type and the IR type of every global
// variable, function parameter/return and local variable.  A GEP step into a
// struct is then printed as the member name (offset match), never as an index.
// Unions are printed as one pseudo-field "<union>"; the bitcast that follows
// selects the member and the engines see the member's struct type by name.

#include "llvm/IR/Module.h"
#include "llvm/IR/Function.h"
#include "llvm/IR/Instructions.h"
#include "llvm/IR/IntrinsicInst.h"
#include "llvm/IR/DebugInfo.h"
#include "llvm/IR/DebugInfoMetadata.h"
#include "llvm/IR/GetElementPtrTypeIterator.h"
#include "llvm/IR/LLVMContext.h"
#include "llvm/IR/Operator.h"
#include "llvm/IR/Constants.h"
#include "llvm/IR/GlobalAlias.h"
#include "llvm/IRReader/IRReader.h"
#include "llvm/Support/SourceMgr.h"
#include "llvm/Support/raw_ostream.h"
#include "llvm/Support/FileSystem.h"
#include "llvm/Support/Path.h"
#include <map>
#include <set>
#include <string>
#include <vector>

using namespace llvm;

static std::string esc(StringRef s) {
  std::string o;
  for (unsigned char c : s) {
    switch (c) {
    case '"': o += "\\\""; break;
    case '\\': o += "\\\\"; break;
    case '\n': o += "\\n"; break;
    case '\t': o += "\\t"; break;
    case '\r': o += "\\r"; break;
    default:
      if (c < 0x20 || c >= 0x7f) {
        char b[8];
        snprintf(b, sizeof b, "\\u%04x", c);
        o += b;
      } else
        o += (char)c;
    }
  }
  return o;
}
static std::string q(StringRef s) { return "\"" + esc(s) + "\""; }
static std::string tyStr(Type *t) {
  std::string s;
  raw_string_ostream os(s);
  t->print(os, false, true);
  return os.str();
}

struct FieldInfo {
  std::string name;
  uint64_t offBits;
  uint64_t sizeBits;
};
// struct type -> element index -> field name
static std::map<StructType *, std::vector<std::string>> FieldNames;
static std::map<StructType *, std::string> PrettyName; // typedef/tag name
static std::map<StructType *, bool> IsUnion;
static std::map<StructType *, std::vector<std::pair<std::string, std::string>>> UnionMembers; // name, di type name
static std::set<std::pair<StructType *, const DIType *>> Bound;
static std::map<StructType *, const DICompositeType *> UnionDI;
static std::map<const DICompositeType *, std::string> DIPretty; // anonymous composites named by their path
static const DataLayout *DL;

static const DIType *stripQual(const DIType *t, std::string *typedefName = nullptr) {
  while (t) {
    if (auto *d = dyn_cast<DIDerivedType>(t)) {
      unsigned tag = d->getTag();
      if (tag == dwarf::DW_TAG_typedef) {
        if (typedefName && typedefName->empty())
          *typedefName = d->getName().str();
        t = d->getBaseType();
        continue;
      }
      if (tag == dwarf::DW_TAG_const_type || tag == dwarf::DW_TAG_volatile_type ||
          tag == dwarf::DW_TAG_restrict_type || tag == dwarf::DW_TAG_atomic_type) {
        t = d->getBaseType();
        continue;
      }
    }
    break;
  }
  return t;
}

static void bindType(Type *ty, const DIType *di, int depth, const std::string &hint = "");

static void bindStruct(StructType *st, const DICompositeType *ct, const std::string &tdName, int depth) {
  if (!st || !ct || st->isOpaque())
    return;
  if (!Bound.insert({st, ct}).second)
    return;
  if (ct->isForwardDecl() && ct->getElements().empty())
    return;
  if (!PrettyName.count(st)) {
    if (!ct->getName().empty())
      PrettyName[st] = ct->getName().str();
    else if (!tdName.empty())
      PrettyName[st] = tdName;
    else if (DIPretty.count(ct))
      PrettyName[st] = DIPretty[ct];
  }
  bool isUnion = ct->getTag() == dwarf::DW_TAG_union_type;
  IsUnion[st] = isUnion;
  if (isUnion)
    UnionDI[st] = ct;
  // name anonymous member composites by path
  for (auto *el : ct->getElements())
    if (auto *m = dyn_cast<DIDerivedType>(el))
      if (m->getTag() == dwarf::DW_TAG_member) {
        std::string tn;
        const DIType *bt = stripQual(m->getBaseType(), &tn);
        if (auto *cbt = dyn_cast_or_null<DICompositeType>(bt))
          if (cbt->getName().empty() && tn.empty() && !DIPretty.count(cbt) && PrettyName.count(st))
            DIPretty[cbt] = PrettyName[st] + "." + m->getName().str();
      }
  const StructLayout *sl = DL->getStructLayout(st);
  std::vector<std::string> &names = FieldNames[st];
  if (names.empty())
    names.assign(st->getNumElements(), "");
  for (auto *el : ct->getElements()) {
    auto *m = dyn_cast<DIDerivedType>(el);
    if (!m)
      continue;
    if (m->getTag() == dwarf::DW_TAG_inheritance) {
      // base class sub-object: bind element at that offset
      uint64_t off = m->getOffsetInBits() / 8;
      for (unsigned i = 0; i < st->getNumElements(); i++)
        if (sl->getElementOffset(i) == off) {
          if (names[i].empty())
            names[i] = "<base>";
          bindType(st->getElementType(i), m->getBaseType(), depth + 1);
          break;
        }
      continue;
    }
    if (m->getTag() != dwarf::DW_TAG_member)
      continue;
    if (m->isStaticMember())
      continue;
    if (isUnion) {
      std::string tn;
      const DIType *bt = stripQual(m->getBaseType(), &tn);
      std::string dn = bt ? bt->getName().str() : "";
      if (dn.empty() && tn.empty())
        if (auto *cbt0 = dyn_cast_or_null<DICompositeType>(bt))
          if (DIPretty.count(cbt0))
            dn = DIPretty[cbt0];
      UnionMembers[st].push_back({m->getName().str(), dn.empty() ? tn : dn});
      // the IR union type holds only its largest member as element 0
      if (st->getNumElements() >= 1) {
        Type *e0 = st->getElementType(0);
        if (auto *cbt = dyn_cast_or_null<DICompositeType>(bt))
          if (auto *est = dyn_cast<StructType>(e0))
            if (DL->getTypeAllocSizeInBits(est) == cbt->getSizeInBits() ||
                (cbt->getSizeInBits() + 7) / 8 == DL->getTypeStoreSize(est)) {
              // candidate: only bind if names are compatible (anon or equal)
              StringRef en = est->hasName() ? est->getName() : "";
              bool anon = en.contains(".anon") || en.empty();
              bool same = !cbt->getName().empty() && en.endswith(cbt->getName());
              if (anon || same)
                bindStruct(est, cbt, tn, depth + 1);
            }
      }
      continue;
    }
    uint64_t off = m->getOffsetInBits() / 8;
    for (unsigned i = 0; i < st->getNumElements(); i++) {
      if (sl->getElementOffset(i) != off)
        continue;
      // skip zero-sized padding arrays
      if (DL->getTypeAllocSize(st->getElementType(i)) == 0 && m->getSizeInBits() != 0)
        continue;
      if (names[i].empty())
        names[i] = m->getName().str();
      bindType(st->getElementType(i), m->getBaseType(), depth + 1);
      break;
    }
  }
}

static void bindType(Type *ty, const DIType *di, int depth, const std::string &hint) {
  if (!ty || !di || depth > 40)
    return;
  std::string td;
  di = stripQual(di, &td);
  if (td.empty())
    td = hint;
  if (!di)
    return;
  if (auto *pt = dyn_cast<PointerType>(ty)) {
    if (auto *d = dyn_cast<DIDerivedType>(di)) {
      unsigned tag = d->getTag();
      if (tag == dwarf::DW_TAG_pointer_type || tag == dwarf::DW_TAG_reference_type ||
          tag == dwarf::DW_TAG_rvalue_reference_type)
        bindType(pt->getPointerElementType(), d->getBaseType(), depth + 1, td);
    }
    return;
  }
  if (auto *at = dyn_cast<ArrayType>(ty)) {
    if (auto *c = dyn_cast<DICompositeType>(di))
      if (c->getTag() == dwarf::DW_TAG_array_type)
        bindType(at->getElementType(), c->getBaseType(), depth + 1);
    return;
  }
  if (auto *st = dyn_cast<StructType>(ty)) {
    if (auto *c = dyn_cast<DICompositeType>(di)) {
      unsigned tag = c->getTag();
      if (tag == dwarf::DW_TAG_structure_type || tag == dwarf::DW_TAG_class_type ||
          tag == dwarf::DW_TAG_union_type)
        bindStruct(st, c, td, depth);
    }
    return;
  }
  if (auto *ft = dyn_cast<FunctionType>(ty)) {
    if (auto *s = dyn_cast<DISubroutineType>(di)) {
      auto arr = s->getTypeArray();
      if (arr.size() >= 1 && arr[0])
        bindType(ft->getReturnType(), arr[0], depth + 1);
      for (unsigned i = 1; i < arr.size() && i - 1 < ft->getNumParams(); i++)
        if (arr[i])
          bindType(ft->getParamType(i - 1), arr[i], depth + 1);
    }
    return;
  }
}

// second chance: bind still-unbound named struct types by tag name
static void bindByName(Module &M, DebugInfoFinder &F) {
  std::map<std::string, const DICompositeType *> byName;
  for (auto *t : F.types())
    if (auto *c = dyn_cast<DICompositeType>(t))
      if (!c->getName().empty() && !c->isForwardDecl())
        byName[c->getName().str()] = c;
  bool changed = true;
  int rounds = 0;
  while (changed && rounds++ < 5) {
    changed = false;
    for (StructType *st : M.getIdentifiedStructTypes()) {
      if (st->isOpaque() || FieldNames.count(st))
        continue;
      StringRef n = st->getName();
      size_t dot = n.find('.');
      if (dot == StringRef::npos)
        continue;
      std::string base = n.substr(dot + 1).str();
      // strip llvm-link ".N" uniquifier
      size_t d2 = base.rfind('.');
      if (d2 != std::string::npos && d2 + 1 < base.size() &&
          isdigit((unsigned char)base[d2 + 1]) && !StringRef(base).startswith("anon"))
        base = base.substr(0, d2);
      auto it = byName.find(base);
      if (it != byName.end()) {
        bindStruct(st, it->second, "", 0);
        changed = true;
      }
    }
  }
}

static std::string canonName(StructType *st) {
  auto it = PrettyName.find(st);
  if (it != PrettyName.end())
    return it->second;
  return st->hasName() ? st->getName().str() : std::string("literal");
}

// type string with canonical struct names
static std::string ctyStr(Type *t) {
  if (auto *pt = dyn_cast<PointerType>(t))
    return ctyStr(pt->getPointerElementType()) + "*";
  if (auto *st = dyn_cast<StructType>(t))
    if (st->hasName())
      return "%" + canonName(st);
  if (auto *at = dyn_cast<ArrayType>(t))
    return "[" + std::to_string(at->getNumElements()) + " x " + ctyStr(at->getElementType()) + "]";
  if (auto *ft = dyn_cast<FunctionType>(t)) {
    std::string s = ctyStr(ft->getReturnType()) + " (";
    for (unsigned i = 0; i < ft->getNumParams(); i++) {
      if (i)
        s += ", ";
      s += ctyStr(ft->getParamType(i));
    }
    if (ft->isVarArg())
      s += ft->getNumParams() ? ", ..." : "...";
    return s + ")";
  }
  return tyStr(t);
}

static std::map<const Function *, std::string> FnKey;
static std::map<const GlobalVariable *, std::string> GvKey;

struct FnCtx {
  std::map<const Value *, int> id;
  std::map<const BasicBlock *, std::string> bbName;
};

static std::string operandJson(const Value *v, FnCtx &C, int depth = 0);

static std::string gepPathJson(Type *srcElemTy, ArrayRef<const Value *> idx, FnCtx &C, int depth) {
  // first index steps over the pointer
  std::string s = "[";
  bool first = true;
  auto add = [&](const std::string &e) {
    if (!first)
      s += ",";
    s += e;
    first = false;
  };
  Type *cur = srcElemTy;
  for (unsigned k = 0; k < idx.size(); k++) {
    const Value *iv = idx[k];
    if (k == 0) {
      auto *ci = dyn_cast<ConstantInt>(iv);
      if (!(ci && ci->isZero()))
        add("{\"ptr\":" + operandJson(iv, C, depth + 1) + ",\"elt\":" + q(ctyStr(cur)) + ",\"eltsize\":" +
            std::to_string(cur->isSized() ? DL->getTypeAllocSize(cur).getFixedSize() : 0) + "}");
      continue;
    }
    if (auto *st = dyn_cast<StructType>(cur)) {
      unsigned i = cast<ConstantInt>(iv)->getZExtValue();
      std::string fn;
      auto it = FieldNames.find(st);
      if (it != FieldNames.end() && i < it->second.size())
        fn = it->second[i];
      if (IsUnion.count(st) && IsUnion[st])
        fn = "<union>";
      if (fn.empty())
        fn = "#" + std::to_string(i);
      add("{\"f\":" + q(fn) + ",\"of\":" + q(canonName(st)) + "}");
      cur = st->getElementType(i);
    } else if (auto *at = dyn_cast<ArrayType>(cur)) {
      add("{\"idx\":" + operandJson(iv, C, depth + 1) + ",\"n\":" + std::to_string(at->getNumElements()) + "}");
      cur = at->getElementType();
    } else if (auto *vt = dyn_cast<VectorType>(cur)) {
      add("{\"idx\":" + operandJson(iv, C, depth + 1) + "}");
      cur = vt->getElementType();
    } else {
      add("{\"bad\":1}");
    }
  }
  s += "]";
  return s;
}

static std::string operandJson(const Value *v, FnCtx &C, int depth) {
  if (depth > 12)
    return "{\"k\":\"deep\"}";
  if (auto *ci = dyn_cast<ConstantInt>(v)) {
    if (ci->getBitWidth() <= 64)
      return "{\"k\":\"c\",\"v\":" + std::to_string(ci->getSExtValue()) + ",\"w\":" + std::to_string(ci->getBitWidth()) + "}";
    return "{\"k\":\"c\",\"v\":0,\"big\":1}";
  }
  if (isa<ConstantPointerNull>(v))
    return "{\"k\":\"null\"}";
  if (isa<UndefValue>(v))
    return "{\"k\":\"undef\"}";
  if (auto *f = dyn_cast<Function>(v))
    return "{\"k\":\"f\",\"v\":" + q(FnKey.count(f) ? FnKey[f] : f->getName().str()) + "}";
  if (auto *g = dyn_cast<GlobalVariable>(v))
    return "{\"k\":\"g\",\"v\":" + q(GvKey.count(g) ? GvKey[g] : g->getName().str()) + "}";
  if (auto *a = dyn_cast<Argument>(v))
    return "{\"k\":\"a\",\"v\":" + std::to_string(a->getArgNo()) + "}";
  if (auto *bb = dyn_cast<BasicBlock>(v))
    return "{\"k\":\"bb\",\"v\":" + q(C.bbName[bb]) + "}";
  if (auto *i = dyn_cast<Instruction>(v)) {
    auto it = C.id.find(i);
    return "{\"k\":\"i\",\"v\":" + std::to_string(it == C.id.end() ? -1 : it->second) + "}";
  }
  if (auto *cf = dyn_cast<ConstantFP>(v)) {
    std::string s;
    raw_string_ostream os(s);
    cf->getValueAPF().print(os);
    std::string t = os.str();
    while (!t.empty() && (t.back() == '\n' || t.back() == ' '))
      t.pop_back();
    return "{\"k\":\"fp\",\"v\":" + q(t) + "}";
  }
  if (auto *ce = dyn_cast<ConstantExpr>(v)) {
    std::string s = "{\"k\":\"ce\",\"op\":" + q(ce->getOpcodeName()) + ",\"ty\":" + q(ctyStr(ce->getType()));
    if (auto *gep = dyn_cast<GEPOperator>(ce)) {
      std::vector<const Value *> idx;
      for (auto it = gep->idx_begin(); it != gep->idx_end(); ++it)
        idx.push_back(it->get());
      s += ",\"base\":" + operandJson(gep->getPointerOperand(), C, depth + 1);
      s += ",\"path\":" + gepPathJson(gep->getSourceElementType(), idx, C, depth + 1);
    } else {
      s += ",\"ops\":[";
      for (unsigned i = 0; i < ce->getNumOperands(); i++) {
        if (i)
          s += ",";
        s += operandJson(ce->getOperand(i), C, depth + 1);
      }
      s += "]";
    }
    return s + "}";
  }
  if (isa<MetadataAsValue>(v))
    return "{\"k\":\"md\"}";
  if (isa<InlineAsm>(v))
    return "{\"k\":\"asm\"}";
  if (isa<ConstantAggregateZero>(v))
    return "{\"k\":\"zero\"}";
  return "{\"k\":\"other\",\"ty\":" + q(ctyStr(v->getType())) + "}";
}

static const Value *stripCasts(const Value *v) {
  while (true) {
    if (auto *bc = dyn_cast<BitCastOperator>(v)) {
      v = bc->getOperand(0);
      continue;
    }
    if (auto *ga = dyn_cast<GlobalAlias>(v)) {
      v = ga->getAliasee();
      continue;
    }
    break;
  }
  return v;
}


static bool layoutMatches(StructType *st, const DICompositeType *ct) {
  if (st->isOpaque())
    return false;
  std::vector<const DIDerivedType *> mem;
  for (auto *el : ct->getElements())
    if (auto *m = dyn_cast<DIDerivedType>(el))
      if (m->getTag() == dwarf::DW_TAG_member && !m->isStaticMember())
        mem.push_back(m);
  if (mem.size() != st->getNumElements())
    return false;
  const StructLayout *sl = DL->getStructLayout(st);
  if (sl->getSizeInBits() != ct->getSizeInBits())
    return false;
  for (unsigned i = 0; i < mem.size(); i++) {
    if (sl->getElementOffsetInBits(i) != mem[i]->getOffsetInBits())
      return false;
    if (DL->getTypeSizeInBits(st->getElementType(i)) != mem[i]->getSizeInBits())
      return false;
  }
  return true;
}

static void bindUnionCast(Type *src, Type *dst) {
  auto *sp = dyn_cast<PointerType>(src);
  auto *dp = dyn_cast<PointerType>(dst);
  if (!sp || !dp)
    return;
  auto *su = dyn_cast<StructType>(sp->getPointerElementType());
  auto *dt = dyn_cast<StructType>(dp->getPointerElementType());
  if (!su || !dt || !UnionDI.count(su) || FieldNames.count(dt))
    return;
  const DICompositeType *u = UnionDI[su];
  std::vector<const DICompositeType *> cands;
  StringRef dn = dt->hasName() ? dt->getName() : "";
  bool anon = dn.contains("anon") || dn.empty();
  for (auto *el : u->getElements())
    if (auto *m = dyn_cast<DIDerivedType>(el))
      if (m->getTag() == dwarf::DW_TAG_member) {
        std::string tn;
        const DIType *bt = stripQual(m->getBaseType(), &tn);
        if (auto *c = dyn_cast_or_null<DICompositeType>(bt)) {
          if (!c->getName().empty()) {
            if (!anon && (dn.endswith(c->getName()) || dn.contains(("." + c->getName() + ".").str())))
              cands.push_back(c);
          } else if (anon && layoutMatches(dt, c))
            cands.push_back(c);
        }
      }
  if (cands.size() == 1)
    bindStruct(dt, cands[0], "", 0);
}

int main(int argc, char **argv) {
  if (argc < 3) {
    errs() << "usage: irfacts <out.json> <module>...\n";
    return 2;
  }
  LLVMContext Ctx;
  std::vector<std::unique_ptr<Module>> Mods;
  for (int a = 2; a < argc; a++) {
    SMDiagnostic Err;
    std::unique_ptr<Module> M = parseIRFile(argv[a], Err, Ctx);
    if (!M) {
      Err.print(argv[0], errs());
      return 2;
    }
    Mods.push_back(std::move(M));
  }
  DL = &Mods[0]->getDataLayout();

  for (auto &M : Mods) {
    DebugInfoFinder Finder;
    Finder.processModule(*M);
    for (auto &G : M->globals()) {
      SmallVector<DIGlobalVariableExpression *, 2> gves;
      G.getDebugInfo(gves);
      for (auto *gve : gves)
        bindType(G.getValueType(), gve->getVariable()->getType(), 0);
    }
    for (auto &F : *M) {
      if (auto *sp = F.getSubprogram())
        bindType(F.getFunctionType(), sp->getType(), 0);
      for (auto &BB : F)
        for (auto &I : BB) {
          if (auto *dd = dyn_cast<DbgDeclareInst>(&I)) {
            if (auto *ai = dyn_cast_or_null<AllocaInst>(dd->getAddress()))
              bindType(ai->getAllocatedType(), dd->getVariable()->getType(), 0);
          } else if (auto *dv = dyn_cast<DbgValueInst>(&I)) {
            if (Value *val = dv->getValue())
              if (!dv->getExpression() || dv->getExpression()->getNumElements() == 0)
                bindType(val->getType(), dv->getVariable()->getType(), 0);
          }
        }
    }
    bindByName(*M, Finder);
    // union member selection casts
    for (int round = 0; round < 2; round++)
      for (auto &F : *M)
        for (auto &BB : F)
          for (auto &I : BB) {
            if (auto *bc = dyn_cast<BitCastInst>(&I))
              bindUnionCast(bc->getSrcTy(), bc->getDestTy());
            for (auto &op : I.operands())
              if (auto *ce = dyn_cast<ConstantExpr>(op.get()))
                if (ce->getOpcode() == Instruction::BitCast)
                  bindUnionCast(ce->getOperand(0)->getType(), ce->getType());
          }
  }

  // symbol keys: external symbols by name; internal ones by name unless two
  // modules define the same internal name
  std::map<std::string, int> defCount;
  for (auto &M : Mods) {
    for (auto &F : *M)
      if (!F.isDeclaration())
        defCount["f:" + F.getName().str()]++;
    for (auto &G : M->globals())
      if (!G.isDeclaration())
        defCount["g:" + G.getName().str()]++;
  }
  for (auto &M : Mods) {
    std::string mid = sys::path::stem(M->getSourceFileName()).str();
    for (auto &F : *M) {
      std::string n = F.getName().str();
      if (!F.isDeclaration() && F.hasLocalLinkage() && defCount["f:" + n] > 1)
        n = n + "@" + mid;
      FnKey[&F] = n;
    }
    for (auto &G : M->globals()) {
      std::string n = G.getName().str();
      if (G.hasLocalLinkage() && (defCount["g:" + n] > 1 || StringRef(n).startswith(".str") || StringRef(n).startswith("__const.") || StringRef(n).startswith("__func__.") || StringRef(n).startswith("__PRETTY_FUNCTION__.")))
        n = n + "@" + mid;
      GvKey[&G] = n;
    }
  }

  std::error_code EC;
  raw_fd_ostream out(argv[1], EC, sys::fs::OF_None);
  if (EC) {
    errs() << "cannot write " << argv[1] << "\n";
    return 2;
  }
  out << "{\n\"modules\":[";
  for (size_t i = 0; i < Mods.size(); i++)
    out << (i ? "," : "") << q(Mods[i]->getSourceFileName());
  out << "],\n\"structs\":{";
  {
    bool first = true;
    std::set<std::string> done;
    for (auto &M : Mods)
      for (StructType *st : M->getIdentifiedStructTypes()) {
        std::string cn = canonName(st);
        if (st->isOpaque() || done.count(cn))
          continue;
        done.insert(cn);
        if (!first)
          out << ",";
        first = false;
        out << "\n" << q(cn) << ":{\"llvm\":" << q(st->getName());
        if (IsUnion.count(st) && IsUnion[st]) {
          out << ",\"union\":true,\"members\":[";
          bool f2 = true;
          for (auto &m : UnionMembers[st]) {
            if (!f2)
              out << ",";
            f2 = false;
            out << "{\"name\":" << q(m.first) << ",\"type\":" << q(m.second) << "}";
          }
          out << "]";
        }
        const StructLayout *sl = DL->getStructLayout(st);
        out << ",\"size\":" << sl->getSizeInBytes() << ",\"fields\":[";
        for (unsigned i = 0; i < st->getNumElements(); i++) {
          if (i)
            out << ",";
          std::string fn;
          auto it = FieldNames.find(st);
          if (it != FieldNames.end() && i < it->second.size())
            fn = it->second[i];
          out << "{\"name\":" << q(fn) << ",\"off\":" << sl->getElementOffset(i) << ",\"ty\":" << q(ctyStr(st->getElementType(i)))
              << ",\"size\":" << DL->getTypeAllocSize(st->getElementType(i)).getFixedSize() << "}";
        }
        out << "]}";
      }
  }
  out << "\n},\n\"globals\":{";
  {
    bool first = true;
    FnCtx dummy;
    std::set<std::string> done;
    for (int pass = 0; pass < 2; pass++) // definitions first, then declarations not defined anywhere
      for (auto &M : Mods)
        for (auto &G : M->globals()) {
          if ((pass == 0) == G.isDeclaration())
            continue;
          std::string key = GvKey[&G];
          if (done.count(key))
            continue;
          done.insert(key);
          if (!first)
            out << ",";
          first = false;
          out << "\n" << q(key) << ":{\"ty\":" << q(ctyStr(G.getValueType())) << ",\"internal\":" << (G.hasLocalLinkage() ? "true" : "false")
              << ",\"const\":" << (G.isConstant() ? "true" : "false") << ",\"decl\":" << (G.isDeclaration() ? "true" : "false")
              << ",\"module\":" << q(sys::path::filename(M->getSourceFileName()));
          if (G.getValueType()->isSized())
            out << ",\"size\":" << DL->getTypeAllocSize(G.getValueType()).getFixedSize();
          if (G.hasInitializer()) {
            const Constant *init = G.getInitializer();
            if (auto *cda = dyn_cast<ConstantDataSequential>(init)) {
              if (cda->isCString())
                out << ",\"str\":" << q(cda->getAsCString());
              else if (cda->isString())
                out << ",\"str\":" << q(cda->getAsString());
            } else if (isa<ConstantAggregateZero>(init)) {
              out << ",\"zeroinit\":true";
              if (auto *at = dyn_cast<ArrayType>(G.getValueType()))
                if (at->getElementType()->isIntegerTy(8) && at->getNumElements() == 1)
                  out << ",\"str\":\"\"";
            } else if (isa<ConstantInt>(init) || isa<ConstantPointerNull>(init) || isa<Function>(init) || isa<GlobalVariable>(init) || isa<ConstantExpr>(init)) {
              out << ",\"init\":" << operandJson(init, dummy);
            }
          }
          SmallVector<DIGlobalVariableExpression *, 2> gves;
          G.getDebugInfo(gves);
          if (!gves.empty()) {
            auto *gv = gves[0]->getVariable();
            out << ",\"srcname\":" << q(gv->getName()) << ",\"file\":" << q(gv->getFilename()) << ",\"line\":" << gv->getLine();
          }
          out << "}";
        }
  }
  out << "\n},\n\"functions\":{";
  bool firstF = true;
  std::set<std::string> doneF;
  for (int pass = 0; pass < 2; pass++)
  for (auto &M : Mods)
  for (auto &F : *M) {
    if ((pass == 0) == F.isDeclaration())
      continue;
    std::string key = FnKey[&F];
    if (doneF.count(key))
      continue;
    doneF.insert(key);
    if (!firstF)
      out << ",";
    firstF = false;
    out << "\n" << q(key) << ":{";
    out << "\"decl\":" << (F.isDeclaration() ? "true" : "false");
    out << ",\"module\":" << q(sys::path::filename(M->getSourceFileName()));
    out << ",\"internal\":" << (F.hasLocalLinkage() ? "true" : "false");
    out << ",\"noreturn\":" << (F.doesNotReturn() ? "true" : "false");
    out << ",\"vararg\":" << (F.isVarArg() ? "true" : "false");
    out << ",\"ret\":" << q(ctyStr(F.getReturnType()));
    out << ",\"args\":[";
    for (auto &A : F.args()) {
      if (A.getArgNo())
        out << ",";
      out << "{\"name\":" << q(A.getName()) << ",\"ty\":" << q(ctyStr(A.getType())) << "}";
    }
    out << "]";
    if (auto *sp = F.getSubprogram())
      out << ",\"file\":" << q(sp->getFilename()) << ",\"line\":" << sp->getLine() << ",\"srcname\":" << q(sp->getName());
    if (F.isDeclaration()) {
      out << "}";
      continue;
    }
    FnCtx C;
    int n = 0, bn = 0;
    for (auto &BB : F) {
      std::string nm = BB.hasName() ? BB.getName().str() : ("bb" + std::to_string(bn));
      C.bbName[&BB] = nm;
      bn++;
      for (auto &I : BB)
        C.id[&I] = n++;
    }
    // variable names from dbg intrinsics
    std::map<int, std::string> varOf;
    for (auto &BB : F)
      for (auto &I : BB) {
        if (auto *dd = dyn_cast<DbgDeclareInst>(&I)) {
          if (auto *ai = dyn_cast_or_null<Instruction>(dd->getAddress()))
            if (C.id.count(ai) && !varOf.count(C.id[ai]))
              varOf[C.id[ai]] = dd->getVariable()->getName().str();
        } else if (auto *dv = dyn_cast<DbgValueInst>(&I)) {
          if (auto *vi = dyn_cast_or_null<Instruction>(dv->getValue()))
            if (C.id.count(vi) && !varOf.count(C.id[vi]))
              varOf[C.id[vi]] = dv->getVariable()->getName().str();
        }
      }
    out << ",\"blocks\":[";
    bool firstB = true;
    for (auto &BB : F) {
      if (!firstB)
        out << ",";
      firstB = false;
      out << "\n {\"name\":" << q(C.bbName[&BB]) << ",\"succs\":[";
      {
        bool f2 = true;
        const Instruction *T = BB.getTerminator();
        if (T)
          for (unsigned i = 0; i < T->getNumSuccessors(); i++) {
            if (!f2)
              out << ",";
            f2 = false;
            out << q(C.bbName[T->getSuccessor(i)]);
          }
      }
      out << "],\"insts\":[";
      bool firstI = true;
      for (auto &I : BB) {
        if (isa<DbgInfoIntrinsic>(&I))
          continue;
        if (auto *ii = dyn_cast<IntrinsicInst>(&I)) {
          Intrinsic::ID id = ii->getIntrinsicID();
          if (id == Intrinsic::lifetime_start || id == Intrinsic::lifetime_end)
            continue;
        }
        if (!firstI)
          out << ",";
        firstI = false;
        int id = C.id[&I];
        out << "\n  {\"id\":" << id << ",\"op\":" << q(I.getOpcodeName()) << ",\"ty\":" << q(ctyStr(I.getType()));
        if (I.hasName())
          out << ",\"name\":" << q(I.getName());
        if (varOf.count(id))
          out << ",\"var\":" << q(varOf[id]);
        if (auto *obo = dyn_cast<OverflowingBinaryOperator>(&I))
          if (obo->hasNoSignedWrap())
            out << ",\"nsw\":1";
        if (const DebugLoc &dl = I.getDebugLoc()) {
          out << ",\"loc\":[" << dl.getLine() << "," << dl.getCol() << "]";
          if (auto *sc = dyn_cast_or_null<DIScope>(dl.getScope()))
            out << ",\"file\":" << q(sc->getFilename());
        }
        if (auto *ai = dyn_cast<AllocaInst>(&I)) {
          out << ",\"alloc_ty\":" << q(ctyStr(ai->getAllocatedType()));
          if (ai->getAllocatedType()->isSized())
            out << ",\"alloc_size\":" << DL->getTypeAllocSize(ai->getAllocatedType()).getFixedSize();
        } else if (auto *gep = dyn_cast<GetElementPtrInst>(&I)) {
          std::vector<const Value *> idx;
          for (auto it = gep->idx_begin(); it != gep->idx_end(); ++it)
            idx.push_back(it->get());
          out << ",\"base\":" << operandJson(gep->getPointerOperand(), C);
          out << ",\"src_ty\":" << q(ctyStr(gep->getSourceElementType()));
          out << ",\"path\":" << gepPathJson(gep->getSourceElementType(), idx, C, 0);
        } else if (auto *cb = dyn_cast<CallBase>(&I)) {
          const Value *cv = stripCasts(cb->getCalledOperand());
          if (auto *cf = dyn_cast<Function>(cv))
            out << ",\"callee\":" << q(FnKey.count(cf) ? FnKey[cf] : cf->getName().str());
          else
            out << ",\"callee_op\":" << operandJson(cb->getCalledOperand(), C);
          out << ",\"args\":[";
          for (unsigned i = 0; i < cb->arg_size(); i++) {
            if (i)
              out << ",";
            out << operandJson(cb->getArgOperand(i), C);
          }
          out << "]";
          if (cb->doesNotReturn())
            out << ",\"noreturn\":true";
          if (auto *inv = dyn_cast<InvokeInst>(&I)) {
            out << ",\"normal\":" << q(C.bbName[inv->getNormalDest()]) << ",\"unwind\":" << q(C.bbName[inv->getUnwindDest()]);
          }
        } else if (auto *phi = dyn_cast<PHINode>(&I)) {
          out << ",\"incoming\":[";
          for (unsigned i = 0; i < phi->getNumIncomingValues(); i++) {
            if (i)
              out << ",";
            out << "[" << operandJson(phi->getIncomingValue(i), C) << "," << q(C.bbName[phi->getIncomingBlock(i)]) << "]";
          }
          out << "]";
        } else if (auto *sw = dyn_cast<SwitchInst>(&I)) {
          out << ",\"cond\":" << operandJson(sw->getCondition(), C) << ",\"default\":" << q(C.bbName[sw->getDefaultDest()]) << ",\"cases\":[";
          bool f3 = true;
          for (auto &cs : sw->cases()) {
            if (!f3)
              out << ",";
            f3 = false;
            out << "[" << cs.getCaseValue()->getSExtValue() << "," << q(C.bbName[cs.getCaseSuccessor()]) << "]";
          }
          out << "]";
        } else {
          if (auto *cmp = dyn_cast<CmpInst>(&I))
            out << ",\"pred\":" << q(CmpInst::getPredicateName(cmp->getPredicate()));
          out << ",\"ops\":[";
          for (unsigned i = 0; i < I.getNumOperands(); i++) {
            if (i)
              out << ",";
            out << operandJson(I.getOperand(i), C);
          }
          out << "]";
          if (auto *ci = dyn_cast<CastInst>(&I))
            out << ",\"src_ty\":" << q(ctyStr(ci->getSrcTy()));
          if (auto *li = dyn_cast<LoadInst>(&I))
            out << ",\"volatile\":" << (li->isVolatile() ? "true" : "false");
        }
        out << "}";
      }
      out << "]}";
    }
    out << "]}";
  }
  out << "\n}\n}\n";
  out.close();
  return 0;
}
