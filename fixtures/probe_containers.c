/* Probes: each function instantiates ONE macro of the real container headers, so that the
   macro's code can be compared with its C++ inline-method twin (rule R8).  Not a model. */
#include <stddef.h>
#include <assert.h>
#include <string.h>
#include "allocate.h"
#include "objstack.h"
#include "vlobject.h"

void p_OS_TOP_NULLIFY (os_t *o) { OS_TOP_NULLIFY (*o); }
void p_OS_TOP_FINISH (os_t *o) { OS_TOP_FINISH (*o); }
size_t p_OS_TOP_LENGTH (os_t *o) { return OS_TOP_LENGTH (*o); }
void *p_OS_TOP_BEGIN (os_t *o) { return OS_TOP_BEGIN (*o); }
void *p_OS_TOP_END (os_t *o) { return OS_TOP_END (*o); }
void *p_OS_TOP_BOUND (os_t *o) { return OS_TOP_BOUND (*o); }
void p_OS_TOP_SHORTEN (os_t *o, size_t n) { OS_TOP_SHORTEN (*o, n); }
void p_OS_TOP_EXPAND (os_t *o, size_t length) { OS_TOP_EXPAND (*o, length); }
void p_OS_TOP_ADD_BYTE (os_t *o, int b) { OS_TOP_ADD_BYTE (*o, b); }
void p_OS_TOP_ADD_MEMORY (os_t *o, const void *str, size_t length) { OS_TOP_ADD_MEMORY (*o, str, length); }

void p_VLO_CREATE (vlo_t *v, YaepAllocator *a, size_t initial_length) { VLO_CREATE (*v, a, initial_length); }
void p_VLO_DELETE (vlo_t *v) { VLO_DELETE (*v); }
void p_VLO_NULLIFY (vlo_t *v) { VLO_NULLIFY (*v); }
size_t p_VLO_LENGTH (vlo_t *v) { return VLO_LENGTH (*v); }
void *p_VLO_BEGIN (vlo_t *v) { return VLO_BEGIN (*v); }
void *p_VLO_END (vlo_t *v) { return VLO_END (*v); }
void *p_VLO_BOUND (vlo_t *v) { return VLO_BOUND (*v); }
void p_VLO_SHORTEN (vlo_t *v, size_t n) { VLO_SHORTEN (*v, n); }
void p_VLO_EXPAND (vlo_t *v, size_t length) { VLO_EXPAND (*v, length); }
void p_VLO_ADD_BYTE (vlo_t *v, int b) { VLO_ADD_BYTE (*v, b); }
void p_VLO_ADD_MEMORY (vlo_t *v, const void *str, size_t length) { VLO_ADD_MEMORY (*v, str, length); }
