// Probes: force the emission of every inline member function of the real C++ container
// headers (rule R8 compares them with the C macros instantiated in probe_containers.c).
#include <stddef.h>
#include <assert.h>
#include <string.h>
#include "allocate.h"
#include "objstack.h"
#include "vlobject.h"

void x_os (os *o, size_t n, int b, const void *s)
{
  o->top_nullify (); o->top_finish (); (void) o->top_length (); (void) o->top_begin (); (void) o->top_end (); (void) o->top_bound ();
  o->top_shorten (n); o->top_expand (n); o->top_add_byte (b); o->top_add_memory (s, n);
}
vlo *x_vlo (vlo *v, YaepAllocator *a, size_t n, int b, const void *s)
{
  v->nullify (); (void) v->length (); (void) v->begin (); (void) v->end (); (void) v->bound ();
  v->shorten (n); v->expand (n); v->add_byte (b); v->add_memory (s, n);
  delete v;
  return new vlo (a, n);
}
