/* F2: a description syntax error on g1 must be recorded in g1, not in g2. */
#include "common.h"
int main (void)
{
  struct grammar *g1 = yaep_create_grammar (), *g2 = yaep_create_grammar ();
  int r2 = yaep_parse_grammar (g2, 1, g_desc_expr);
  int r1 = yaep_parse_grammar (g1, 1, "E : ? ;");
  printf ("ret g2=%d g1=%d   g1.code=%d g2.code=%d\n", r2, r1, yaep_error_code (g1), yaep_error_code (g2));
  { int ok = (r1 != 0 && yaep_error_code (g1) == r1 && yaep_error_code (g2) == 0);
    yaep_free_grammar (g1); yaep_free_grammar (g2); return !ok; }
  return !(r1 != 0 && yaep_error_code (g1) == r1 && yaep_error_code (g2) == 0);
}
