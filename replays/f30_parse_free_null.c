/* F30 (C13): "Every block yaep passes to the caller's parse_free was returned by the caller's
   parse_alloc".  yaep_free_tree marks the name shared by all abstract nodes of a rule in the
   first node and sets the name pointer of every further node to NULL; free_tree_sweep then
   handed that NULL to the caller's parse_free.  A parse_free that is not free() (a pool, a
   counting wrapper) receives a pointer it never allocated.  */
#include "common.h"
static int n_null, n_free;
static void fr (void *p) { if (p == NULL) n_null++; else { n_free++; free (p); } }
int main (void)
{
  struct grammar *g = yaep_create_grammar (); struct yaep_tree_node *root; int amb, rc;
  rc = yaep_parse_grammar (g, 1, g_desc_expr);
  if (rc) return 2;
  rc = parse (g, "a+a+a", fr, &root, &amb);      /* three `plus'-free nodes?  two nodes named plus */
  if (rc) return 2;
  yaep_free_grammar (g);
  yaep_free_tree (root, fr, NULL);
  printf ("parse_free called %d times with a block, %d times with NULL\n", n_free, n_null);
  printf (n_null ? "FAIL\n" : "OK\n");
  return n_null != 0;
}
