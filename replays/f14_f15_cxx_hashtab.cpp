// F14: hash_table::find_entry (C++) marks a re-used deleted slot DELETED instead of EMPTY,
//      so the caller's "if (*entry == NULL) insert" idiom sees a non-empty slot holding 0x1.
// F15: hash_table::expand_hash_table releases a `new'-ed object with yaep_free (free).
// build: g++ -fsanitize=address,undefined -I/repo/src f14_f15_cxx_hashtab.cpp hashtab.cpp allocate.c
#include <stdio.h>
#include <stdlib.h>
#include "allocate.h"
#include "hashtab.h"
static unsigned h (hash_table_entry_t e) { return (unsigned) (size_t) e % 7; }   // force collisions
static int eq (hash_table_entry_t a, hash_table_entry_t b) { return a == b; }
int main (void)
{
  YaepAllocator *a = yaep_alloc_new (NULL, NULL, NULL, NULL);
  hash_table *t = new hash_table (a, 10, h, eq);
  hash_table_entry_t *e;
  int bad = 0;
  // two colliding elements, remove the first, insert a third that collides too
  e = t->find_entry ((void *) 8, 1);  *e = (void *) 8;
  e = t->find_entry ((void *) 15, 1); *e = (void *) 15;
  t->remove_element_from_entry ((void *) 8);
  e = t->find_entry ((void *) 22, 1);
  printf ("slot reserved for a new element contains %p (expected NULL)\n", *e);
  if (*e != NULL) bad = 1;
  *e = (void *) 22;
  // force an expansion (F15: alloc-dealloc mismatch under ASan)
  for (size_t i = 100; i < 140; i++) { e = t->find_entry ((void *) i, 1); if (*e == NULL) *e = (void *) i; }
  delete t;
  yaep_alloc_del (a);
  return bad;
}
