/* F5: the parser list allocated by each yaep_parse is released only by
   yaep_free_grammar and overwritten by the next parse: leak.  */
#include "common.h"
int main (void)
{
  struct grammar *g = yaep_create_grammar ();
  struct yaep_tree_node *root; int amb, i;
  yaep_parse_grammar (g, 1, g_desc_expr);
  for (i = 0; i < 3; i++)
    { printf ("parse %d\n", parse (g, "a+a", free, &root, &amb)); yaep_free_tree (root, free, NULL); }
  yaep_free_grammar (g);
  return 0;
}
