/* F43: `If the code is omitted, the terminal code will be the next free code starting with 256'
   (doc/yaep.txt).  set_sgrammar counted 256, 257, ... without looking at the codes given explicitly:
   `TERM a = 256 b;' hands 256 to b as well and the well-formed description is refused with
   YAEP_REPEATED_TERM_CODE.  Expected after the repair: b gets 257 (and in `TERM b a = 256;' b gets 257 too).
   Build: replays/run.sh replays/f43_implicit_code_not_free.c  */
#include <stdio.h>
#include <stdlib.h>
#include "yaep.h"

static const int *toks; static int ntoks, pos;
static int read_token (void **attr) { *attr = NULL; return pos < ntoks ? toks[pos++] : -1; }
static int nerr;
static void serr (int a, void *b, int c, void *d, int e, void *f) { nerr++; }
static void *palloc (int n) { return malloc (n); }

static int
check (const char *d, const int *t, int n)
{
  struct grammar *g = yaep_create_grammar ();
  struct yaep_tree_node *root;
  int amb, rc, prc = -1;

  rc = yaep_parse_grammar (g, 1, d);
  printf ("%-36.36s parse_grammar %d %s\n", d, rc, rc ? yaep_error_message (g) : "");
  if (rc == 0)
    {
      toks = t; ntoks = n; pos = 0; nerr = 0;
      prc = yaep_parse (g, read_token, serr, palloc, NULL, &root, &amb);
      printf ("   tokens %d %d: parse %d, %d syntax errors\n", t[0], t[1], prc, nerr);
    }
  yaep_free_grammar (g);
  return rc == 0 && prc == 0 && nerr == 0;
}

int
main (void)
{
  static const int ab[] = { 256, 257 }, ba[] = { 257, 256 }, plain[] = { 256, 257 }, mixed[] = { 300, 256 };
  int ok = 1;
  ok &= check ("TERM a = 256 b;\nS : a b ;\n", ab, 2);
  ok &= check ("TERM b a = 256;\nS : b a ;\n", ba, 2);
  ok &= check ("TERM a b;\nS : a b ;\n", plain, 2);
  ok &= check ("TERM a = 300 b;\nS : a b ;\n", mixed, 2);
  printf (ok ? "ok\n" : "FAIL\n");
  return !ok;
}
