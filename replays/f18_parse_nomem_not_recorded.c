/* F18: yaep_parse (alloc == NULL, free != NULL) returns YAEP_NO_MEMORY but the
   object's error code stays 0.  */
#include "common.h"
int main (void)
{
  struct grammar *g = yaep_create_grammar ();
  struct yaep_tree_node *root; int amb, r;
  yaep_parse_grammar (g, 1, g_desc_expr);
  g_input = "a"; g_pos = 0;
  r = yaep_parse (g, rd, se, NULL, free, &root, &amb);
  printf ("ret=%d error_code=%d message='%s'\n", r, yaep_error_code (g), yaep_error_message (g));
  r = !(r == YAEP_NO_MEMORY && yaep_error_code (g) == r && yaep_error_message (g)[0] != 0);
  yaep_free_grammar (g);
  return r;
}
