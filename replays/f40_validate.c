/* Reproducer for the observation in OBSERVATIONS.txt (UNMODIFIED library):
   check_cached_transition_set reads pl[-1] after an error recovery.

   Build and run (from the root of the worktree):

     mkdir -p <dir> && bison -o <dir>/sgramm.c src/sgramm.y
     gcc -g -O1 -fsanitize=address,undefined -Isrc -I<dir> \
         src/allocate.c src/hashtab.c src/objstack.c src/vlobject.c src/yaep.c \
         replays/f40_goto_cache_negative_index.c -o <dir>/obs_demo
     ASAN_OPTIONS=detect_leaks=0 <dir>/obs_demo

   Expected on the unmodified library: AddressSanitizer heap-buffer-overflow
   (READ of size 8, 8 bytes to the left of the region allocated by pl_create)
   in check_cached_transition_set, yaep.c:4730, already for lookahead level 0.  */

#include <stdio.h>
#include <stdlib.h>
#include <string.h>
#include "yaep.h"

static const char *descriptions[] = {
  "\n"
  "S : L            # 0 ;\n"
  "L : E            # one (0)\n"
  "  | L ';' E      # seq (0 2)\n"
  "  | L ';' error  # serr (0)\n"
  "  ;\n"
  "E : T            # 0\n"
  "  | E '+' T      # plus (0 2)\n"
  "  ;\n"
  "T : F            # 0\n"
  "  | T '*' F      # mult (0 2)\n"
  "  ;\n"
  "F : 'a' O        # f (0 1)\n"
  "  | '(' E ')'    # 1\n"
  "  | '(' error ')' # perr\n"
  "  ;\n"
  "O :\n"
  "  | 'b'          # 0\n"
  "  ;\n",
  "TERM;\n"
  "S : L                # 0\n"
  "  ;\n"
  "L : I                # l1 (0)\n"
  "  | L I              # l2 (0 1)\n"
  "  ;\n"
  "I : 'a' ';'          # i (0 1)\n"
  "  | '(' L ')'        # p (0 1 2)\n"
  "  | '(' error ')'    # pe (0 1 2)\n"
  "  | '[' L ']'        # b (0 1 2)\n"
  "  | '[' error ']'    # be (0 1 2)\n"
  "  | '{' L '}'        # c (0 1 2)\n"
  "  | '{' error '}'    # ce (0 1 2)\n"
  "  ;\n",
  "S : 'a' S 'b' # f (0 1 2) | 'c' # c (0) | 'a' error 'b' # e (0 2) | error 'c' # g (1)  ;\n"
};
static const char *alphabets[] = { "a+*()b;", "a;()[]{}", "abc" };
static const char *input;
static int ntok;

static int
read_token (void **attr)
{
  *attr = NULL;
  if (input[ntok] != '\0')
    return input[ntok++];
  return -1;
}

static char out[100000];
static size_t outlen;

static void
put (const char *s)
{
  size_t l = strlen (s);

  if (outlen + l + 1 > sizeof (out))
    abort ();
  memcpy (out + outlen, s, l + 1);
  outlen += l;
}

static void
syntax_error (int err_tok_num, void *err_tok_attr,
	      int start_ignored_tok_num, void *start_ignored_tok_attr,
	      int start_recovered_tok_num, void *start_recovered_tok_attr)
{
  char b[100];

  sprintf (b, "[error at %d, ignored %d..%d]", err_tok_num,
	   start_ignored_tok_num, start_recovered_tok_num);
  put (b);
}

static void *
parse_alloc (int n)
{
  void *p = malloc (n);

  if (p == NULL)
    abort ();
  return p;
}

static void
dump (struct yaep_tree_node *n)
{
  char b[20];
  int i;

  if (n == NULL)
    {
      put ("NULL");
      return;
    }
  switch (n->type)
    {
    case YAEP_NIL:
      put ("nil");
      break;
    case YAEP_ERROR:
      put ("error");
      break;
    case YAEP_TERM:
      sprintf (b, "%c", n->val.term.code);
      put (b);
      break;
    case YAEP_ANODE:
      put (n->val.anode.name);
      put ("(");
      for (i = 0; n->val.anode.children[i] != NULL; i++)
	{
	  if (i != 0)
	    put (",");
	  dump (n->val.anode.children[i]);
	}
      put (")");
      break;
    case YAEP_ALT:
      put ("{");
      for (; n != NULL; n = n->val.alt.next)
	{
	  dump (n->val.alt.node);
	  put ("|");
	}
      put ("}");
      break;
    }
}

/* Parse IN with lookahead level LA and return the printed outcome.  */
static char *
outcome (struct grammar *g, const char *in, int la)
{
  struct yaep_tree_node *root;
  int ambiguous_p, rc;
  char b[100];

  outlen = 0;
  out[0] = '\0';
  yaep_set_lookahead_level (g, la);
  input = in;
  ntok = 0;
  rc = yaep_parse (g, read_token, syntax_error, parse_alloc, NULL, &root,
		   &ambiguous_p);
  sprintf (b, " rc=%d ambiguous=%d tree=", rc, ambiguous_p);
  put (b);
  if (rc == 0)
    dump (root);
  return strdup (out);
}


static char gbuf[4000];
static int glen;
static void emit (char c) { if (glen < 3000) gbuf[glen++] = c; }
static void gen0_E (int d);
static void gen0_F (int d) { if (d > 5 || rand () % 3) { emit ('a'); if (rand () % 3 == 0) emit ('b'); } else { emit ('('); gen0_E (d + 1); emit (')'); } }
static void gen0_T (int d) { gen0_F (d); while (rand () % 3 == 0) { emit ('*'); gen0_F (d); } }
static void gen0_E (int d) { gen0_T (d); while (rand () % 3 == 0) { emit ('+'); gen0_T (d); } }
static void gen0 (void) { gen0_E (0); while (rand () % 2) { emit (';'); gen0_E (0); } }
static void gen1_L (int d);
static void gen1_I (int d) { int k = rand () % 5; if (d > 5 || k < 2) { emit ('a'); emit (';'); } else { const char *br = k == 2 ? "()" : k == 3 ? "[]" : "{}"; emit (br[0]); gen1_L (d + 1); emit (br[1]); } }
static void gen1_L (int d) { gen1_I (d); while (rand () % 2) gen1_I (d); }
static void gen2 (int d) { if (d > 8 || rand () % 3 == 0) emit ('c'); else { emit ('a'); gen2 (d + 1); emit ('b'); } }
static void
gen_input (unsigned gi, char *in, int max)
{
  int k, nm;
  size_t al = strlen (alphabets[gi]);
  do { glen = 0; if (gi == 0) gen0 (); else if (gi == 1) gen1_L (0); else gen2 (0); } while (glen >= max - 8);
  nm = rand () % 4;
  for (k = 0; k < nm; k++)
    {
      int pos = rand () % (glen + 1), op = rand () % 3;
      if (op == 0 && pos < glen) gbuf[pos] = alphabets[gi][rand () % al];
      else if (op == 1 && glen > 1 && pos < glen) { memmove (gbuf + pos, gbuf + pos + 1, glen - pos - 1); glen--; }
      else { memmove (gbuf + pos + 1, gbuf + pos, glen - pos); gbuf[pos] = alphabets[gi][rand () % al]; glen++; }
    }
  memcpy (in, gbuf, glen); in[glen] = 0;
}

int
main (int argc, char **argv)
{
  struct grammar *g;
  unsigned gi, i, seed = argc > 1 ? atoi (argv[1]) : 1, n = argc > 2 ? atoi (argv[2]) : 2000;
  char in[200];

  srand (seed);
  for (gi = 0; gi < 3; gi++)
    {
      for (i = 0; i < n; i++)
        {
          int len = 1 + rand () % 40, k, la = rand () % 3, rm = 1 + rand () % 4, one = rand () % 2;
          size_t al = strlen (alphabets[gi]);
          char *r;

          (void) k; (void) al; (void) len;
          gen_input (gi, in, 180);
          g = yaep_create_grammar ();
          if (g == NULL || yaep_parse_grammar (g, 0, descriptions[gi]) != 0)
            {
              fprintf (stderr, "grammar: %s\n", g ? yaep_error_message (g) : "no memory");
              return 2;
            }
          yaep_set_one_parse_flag (g, one);
          yaep_set_recovery_match (g, rm);
          r = outcome (g, in, la);
          printf ("%u %s la=%d rm=%d one=%d: %s\n", gi, in, la, rm, one, r);
          free (r);
          /* a second parse with the same object */
          r = outcome (g, in, la);
          printf ("  again: %s\n", r);
          free (r);
          yaep_free_grammar (g);
        }
    }
  return 0;
}
