/* F24: with the cost flag set make_parse forces grammar->one_parse_p to 0 and restores it only
   on its normal path: a parse that fails (no memory) inside make_parse changes the setting. */
void *__real_malloc (unsigned long);
#define malloc __real_malloc
#include "common.h"
#undef malloc
static long countdown = -1;
void *__real_realloc (void *, size_t);
void *__wrap_malloc (size_t n) { if (countdown > 0 && --countdown == 0) return NULL; return __real_malloc (n); }
void *__wrap_realloc (void *p, size_t n) { if (countdown > 0 && --countdown == 0) return NULL; return __real_realloc (p, n); }
int main (void)
{
  struct grammar *g = yaep_create_grammar ();
  struct yaep_tree_node *root; int amb, k, r, bad = 0, old;
  yaep_parse_grammar (g, 1, "E : E '+' E # plus (0 2) | 'a' # a (0) ;\n");
  yaep_set_cost_flag (g, 1);
  for (k = 1; k < 300; k++)
    {
      countdown = k; r = parse (g, "a+a+a", free, &root, &amb);
      if (countdown > 0) { countdown = -1; if (r == 0) yaep_free_tree (root, free, NULL); break; }
      countdown = -1;
      old = yaep_set_one_parse_flag (g, 1);
      if (old != 1) { printf ("after the failure of allocation %d (parse = %d) the one-parse flag is %d\n", k, r, old); bad++; }
    }
  printf ("%d failure points changed the setting\n", bad);
  yaep_free_grammar (g);
  return bad != 0;
}
