/* F41: the description scanner accumulates a NUMBER in int without a bound.
   `TERM a = 4294967303' is accepted and `a' gets the code 7 (the value modulo 2^32);
   `TERM a = 4294967295' wraps to -1, the marker of `no code given': `a' silently gets 256.
   UBSan: signed integer overflow at sgramm.y (yylex).  Expected after the repair: both
   descriptions are refused with YAEP_DESCRIPTION_SYNTAX_ERROR_CODE and a line number.
   Build: replays/run.sh replays/f41_number_overflow.c  */
#include <stdio.h>
#include <stdlib.h>
#include <string.h>
#include "yaep.h"

static int tok_code, tok_given;
static int read_token (void **attr) { *attr = NULL; if (tok_given) return -1; tok_given = 1; return tok_code; }
static void serr (int a, void *b, int c, void *d, int e, void *f) { }
static void *palloc (int n) { return malloc (n); }

static int
try_desc (const char *d, int code)
{
  struct grammar *g = yaep_create_grammar ();
  struct yaep_tree_node *root;
  int amb, rc, prc = -1;

  rc = yaep_parse_grammar (g, 1, d);
  if (rc == 0)
    {
      tok_code = code; tok_given = 0;
      prc = yaep_parse (g, read_token, serr, palloc, NULL, &root, &amb);
    }
  printf ("%-40.40s -> parse_grammar %d (%s), token %d: parse %d\n", d, rc, rc ? yaep_error_message (g) : "accepted", code, prc);
  yaep_free_grammar (g);
  return rc;
}

int
main (void)
{
  int bad = 0;
  if (try_desc ("TERM a = 4294967303;\nS : a ;\n", 7) != YAEP_DESCRIPTION_SYNTAX_ERROR_CODE) bad = 1;
  if (try_desc ("\nTERM a = 4294967295;\nS : a ;\n", 256) != YAEP_DESCRIPTION_SYNTAX_ERROR_CODE) bad = 1;
  if (try_desc ("TERM a = 99999999999999999999;\nS : a ;\n", 0) != YAEP_DESCRIPTION_SYNTAX_ERROR_CODE) bad = 1;
  if (try_desc ("TERM a = 2147483647;\nS : a ;\n", 2147483647) == YAEP_DESCRIPTION_SYNTAX_ERROR_CODE) bad = 1;   /* INT_MAX itself is a number */
  if (try_desc ("TERM a = 0000000000000300;\nS : a ;\n", 300) != 0) bad = 1;   /* leading zeros do not overflow */
  printf (bad ? "FAIL\n" : "ok\n");
  return bad;
}
