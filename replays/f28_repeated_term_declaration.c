/* F28 (C11): "TERM-declared identifiers are terminals with their explicit code ...; a repeated
   declaration with the same code is harmless".  The merge of repeated declarations in
   set_sgrammar updated a stale copy (prev pointed to the unsorted position, not to the kept
   element) and its test was inverted: a declaration without code erased the explicit code of
   the other one (`TERM a=5 a' -> a gets 256, the token 5 is rejected).  */
#include "common.h"
static int codes[8], ncodes, cpos;
static int rdc (void **attr) { *attr = NULL; return cpos < ncodes ? codes[cpos++] : -1; }
static int try (const char *desc, int code)
{
  struct grammar *g = yaep_create_grammar (); struct yaep_tree_node *root; int amb, rc;
  rc = yaep_parse_grammar (g, 1, desc);
  if (rc) { printf ("  definition failed: %s\n", yaep_error_message (g)); yaep_free_grammar (g); return 1; }
  codes[0] = code; ncodes = 1; cpos = 0;
  rc = yaep_parse (g, rdc, se, pa, NULL, &root, &amb);
  printf ("  %-28s token %d: rc=%d%s\n", desc, code, rc, rc ? yaep_error_message (g) : "");
  yaep_free_grammar (g);
  return rc != 0;
}
int main (void)
{
  int bad = 0;
  bad |= try ("TERM a=5 a;\nS : a;", 5);
  bad |= try ("TERM a a=5;\nS : a;", 5);
  bad |= try ("TERM a=5 a=5;\nS : a;", 5);
  bad |= try ("TERM a a;\nS : a;", 256);
  bad |= try ("TERM b a=7 b a;\nS : a;", 7);
  bad |= try ("TERM b a=7 b a;\nS : b;", 256);
  printf (bad ? "FAIL\n" : "OK\n");
  return bad;
}
