/* F34 (C06, C12): every syntax_error call has 0 <= first ignored <= first recovered.  A recovery
   state made by skipping a token after the error token got  cost + 1  in the member that is later
   subtracted from the error token's number to give the first ignored token, as if the skipped
   token had been dropped behind the error token.  For `;=' (S : I ';' | S I ';' | error ';'),
   recovery_match 2, the call reported first ignored -1 and build_pl read toks[-1].attr.  */
#include "common.h"
static int bad;
static void se2 (int e, void *ea, int s, void *sa, int r, void *ra)
{ n_err++; printf ("  syntax_error (error token %d, first ignored %d, first recovered %d)\n", e, s, r); if (s < 0 || r < s) bad = 1; }
int main (void)
{
  struct grammar *g = yaep_create_grammar (); struct yaep_tree_node *root; int amb, rc;
  static const char *inputs[] = { ";=", "=;", "i=;=", ";;=n" };
  unsigned k;
  rc = yaep_parse_grammar (g, 1, "S : I ';' | S I ';' | error ';' ; I : 'i' '=' 'n' ;");
  if (rc) return 2;
  yaep_set_recovery_match (g, 2);
  for (k = 0; k < sizeof (inputs) / sizeof (inputs[0]); k++)
    {
      g_input = inputs[k]; g_pos = 0; n_err = 0;
      printf ("input `%s'\n", inputs[k]);
      rc = yaep_parse (g, rd, se2, pa, NULL, &root, &amb);
      if (rc != 0) bad = 1;
    }
  yaep_free_grammar (g);
  printf (bad ? "FAIL\n" : "OK\n");
  return bad;
}
