/* F36 (C03): S : B A # s (0) ; A : 'a' | 'a' 'a' ; B : 'a' # b1 | 'a' 'a' # b2  on  aaa  has two
   translations, s(b1) (A takes two tokens) and s(b2) (A takes one).  make_parse continues the
   enclosing rule from another origin of a nonterminal only inside the branch that uses the
   nonterminal's translation; A's translation is dropped, so only its first origin is followed
   and one translation is missing (the ambiguity flag is set all the same).  With the translated
   symbol on the right (S : A B # s (1)) both are found.  */
#include "common.h"
static int count_alts (struct yaep_tree_node *n) { int k = 0; if (n->type != YAEP_ALT) return 1; for (; n != NULL; n = n->val.alt.next) k++; return k; }
int main (void)
{
  static const char *G[] = { "S : A B # s (1) ; A : 'a' | 'a' 'a' ; B : 'a' # b1 | 'a' 'a' # b2 ;",
			      "S : B A # s (0) ; A : 'a' | 'a' 'a' ; B : 'a' # b1 | 'a' 'a' # b2 ;" };
  int k, bad = 0;
  for (k = 0; k < 2; k++)
    {
      struct grammar *g = yaep_create_grammar (); struct yaep_tree_node *root; int amb, rc;
      if (yaep_parse_grammar (g, 1, G[k])) return 2;
      yaep_set_one_parse_flag (g, 0);
      rc = parse (g, "aaa", NULL, &root, &amb);
      printf ("%s\n   aaa: rc=%d ambiguous=%d, %d translation(s) in the DAG (2 exist)\n", G[k], rc, amb, count_alts (root));
      if (count_alts (root) != 2) bad = 1;
      yaep_free_grammar (g);
    }
  printf (bad ? "FAIL\n" : "OK\n");
  return bad;
}
