/* With the cost flag set, an abstract node whose (total) cost is INT_MAX
   makes yaep_parse () evaluate `-INT_MIN': signed integer overflow
   (undefined behaviour, reported by UBSan).

   Build and run (from this directory):

     mkdir -p ../../build-h && bison -o ../../<dir>/sgramm.c ../../src/sgramm.y
     clang -g -fsanitize=undefined -fno-sanitize-recover=undefined \
        -I../../build-h -I../../src repro.c ../../src/allocate.c \
        ../../src/hashtab.c ../../src/objstack.c ../../src/vlobject.c \
        ../../src/yaep.c -o repro
     ./repro      # cost INT_MAX given in the grammar
     ./repro 1    # two costs of 2^30: the sum saturates at INT_MAX

   Expected: the tree `x (a)' resp. `y (x (a) x (a))' with cost INT_MAX,
   exit status 0.
   Observed:
     src/yaep.c:5492:30: runtime error: negation of -2147483648 cannot be
     represented in type 'int'
   and the program is aborted.  */

#include <stdio.h>
#include <stdlib.h>
#include <limits.h>
#include "yaep.h"

static const char *input;
static int pos;

static int
read_token (void **attr)
{
  *attr = NULL;
  return input[pos] != '\0' ? (unsigned char) input[pos++] : -1;
}

static void
syntax_error (int err_tok_num, void *err_tok_attr,
	      int start_ignored_tok_num, void *start_ignored_tok_attr,
	      int start_recovered_tok_num, void *start_recovered_tok_attr)
{
  abort ();
}

int
main (int argc, char **argv)
{
  struct grammar *g = yaep_create_grammar ();
  struct yaep_tree_node *root;
  int ambiguous_p, rc;
  const char *description;

  if (argc > 1)
    {
      description = "S : A A # y 0 (0 1) ; A : 'a' # x 1073741824 (0) ;";
      input = "aa";
    }
  else
    {
      description = "S : 'a' # x 2147483647 (0) ;";
      input = "a";
    }
  yaep_set_cost_flag (g, 1);
  if (yaep_parse_grammar (g, 1, description) != 0)
    return 2;
  rc = yaep_parse (g, read_token, syntax_error, NULL, NULL, &root,
		   &ambiguous_p);
  if (rc != 0 || root == NULL || root->type != YAEP_ANODE)
    return 3;
  printf ("root `%s' has cost %d\n", root->val.anode.name,
	  root->val.anode.cost);
  yaep_free_grammar (g);
  yaep_free_tree (root, NULL, NULL);
  return 0;
}
