/* F3: a failed REdefinition must leave the object unusable (YAEP_UNDEFINED_OR_BAD_GRAMMAR). */
#include "common.h"
int main (void)
{
  struct grammar *g = yaep_create_grammar ();
  struct yaep_tree_node *root; int amb, r1, r2, r3;
  r1 = yaep_parse_grammar (g, 1, g_desc_expr);
  r2 = yaep_parse_grammar (g, 1, "TERM;\nS : S # 0 ;\n");   /* loop: YAEP_LOOP_NONTERM or derivation error */
  r3 = parse (g, "a+a", free, &root, &amb);
  printf ("define=%d redefine=%d parse-after-failed-redefinition=%d (expected %d)\n", r1, r2, r3, YAEP_UNDEFINED_OR_BAD_GRAMMAR);
  if (r3 == 0) yaep_free_tree (root, free, NULL);
  yaep_free_grammar (g);
  return !(r2 != 0 && r3 == YAEP_UNDEFINED_OR_BAD_GRAMMAR);
}
