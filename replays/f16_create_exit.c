/* F16: the second allocation of yaep_create_grammar (the grammar object itself)
   is requested while the allocator still has its default error hook.  */
#include "common.h"
static long countdown = -1;
void *__real_malloc (size_t);
void *__wrap_malloc (size_t n) { if (countdown > 0 && --countdown == 0) return NULL; return __real_malloc (n); }
int main (void)
{
  struct grammar *g;
  countdown = 2; g = yaep_create_grammar (); countdown = -1;
  printf ("create with failing 2nd malloc returned %p\n", (void *) g);
  return g != NULL;
}
