/* F32 (C12, C06): with error recovery on, every token sequence is parsed and every syntax_error
   call has 0 <= first ignored <= first recovered.  yaep_read_grammar added `$S : error $eof' only
   if no rule of the start symbol began with `error'.  For `S : 'a' | error ';'' and the empty
   input that rule cannot recover (no `;'), no recovery state is ever accepted, error_recovery
   leaves *start == *stop == -1 (and restores an uninitialised best_state) and build_pl reads
   toks[-1].attr: AddressSanitizer heap-buffer-overflow in build_pl.  */
#include "common.h"
static int bad;
static void se2 (int e, void *ea, int s, void *sa, int r, void *ra)
{ n_err++; printf ("  syntax_error (%d, .., %d, .., %d, ..)\n", e, s, r); if (s < 0 || r < s) bad = 1; }
int main (void)
{
  struct grammar *g = yaep_create_grammar (); struct yaep_tree_node *root; int amb, rc;
  static const char *inputs[] = { "", "a", "aa", ";", "a;" };
  unsigned k;
  rc = yaep_parse_grammar (g, 1, "S : 'a' | error ';' ;");
  if (rc) return 2;
  for (k = 0; k < sizeof (inputs) / sizeof (inputs[0]); k++)
    {
      g_input = inputs[k]; g_pos = 0; n_err = 0;
      rc = yaep_parse (g, rd, se2, pa, NULL, &root, &amb);
      printf ("input `%s': rc=%d errors=%d root=%s\n", inputs[k], rc, n_err, root ? "tree" : "NULL");
      if (rc != 0 || root == NULL) bad = 1;
    }
  yaep_free_grammar (g);
  printf (bad ? "FAIL\n" : "OK\n");
  return bad;
}
