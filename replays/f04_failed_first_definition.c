/* F4: the remains of a failed first definition must not leak into the next one. */
#include "common.h"
int main (void)
{
  struct grammar *g = yaep_create_grammar ();
  int r1, r2;
  r1 = yaep_parse_grammar (g, 1, "TERM A;\nS : S # 0 ;\n");
  r2 = yaep_parse_grammar (g, 1, "TERM A;\nS : A # 0 ;\n");
  printf ("bad definition=%d, then good definition=%d (%s)\n", r1, r2, yaep_error_message (g));
  yaep_free_grammar (g);
  return !(r1 != 0 && r2 == 0);
}
