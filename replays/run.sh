#!/bin/sh
# Replay helper (NOT part of any check): builds libyaep from a source tree with
# ASan/UBSan and runs one driver against it.   usage: run.sh <driver.c> [srcdir] [extra cc flags]
set -e
drv=$1; src=${2:-/repo/src}; shift; [ $# -gt 0 ] && shift
W=$(mktemp -d /tmp/yaep-replay.XXXXXX)
trap 'rm -rf "$W"' EXIT
bison -o "$W/sgramm.c" "$src/sgramm.y" 2>/dev/null
for u in allocate hashtab objstack vlobject yaep; do
  gcc -g ${OPT:--O1} -fsanitize=address,undefined -fno-omit-frame-pointer -std=gnu90 -I"$W" -I"$src" -c "$src/$u.c" -o "$W/$u.o" -w
done
gcc -g ${OPT:--O1} -fsanitize=address,undefined -I"$src" "$drv" "$W"/*.o -o "$W/drv" -w "$@"
ASAN_OPTIONS=${ASAN_OPTIONS:-detect_leaks=1} "$W/drv" $DRV_ARGS
