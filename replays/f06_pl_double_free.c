/* F6: a parse that fails after the parser list exists frees it in the handler
   without clearing the pointer; yaep_free_grammar frees it again.
   The failure is provoked with an allocation failure injected through malloc wrapping. */
#include "common.h"
static long countdown = -1;
void *__real_malloc (size_t);
void *__wrap_malloc (size_t n) { if (countdown > 0 && --countdown == 0) return NULL; return __real_malloc (n); }
int main (void)
{
  struct grammar *g = yaep_create_grammar ();
  struct yaep_tree_node *root; int amb, k, r;
  yaep_parse_grammar (g, 1, g_desc_expr);
  /* find a k for which the parse fails after pl_create */
  for (k = 40; k < 80; k++)
    {
      countdown = k; r = parse (g, "a+a", free, &root, &amb); countdown = -1;
      printf ("k=%d parse=%d\n", k, r);
      if (r == YAEP_NO_MEMORY) break;
      yaep_free_tree (root, free, NULL);
    }
  yaep_free_grammar (g);
  printf ("freed\n");
  return 0;
}
