/* F31 (C01, C09): a sentence must be accepted at every lookahead level.  set_new_add_initial_sit
   suppressed an initial situation (distance 0) when the same situation was already in the set as
   a derived situation with the distance of a parent (index below n_all_dists): its loop compared
   the situation only, over both classes.  The item "origin here" was lost; at lookahead 2 the
   contexts (hence the situation objects) differ, so only levels 0 and 1 rejected the sentence.  */
#include "common.h"
static int codes[16], ncodes, cpos;
static int rdc (void **attr) { *attr = NULL; return cpos < ncodes ? codes[cpos++] : -1; }
static int run (const char *desc, const char *input, int level)
{
  struct grammar *g = yaep_create_grammar (); struct yaep_tree_node *root; int amb, rc, i;
  rc = yaep_parse_grammar (g, 0, desc);
  if (rc) { printf ("definition failed: %s\n", yaep_error_message (g)); exit (2); }
  yaep_set_lookahead_level (g, level);
  yaep_set_error_recovery_flag (g, 0);
  for (i = 0; input[i]; i++) codes[i] = input[i];
  ncodes = i; cpos = 0; n_err = 0;
  rc = yaep_parse (g, rdc, se, pa, NULL, &root, &amb);
  yaep_free_grammar (g);
  return rc == 0 && n_err == 0 && root != NULL;
}
int main (void)
{
  static const char *g1 = "N0 : N1 'b' N1 | N1 | N0 N1 'c' ;\nN1 : 'c' N0 'a' | ;\n";
  static const char *g2 = "A : A B A 'b' ;\nB : ;\nB : A 'd' ;\nA : ;\nA : 'a' B ;\nB : A 'a' 'd' B ;\n";
  int bad = 0, l;
  for (l = 0; l <= 2; l++)
    {
      int r1 = run (g1, "bcca", l), r2 = run (g2, "aabbdad", l);
      printf ("lookahead %d: bcca %s, aabbdad %s\n", l, r1 ? "accepted" : "REJECTED", r2 ? "accepted" : "REJECTED");
      if (!r1 || !r2) bad = 1;
    }
  printf (bad ? "FAIL\n" : "OK\n");
  return bad;
}
