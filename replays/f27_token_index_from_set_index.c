/* F27 (C12; also the tree clauses of C07): make_parse uses the number of a set of the parser
   list, minus one, as the number of the token that was shifted to reach it.  error_recovery
   appends one set per `error' shift without consuming a token, so after a recovery that ignores
   another number of tokens than it inserts `error' sets the two numberings differ:
   - one parse: TERM nodes carry the attribute of another token, then of memory behind toks;
   - all parses: term_node_array[pl_ind] is read and written behind its toks_len elements
     (AddressSanitizer: heap-buffer-overflow in make_parse).
   Not repaired: a correct repair has to record the token number with every set that
   error_recovery saves, restores and appends (struct recovery_state, save/restore_original_sets,
   set_recovery_state, four append sites) -- not a small change.  */
#include "common.h"
static int rdp (void **attr) { if (!g_input[g_pos]) return -1; *attr = (void *) (long) (100 + g_pos); return g_input[g_pos++]; }
static long attrs[16]; static int n_attrs;
static void walk (struct yaep_tree_node *n)
{
  int i;
  if (n->type == YAEP_TERM) attrs[n_attrs++] = (long) n->val.term.attr;
  else if (n->type == YAEP_ANODE) for (i = 0; n->val.anode.children[i] != NULL; i++) walk (n->val.anode.children[i]);
}
int main (int argc, char **argv)
{
  struct grammar *g = yaep_create_grammar (); struct yaep_tree_node *root; int amb, rc, i, bad = 0;
  static const long want[] = { 100, 101, 102, 103, 104, 105 };
  rc = yaep_parse_grammar (g, 1, "S : 'a' error 'c' # s (0 1 2)\n | S 'a' error 'c' # t (0 1 2 3)\n ;");
  if (rc) { printf ("definition failed\n"); return 2; }
  yaep_set_recovery_match (g, 1);
  yaep_set_one_parse_flag (g, argc > 1 ? 0 : 1);   /* any argument: all parses -> heap overflow */
  g_input = "acacac"; g_pos = 0;
  rc = yaep_parse (g, rdp, se, pa, NULL, &root, &amb);
  walk (root);
  for (i = 0; i < n_attrs; i++)
    { printf ("TERM %d attr %ld expected %ld\n", i, attrs[i], want[i]); if (attrs[i] != want[i]) bad = 1; }
  printf (bad ? "FAIL\n" : "OK\n");
  return bad;
}
