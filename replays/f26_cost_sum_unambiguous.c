/* F26 (C04): with the cost flag an abstract node's cost field is "cost of the node plus costs
   of all children" (yaep.h), for every sentence.  make_parse ran the costing pass only for
   ambiguous inputs, so for an unambiguous sentence the fields kept the rules' own costs and
   the root cost was not the cost of the translation.  */
#include "common.h"
static int n_free; static void fr (void *p) { n_free++; free (p); }
int main (void)
{
  struct grammar *g; struct yaep_tree_node *root; int amb, rc, bad = 0, k;
  for (k = 0; k < 4; k++)
    {
      g = yaep_create_grammar ();
      rc = yaep_parse_grammar (g, 1, "S : A 'b' # s 2 (0 1)\n ; A : 'a' # a 3 (0)\n ;");
      if (rc) { printf ("definition failed %d\n", rc); return 2; }
      yaep_set_cost_flag (g, 1);
      yaep_set_one_parse_flag (g, k & 1);
      rc = parse (g, "ab", (k & 2) ? fr : NULL, &root, &amb);
      printf ("one_parse=%d parse_free=%d: rc=%d amb=%d root cost=%d (expected 5) child cost=%d (expected 3)\n", k & 1, (k & 2) != 0, rc, amb,
	      root->val.anode.cost, root->val.anode.children[0]->val.anode.cost);
      if (rc != 0 || root->val.anode.cost != 5 || root->val.anode.children[0]->val.anode.cost != 3) bad = 1;
      yaep_free_grammar (g);
    }
  printf (bad ? "FAIL\n" : "OK\n");
  return bad;
}
