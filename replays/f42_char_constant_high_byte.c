/* F42: a character constant with a byte >= 0x80 ('\xe9') gets the code (int)(signed char) = -23;
   set_sgrammar takes every negative code for `no code given' and hands out the free code 256.
   The grammar is accepted, the token 0xe9 (233, what getc() or (unsigned char) deliver) is refused
   with YAEP_INVALID_TOKEN_CODE and the token 256 is accepted instead.  The callback twin
   (yaep_read_grammar with the terminal "'\xe9'" and code 233) parses 233.
   Expected after the repair: the code of the constant is 233.
   Build: replays/run.sh replays/f42_char_constant_high_byte.c  */
#include <stdio.h>
#include <stdlib.h>
#include "yaep.h"

static int tok_code, tok_given;
static int read_token (void **attr) { *attr = NULL; if (tok_given) return -1; tok_given = 1; return tok_code; }
static void serr (int a, void *b, int c, void *d, int e, void *f) { }
static void *palloc (int n) { return malloc (n); }

static int
parse_one (struct grammar *g, int code)
{
  struct yaep_tree_node *root;
  int amb;

  tok_code = code; tok_given = 0;
  return yaep_parse (g, read_token, serr, palloc, NULL, &root, &amb);
}

int
main (void)
{
  struct grammar *g = yaep_create_grammar ();
  int rc, p233, p256, bad = 0;

  rc = yaep_parse_grammar (g, 1, "S : '\xe9' ;\n");
  printf ("parse_grammar: %d\n", rc);
  if (rc != 0)
    return 2;
  p233 = parse_one (g, 233);
  p256 = parse_one (g, 256);
  printf ("token 233 (the character): %d%s\n", p233, p233 ? " -- refused" : "");
  printf ("token 256 (a free code):   %d%s\n", p256, p256 ? "" : " -- accepted");
  if (p233 != 0 || p256 == 0)
    bad = 1;
  yaep_free_grammar (g);
  printf (bad ? "FAIL\n" : "ok\n");
  return bad;
}
