#include <stdio.h>
#include <stdlib.h>
#include <string.h>
#include "yaep.h"
extern void *__real_realloc (void *, size_t);
static int arm, fired;
void *__wrap_realloc (void *p, size_t n)
{ if (arm && n == 6157 && !fired) { fired = 1; return NULL; } return __real_realloc (p, n); }
#define N 600
static char desc[200000];
static int input[4*N+1], pos, ninput;
static int read_token (void **attr) { *attr = NULL; if (pos >= ninput) return -1; return input[pos++]; }
static void syntax_error (int a, void *b, int c, void *d, int e, void *f) { printf ("syntax error at %d\n", a); }
int main (void)
{
  struct grammar *g; struct yaep_tree_node *root; int amb, rc, i; char *s = desc;
  s += sprintf (s, "TERM a=1\n");
  for (i = 0; i < N; i++) s += sprintf (s, " p%d=%d t%d=%d\n", i, 1000+i, i, 3000+i);
  s += sprintf (s, ";\nL : L I | I ;\nA : a | ;\nI : ");
  for (i = 0; i < N; i++) s += sprintf (s, "%s p%d A t%d\n", i ? " |" : "", i, i);
  s += sprintf (s, ";\n");
  for (i = 0; i < N; i++) { input[ninput++] = 1000+i; if (i & 1) input[ninput++] = 1; input[ninput++] = 3000+i; }
  g = yaep_create_grammar ();
  if ((rc = yaep_parse_grammar (g, 1, desc)) != 0) { printf ("grammar: %s\n", yaep_error_message (g)); return 2; }
  yaep_set_lookahead_level (g, 2);
  arm = 1; pos = 0;
  rc = yaep_parse (g, read_token, syntax_error, NULL, NULL, &root, &amb);
  arm = 0;
  printf ("first parse rc=%d fired=%d\n", rc, fired);
  pos = 0;
  rc = yaep_parse (g, read_token, syntax_error, NULL, NULL, &root, &amb);
  printf ("second parse rc=%d\n", rc);
  yaep_free_grammar (g);
  return 0;
}
