/* Reproducer for the observation in OBSERVATIONS.txt (UNMODIFIED library):
   check_cached_transition_set reads pl[-1] after an error recovery.

   Build and run (from the root of the worktree):

     mkdir -p <dir> && bison -o <dir>/sgramm.c src/sgramm.y
     gcc -g -O1 -fsanitize=address,undefined -Isrc -I<dir> \
         src/allocate.c src/hashtab.c src/objstack.c src/vlobject.c src/yaep.c \
         replays/f40_goto_cache_negative_index.c -o <dir>/obs_demo
     ASAN_OPTIONS=detect_leaks=0 <dir>/obs_demo

   Expected on the unmodified library: AddressSanitizer heap-buffer-overflow
   (READ of size 8, 8 bytes to the left of the region allocated by pl_create)
   in check_cached_transition_set, yaep.c:4730, already for lookahead level 0.  */

#include <stdio.h>
#include <stdlib.h>
#include <string.h>
#include "yaep.h"

static const char *description =
  "\n"
  "S : L            # 0 ;\n"
  "L : E            # one (0)\n"
  "  | L ';' E      # seq (0 2)\n"
  "  | L ';' error  # serr (0)\n"
  "  ;\n"
  "E : T            # 0\n"
  "  | E '+' T      # plus (0 2)\n"
  "  ;\n"
  "T : F            # 0\n"
  "  | T '*' F      # mult (0 2)\n"
  "  ;\n"
  "F : 'a' O        # f (0 1)\n"
  "  | '(' E ')'    # 1\n"
  "  | '(' error ')' # perr\n"
  "  ;\n"
  "O :\n"
  "  | 'b'          # 0\n"
  "  ;\n";

/* A sentence with two syntax errors (12 tokens).  */
static const char *inputs[] = {
  "(()*ab));ab)"
};

static const char *input;
static int ntok;

static int
read_token (void **attr)
{
  *attr = NULL;
  if (input[ntok] != '\0')
    return input[ntok++];
  return -1;
}

static char out[100000];
static size_t outlen;

static void
put (const char *s)
{
  size_t l = strlen (s);

  if (outlen + l + 1 > sizeof (out))
    abort ();
  memcpy (out + outlen, s, l + 1);
  outlen += l;
}

static void
syntax_error (int err_tok_num, void *err_tok_attr,
	      int start_ignored_tok_num, void *start_ignored_tok_attr,
	      int start_recovered_tok_num, void *start_recovered_tok_attr)
{
  char b[100];

  sprintf (b, "[error at %d, ignored %d..%d]", err_tok_num,
	   start_ignored_tok_num, start_recovered_tok_num);
  put (b);
}

static void *
parse_alloc (int n)
{
  void *p = malloc (n);

  if (p == NULL)
    abort ();
  return p;
}

static void
dump (struct yaep_tree_node *n)
{
  char b[20];
  int i;

  if (n == NULL)
    {
      put ("NULL");
      return;
    }
  switch (n->type)
    {
    case YAEP_NIL:
      put ("nil");
      break;
    case YAEP_ERROR:
      put ("error");
      break;
    case YAEP_TERM:
      sprintf (b, "%c", n->val.term.code);
      put (b);
      break;
    case YAEP_ANODE:
      put (n->val.anode.name);
      put ("(");
      for (i = 0; n->val.anode.children[i] != NULL; i++)
	{
	  if (i != 0)
	    put (",");
	  dump (n->val.anode.children[i]);
	}
      put (")");
      break;
    case YAEP_ALT:
      put ("{");
      for (; n != NULL; n = n->val.alt.next)
	{
	  dump (n->val.alt.node);
	  put ("|");
	}
      put ("}");
      break;
    }
}

/* Parse IN with lookahead level LA and return the printed outcome.  */
static char *
outcome (struct grammar *g, const char *in, int la)
{
  struct yaep_tree_node *root;
  int ambiguous_p, rc;
  char b[100];

  outlen = 0;
  out[0] = '\0';
  yaep_set_lookahead_level (g, la);
  input = in;
  ntok = 0;
  rc = yaep_parse (g, read_token, syntax_error, parse_alloc, NULL, &root,
		   &ambiguous_p);
  sprintf (b, " rc=%d ambiguous=%d tree=", rc, ambiguous_p);
  put (b);
  if (rc == 0)
    dump (root);
  return strdup (out);
}

int
main (void)
{
  struct grammar *g;
  unsigned i;
  int la, failed = 0;
  char *res[3];

  g = yaep_create_grammar ();
  if (g == NULL || yaep_parse_grammar (g, 1, description) != 0)
    {
      fprintf (stderr, "grammar: %s\n", g ? yaep_error_message (g) : "no memory");
      return 2;
    }
  yaep_set_one_parse_flag (g, 0);
  for (i = 0; i < sizeof (inputs) / sizeof (inputs[0]); i++)
    {
      for (la = 0; la < 3; la++)
	res[la] = outcome (g, inputs[i], la);
      for (la = 1; la < 3; la++)
	if (strcmp (res[0], res[la]) != 0)
	  {
	    failed = 1;
	    printf ("input %s\n  lookahead 0:%s\n  lookahead %d:%s\n",
		    inputs[i], res[0], la, res[la]);
	  }
      for (la = 0; la < 3; la++)
	free (res[la]);
    }
  yaep_free_grammar (g);
  if (failed)
    {
      printf ("FAIL: the outcome depends on the lookahead level\n");
      return 1;
    }
  printf ("OK: the same outcome for lookahead levels 0, 1 and 2\n");
  return 0;
}
