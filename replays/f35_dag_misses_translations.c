/* F35 (C03): when all parses are requested the trees denoted by the DAG are exactly the
   translations of all derivations.  For  E : 'a' # x | E E # p (0 1)  the sentence a^n has
   Catalan(n-1) translations (1, 1, 2, 5, 14, 42 ...).  The abstract node of a (rule, origin, end)
   triple is entered into the table parse_state_tab; the copies that copy_anode makes of it for
   other split points are put as alternatives into the slot of the parent that is being processed
   only.  A parent that finds the triple in the table later gets table_state->anode, the first
   node alone, and misses the translations through the copies.  */
#include "common.h"
#define MAXT 4096
static char *set[MAXT]; static int nset;
static void add (const char *s) { int i; for (i = 0; i < nset; i++) if (strcmp (set[i], s) == 0) return; set[nset++] = strdup (s); }
/* enumerate the strings of all trees denoted by node n; returns a malloc'ed NULL-terminated list */
static char **enumerate (struct yaep_tree_node *n)
{
  char **res = calloc (MAXT, sizeof (char *)); int k = 0;
  if (n->type == YAEP_TERM) { res[k++] = strdup ("a"); return res; }
  if (n->type == YAEP_NIL) { res[k++] = strdup ("-"); return res; }
  if (n->type == YAEP_ALT)
    { for (; n != NULL; n = n->val.alt.next) { char **r = enumerate (n->val.alt.node); int i; for (i = 0; r[i]; i++) res[k++] = r[i]; free (r); } return res; }
  if (n->type == YAEP_ANODE)
    {
      if (n->val.anode.children[0] == NULL || n->val.anode.children[1] == NULL)
	{ char b[64]; sprintf (b, "%s", n->val.anode.name); res[k++] = strdup (b); return res; }
      { char **l = enumerate (n->val.anode.children[0]), **r = enumerate (n->val.anode.children[1]); int i, j;
	for (i = 0; l[i]; i++) for (j = 0; r[j]; j++)
	  { char *b = malloc (strlen (l[i]) + strlen (r[j]) + 8); sprintf (b, "(%s %s)", l[i], r[j]); res[k++] = b; }
	free (l); free (r); return res; }
    }
  return res;
}
int main (void)
{
  static const int catalan[] = { 1, 1, 1, 2, 5, 14, 42 };
  struct grammar *g = yaep_create_grammar (); struct yaep_tree_node *root; int amb, rc, n, bad = 0;
  rc = yaep_parse_grammar (g, 1, "E : 'a' # x | E E # p (0 1) ;");
  if (rc) return 2;
  yaep_set_one_parse_flag (g, 0);
  for (n = 2; n <= 6; n++)
    {
      char in[8]; char **r; int i;
      memset (in, 'a', n); in[n] = 0;
      rc = parse (g, in, NULL, &root, &amb);
      nset = 0; r = enumerate (root);
      for (i = 0; r[i]; i++) add (r[i]);
      printf ("a^%d: %d distinct trees denoted, %d translations exist\n", n, nset, catalan[n]);
      if (nset != catalan[n]) bad = 1;
    }
  yaep_free_grammar (g);
  printf (bad ? "FAIL\n" : "OK\n");
  return bad;
}
