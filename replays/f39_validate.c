/* Validation driver for the repair of F39 (not a check): random inputs over grammars in which every terminal is
   translated.  After a parse with error recovery the tokens that do not occur as TERM leaves of the tree are
   as many as the syntax_error call reported ignored (first recovered - first ignored; with secondary recovery states
   the ignored tokens need not be adjacent, so only the number is compared), and the range does not reach outside the input.   sh replays/run.sh replays/f39_validate.c   */
#include "common.h"
static const char *G[] = {
  "S : 'a' error 'c' # s (0 1 2) | S 'a' error 'c' # t (0 1 2 3) | S 'a' 'b' 'c' # u (0 1 2 3) | 'a' 'b' 'c' # v (0 1 2) ;",
  "S : 'x' A 'y' # S1 (0 1 2) | error 'z' # S2 (0 1) | 'd' # D (0) ; A : 'b' B # A (0 1) ; B : 'c' # C (0) | error 'q' # B2 (0 1) ;",
  "L : I # l1 (0) | L ';' I # l2 (0 1 2) ; I : 'i' '=' E # as (0 1 2) | error # ie (0) ; E : 'n' # n (0) | E '+' 'n' # pl (0 1 2) | '(' E ')' # par (0 1 2) | '(' error ')' # pe (0 1 2) ;",
  "S : X Y # s (0 1) ; X : 'a' # xa (0) | error # xe (0) ; Y : 'b' 'c' # y (0 1) | error 'c' # ye (0 1) ;",
};
static const char *A[] = { "abc", "xbcdyzq", "i=n+();", "abc" };
static char in[64]; static int len, pos2;
static int rd2 (void **attr) { if (pos2 >= len) return -1; *attr = (void *) (long) (100 + pos2); return in[pos2++]; }
static char seen[64], ign[64]; static int bad, nranges, range_bad;
static void walk (struct yaep_tree_node *n, int depth)
{
  int i;
  if (n == NULL || depth > 200) return;
  if (n->type == YAEP_TERM) { long k = (long) n->val.term.attr - 100; if (k >= 0 && k < len) seen[k] = 1; }
  else if (n->type == YAEP_ANODE) for (i = 0; n->val.anode.children[i] != NULL; i++) walk (n->val.anode.children[i], depth + 1);
  else if (n->type == YAEP_ALT) walk (n->val.alt.node, depth + 1);
}
static void se3 (int e, void *ea, int s, void *sa, int r, void *ra)
{ int k; n_err++; nranges++; if (s < 0 || r < s || r > len) { range_bad++; return; } for (k = s; k < r; k++) ign[k] = 1; }
int main (int argc, char **argv)
{
  unsigned gi, seed = 4711; int it, rm, total = 0, multi = 0;
  for (gi = 0; gi < sizeof (G) / sizeof (G[0]); gi++)
    for (rm = 1; rm <= 3; rm++)
      {
	struct grammar *g = yaep_create_grammar (); struct yaep_tree_node *root; int amb, rc;
	if (yaep_parse_grammar (g, 0, G[gi])) { printf ("definition %u failed: %s\n", gi, yaep_error_message (g)); return 2; }
	yaep_set_recovery_match (g, rm);
	for (it = 0; it < 600; it++)
	  {
	    int k, diff = 0; size_t na = strlen (A[gi]);
	    seed = seed * 1103515245u + 12345u; len = 1 + (seed >> 16) % 8;
	    for (k = 0; k < len; k++) { seed = seed * 1103515245u + 12345u; in[k] = A[gi][(seed >> 16) % na]; }
	    in[len] = 0; pos2 = 0; n_err = 0; range_bad = 0; memset (seen, 0, sizeof seen); memset (ign, 0, sizeof ign);
	    rc = yaep_parse (g, rd2, se3, pa, NULL, &root, &amb);
	    if (rc != 0 || root == NULL) { printf ("grammar %u input `%s': rc=%d root=%p\n", gi, in, rc, (void *) root); bad++; continue; }
	    if (n_err != 1) { total++; multi++; continue; }     /* later recoveries may go back over earlier ones: only single errors are compared */
	    walk (root, 0);
	    { int miss = 0, rep_ = 0; for (k = 0; k < len; k++) { miss += !seen[k]; rep_ += ign[k] != 0; } diff = miss != rep_; }
	    if (diff || range_bad)
	      { bad++; if (bad <= 12) { printf ("grammar %u match %d input `%s' (%d errors): in tree ", gi, rm, in, n_err); for (k = 0; k < len; k++) putchar (seen[k] ? in[k] : '.');
		  printf ("  reported ignored "); for (k = 0; k < len; k++) putchar (ign[k] ? in[k] : '.'); printf ("%s\n", range_bad ? "  (range outside the input)" : ""); } }
	    total++;
	  }
	yaep_free_grammar (g);
      }
  printf ("%d parses checked (%d with no or several errors, not compared), %d with a difference between the tokens missing in the tree and the tokens reported ignored\n", total, multi, bad);
  return bad != 0;
}
