/* F8: terminal codes 'a' and 'c' declared, token 'b' (an unused code between the
   smallest and largest declared code) must give YAEP_INVALID_TOKEN_CODE.  */
#include "common.h"
int main (void)
{
  struct grammar *g = yaep_create_grammar ();
  struct yaep_tree_node *root; int amb, r;
  /* poison freed/fresh memory so that the gap is not accidentally NULL */
  { void *p[64]; int i; for (i = 0; i < 64; i++) { p[i] = malloc (8 * (i + 1)); memset (p[i], 0xbe, 8 * (i + 1)); } for (i = 0; i < 64; i++) free (p[i]); }
  r = yaep_parse_grammar (g, 1, "S : 'a' 'c' # 0 ;\n");
  printf ("define=%d\n", r);
  r = parse (g, "b", free, &root, &amb);
  printf ("parse of undeclared code 'b' = %d (expected %d)\n", r, YAEP_INVALID_TOKEN_CODE);
  yaep_free_grammar (g);
  return r != YAEP_INVALID_TOKEN_CODE;
}
