/* F25 (C02, C03): a rule without abstract node whose translation is `-' must translate to
   the NIL node (doc: "the translation can be empty or `-' which mean empty node").  The
   reader counted the NIL element (trans_len 1), so make_parse placed nothing:
   - `S : 'a' # -'            -> yaep_parse returns 0 with *root == NULL;
   - `S : A # x (0) ; A : 'a' # - | 'a' # y' in all-parses mode -> the NIL alternative is lost
     (no ALT node although the input has two translations).  */
#include "common.h"
int main (void)
{
  struct grammar *g; struct yaep_tree_node *root; int amb, rc, bad = 0;
  g = yaep_create_grammar ();
  rc = yaep_parse_grammar (g, 1, "S : 'a' # -\n ;");
  if (rc) { printf ("definition failed %d\n", rc); return 2; }
  rc = parse (g, "a", NULL, &root, &amb);
  printf ("1: rc=%d root=%s\n", rc, root == NULL ? "NULL" : root->type == YAEP_NIL ? "NIL" : "other");
  if (rc != 0 || root == NULL || root->type != YAEP_NIL) bad = 1;
  yaep_free_grammar (g);
  g = yaep_create_grammar ();
  rc = yaep_parse_grammar (g, 1, "S : A # x (0)\n ; A : 'a' # - \n | 'a' # y\n ;");
  if (rc) { printf ("definition failed %d\n", rc); return 2; }
  yaep_set_one_parse_flag (g, 0);
  rc = parse (g, "a", NULL, &root, &amb);
  printf ("2: rc=%d amb=%d child=%s\n", rc, amb, root->val.anode.children[0]->type == YAEP_ALT ? "ALT" : "single");
  if (root->val.anode.children[0]->type != YAEP_ALT) bad = 1;
  yaep_free_grammar (g);
  printf (bad ? "FAIL\n" : "OK\n");
  return bad;
}
