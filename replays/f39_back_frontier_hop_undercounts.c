/* F39 (C07, C06): every further hop of the back frontier in error_recovery forgets one token.
   find_error_pl_set (back_pl_frontier - 1, &cost) counts the sets it walks over below the old frontier, but
   not the token whose shift made pl[back_pl_frontier] itself.  The first ignored token reported to
   syntax_error is then one too large per hop, and fewer tokens are reported ignored than the tree shows
   replaced by `error'.
     grammar  S : 'x' A 'y' # S1 (0 1 2) | error 'z' # S2 (0 1) | 'd' ;  A : 'b' B # A (0 1) ;  B : 'c' | error 'q' # B2 (0 1)
     input    x b d z      the only recovery: S : error . 'z'  -- x, b and d are replaced (tokens 0..2), z is token 3
   expected callback: error token 2, first ignored 0, first recovered 3.     sh replays/run.sh replays/f39_back_frontier_hop_undercounts.c  */
#include <stdio.h>
#include <stdlib.h>
#include "yaep.h"

static const char *descr =
  "TERM;\n"
  "S : 'x' A 'y' # S1 (0 1 2) | error 'z' # S2 (0 1) | 'd' ;\n"
  "A : 'b' B # A (0 1) ;\n"
  "B : 'c' | error 'q' # B2 (0 1) ;\n";
static const char *input;
static int pos;
static int rtok (void **attr) { *attr = (void *) (input + pos); return input[pos] ? input[pos++] : -1; }
static int e_tok, e_start, e_stop, n_err;
static void serr (int e, void *ea, int s, void *sa, int r, void *ra) { n_err++; e_tok = e; e_start = s; e_stop = r; }
static void *pa (int n) { return malloc (n); }

static int try_input (struct grammar *g, const char *in, int start, int stop)
{
  struct yaep_tree_node *root; int amb, rc;
  input = in; pos = 0; n_err = 0;
  rc = yaep_parse (g, rtok, serr, pa, NULL, &root, &amb);
  printf ("\"%s\": rc=%d errors=%d error token %d, first ignored %d, first recovered %d (expected %d, %d)\n", in, rc, n_err, e_tok, e_start, e_stop, start, stop);
  return !(rc == 0 && root != NULL && n_err == 1 && e_start == start && e_stop == stop);
}

int main (void)
{
  struct grammar *g = yaep_create_grammar ();
  int bad = 0;
  if (yaep_parse_grammar (g, 1, descr) != 0) { printf ("%s\n", yaep_error_message (g)); return 2; }
  bad += try_input (g, "xbdz", 0, 3);   /* two hops of the back frontier: set 2 (B : . error 'q'), then set 0 (S : . error 'z') */
  bad += try_input (g, "xdz", 0, 2);    /* one hop only: correct on the unmodified library too */
  yaep_free_grammar (g);
  printf (bad ? "FAIL\n" : "OK\n");
  return bad != 0;
}
