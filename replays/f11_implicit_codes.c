/* F11: identifiers declared with TERM get implicit codes from 256 upwards.
   set_sgrammar initialises `code = 256' and then overwrites it with the setjmp result (0). */
#include "common.h"
static int seq[] = {256, 257, -1}; static int k;
static int rd2 (void **attr) { *attr = NULL; return seq[k++]; }
int main (void)
{
  struct grammar *g = yaep_create_grammar ();
  struct yaep_tree_node *root; int amb, r;
  r = yaep_parse_grammar (g, 1, "TERM A B;\nS : A B # 0 ;\n");
  printf ("define=%d\n", r);
  k = 0;
  r = yaep_parse (g, rd2, se, pa, free, &root, &amb);
  printf ("parse of tokens 256 257 = %d (expected 0), syntax errors %d\n", r, n_err);
  if (r == 0) yaep_free_tree (root, free, NULL);
  yaep_free_grammar (g);
  return !(r == 0 && n_err == 0);
}
