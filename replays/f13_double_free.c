/* F13: nodes of discarded alternatives are freed once per *mention*.
   E : E '+' E # p 1 (0 2) | E '+' E # q 5 (0 1 2) | 'a' # a (0)     input a+a+a, cost flag.
   Only p-trees are minimal; the discarded q nodes mention the TERM nodes of the '+'
   tokens several times and all carry the same name block "q".  */
#include "common.h"
static int n_alloc, n_free;
static void *ta (int n) { n_alloc++; return malloc (n); }
static void tf (void *p) { if (p != NULL) n_free++; free (p); }
int main (void)
{
  struct grammar *g = yaep_create_grammar ();
  struct yaep_tree_node *root; int amb, r;
  r = yaep_parse_grammar (g, 1, "E : E '+' E # p 1 (0 2) | E '+' E # q 5 (0 1 2) | 'a' # a (0) ;\n");
  yaep_set_one_parse_flag (g, 1);
  yaep_set_cost_flag (g, 1);
  g_input = "a+a+a"; g_pos = 0;
  r = yaep_parse (g, rd, se, ta, tf, &root, &amb);
  printf ("parse=%d ambiguous=%d root type=%d\n", r, amb, root->type);
  yaep_free_tree (root, tf, NULL);
  yaep_free_grammar (g);
  printf ("allocs=%d frees=%d\n", n_alloc, n_free);
  return !(n_alloc == n_free);
}
