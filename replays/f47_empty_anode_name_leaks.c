#include <stdio.h>
#include <stdlib.h>
#include <string.h>
#include "yaep.h"
static int n_live;
static void *t_alloc (int n) { n_live++; return malloc (n); }
static void t_free (void *p) { n_live--; free (p); }
static const char *input = "a"; static int ntok;
static int read_token (void **attr) { *attr = NULL; return input[ntok] ? input[ntok++] : -1; }
static void serr (int a, void *b, int c, void *d, int e, void *f) {}
static int nt, nr;
static const char *read_terminal (int *code) { if (nt++) return NULL; *code = 'a'; return "a"; }
static const char *read_rule (const char ***rhs, const char **anode, int *cost, int **transl)
{
  static const char *r[] = {"a", NULL}; static int tr[] = {0, -1};
  if (nr++) return NULL;
  *rhs = r; *anode = ""; *cost = 0; *transl = tr; return "S";
}
int main (void)
{
  struct grammar *g = yaep_create_grammar ();
  struct yaep_tree_node *root; int amb;
  if (yaep_read_grammar (g, 1, read_terminal, read_rule) != 0) { puts (yaep_error_message (g)); return 2; }
  if (yaep_parse (g, read_token, serr, t_alloc, t_free, &root, &amb) != 0) return 2;
  yaep_free_grammar (g);
  printf ("root type %d name '%s' live before free_tree %d\n", root->type, root->val.anode.name, n_live);
  yaep_free_tree (root, t_free, NULL);
  printf ("live after free_tree %d\n", n_live);
  return n_live != 0;
}
