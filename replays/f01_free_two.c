/* F1: create two objects, define both, free both (any order). */
#include "common.h"
int main (void)
{
  struct grammar *g1 = yaep_create_grammar (), *g2 = yaep_create_grammar ();
  printf ("def g1 %d\n", yaep_parse_grammar (g1, 1, g_desc_expr));
  printf ("def g2 %d\n", yaep_parse_grammar (g2, 1, g_desc_expr));
  yaep_free_grammar (g1);
  yaep_free_grammar (g2);
  printf ("ok\n");
  return 0;
}
