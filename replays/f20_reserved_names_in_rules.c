/* F20: the reserved names $S and $eof are accepted as ordinary symbols in rule bodies
   (and $S as left-hand side) once the library has created them.  */
#include "common.h"
static int nt, nr, which;
static const char *rt (int *code) { if (nt++ == 0) { *code = 'a'; return "a"; } return NULL; }
static const char *r1[] = {"a", NULL}, *r2a[] = {"$eof", NULL}, *r2b[] = {"$S", "a", NULL};
static const char *rr (const char ***rhs, const char **an, int *cost, int **tr)
{
  *an = NULL; *cost = 0; *tr = NULL;
  nr++;
  if (nr == 1) { *rhs = r1; return "S"; }
  if (nr == 2) { *rhs = which == 0 ? r2a : r2b; return which == 2 ? "$S" : "S"; }
  return NULL;
}
int main (void)
{
  int bad = 0;
  for (which = 0; which < 3; which++)
    {
      struct grammar *g = yaep_create_grammar ();
      int r;
      nt = nr = 0;
      r = yaep_read_grammar (g, 0, rt, rr);
      printf ("%s -> %d (expected %d)\n", which == 0 ? "S : a ; S : $eof" : which == 1 ? "S : a ; S : $S a" : "S : a ; $S : $S a", r, YAEP_FIXED_NAME_USAGE);
      if (r != YAEP_FIXED_NAME_USAGE) bad = 1;
      yaep_free_grammar (g);
    }
  return bad;
}
