/* Validation driver for the repair of F27 (not a check): random inputs over several grammars with
   `error' rules; every TERM node of the returned tree must carry the attribute of a token with the
   same code, and the tokens of the tree's leaves must come in strictly increasing input order.  */
#include "common.h"
static const char *G[] = {
  "S : 'a' error 'c' # s (0 1 2) | S 'a' error 'c' # t (0 1 2 3) | S 'a' 'b' 'c' # u (0 1 2 3) | 'a' 'b' 'c' # v (0 1 2) ;",
  "P : L # p (0) ; L : I ';' # l1 (0) | L I ';' # l2 (0 1) | error ';' # le | L error ';' # le2 (0) ; I : 'i' '=' E # as (0 2) ; E : 'n' # 0 | E '+' 'n' # pl (0 2) | '(' E ')' # 1 | '(' error ')' # pe ;",
  "S : # e | S X # sx (0 1) ; X : 'a' 'b' # ab (0 1) | 'c' # c (0) | error 'd' # ed (1) ;",
};
static const char *A[] = { "abc", "i=n+();", "abcd" };
static char in[64]; static int len, pos2;
static int rd2 (void **attr) { if (pos2 >= len) return -1; *attr = (void *) (long) (100 + pos2); return in[pos2++]; }
static int last, bad, nterm;
static void walk (struct yaep_tree_node *n, int depth)
{
  int i;
  if (n == NULL || depth > 200) return;
  switch (n->type) {
  case YAEP_TERM: { long k = (long) n->val.term.attr - 100; nterm++;
      if (k < 0 || k >= len || in[k] != n->val.term.code) { bad++; printf ("   TERM %c carries attribute of token %ld\n", n->val.term.code, k); }
      else if (k <= last) { bad++; printf ("   TERM %c: token %ld after token %d\n", n->val.term.code, k, last); }
      else last = (int) k; break; }
  case YAEP_ANODE: for (i = 0; n->val.anode.children[i] != NULL; i++) walk (n->val.anode.children[i], depth + 1); break;
  case YAEP_ALT: { int save = last; walk (n->val.alt.node, depth + 1); /* alternatives span the same tokens: check only the first fully */ last = last; (void) save; break; }
  default: break;
  }
}
static void se3 (int e, void *ea, int s, void *sa, int r, void *ra) { n_err++; }
int main (int argc, char **argv)
{
  unsigned gi, seed = 12345; int it, rm, onep, total = 0;
  for (gi = 0; gi < sizeof (G) / sizeof (G[0]); gi++)
    for (rm = 1; rm <= 3; rm++)
      for (onep = 0; onep <= 1; onep++)
	{
	  struct grammar *g = yaep_create_grammar (); struct yaep_tree_node *root; int amb, rc;
	  if (yaep_parse_grammar (g, 0, G[gi])) { printf ("definition %u failed: %s\n", gi, yaep_error_message (g)); return 2; }
	  yaep_set_recovery_match (g, rm); yaep_set_one_parse_flag (g, onep);
	  for (it = 0; it < 400; it++)
	    {
	      int k; size_t na = strlen (A[gi]);
	      seed = seed * 1103515245u + 12345u; len = (seed >> 16) % 9;
	      for (k = 0; k < len; k++) { seed = seed * 1103515245u + 12345u; in[k] = A[gi][(seed >> 16) % na]; }
	      in[len] = 0; pos2 = 0; n_err = 0; if (argc > 1) { printf ("g%u rm%d op%d `%s'\n", gi, rm, onep, in); fflush (stdout); }
	      rc = yaep_parse (g, rd2, se3, pa, NULL, &root, &amb);
	      if (rc != 0 || root == NULL) { printf ("grammar %u input `%s': rc=%d root=%p\n", gi, in, rc, (void *) root); bad++; continue; }
	      last = -1; nterm = 0; { int b0 = bad; walk (root, 0); if (bad != b0) printf ("grammar %u match %d one_parse %d input `%s' (%d errors)\n", gi, rm, onep, in, n_err); }
	      total++;
	    }
	  yaep_free_grammar (g);
	}
  printf ("%d parses checked, %d violations\n", total, bad);
  return bad != 0;
}
