/* F17: set_sgrammar's error handler releases its five containers unconditionally.  When
   the creation of one of them fails on a second yaep_parse_grammar call, the others still
   refer to the (already deleted) containers of the first call.  */
#include "common.h"
static long countdown = -1;
void *__real_malloc (size_t);
void *__wrap_malloc (size_t n) { if (countdown > 0 && --countdown == 0) return NULL; return __real_malloc (n); }
int main (void)
{
  struct grammar *g = yaep_create_grammar ();
  int r, k;
  r = yaep_parse_grammar (g, 1, g_desc_expr);
  printf ("first definition %d\n", r);
  for (k = 1; k <= 5; k++)
    {
      countdown = k; r = yaep_parse_grammar (g, 1, g_desc_expr); countdown = -1;
      printf ("second definition with failing allocation %d: %d\n", k, r);
    }
  yaep_free_grammar (g);
  return 0;
}
