/* F49: in a description the empty node is written `-'; internally it is the value
   YAEP_NIL_TRANSLATION_NUMBER == INT_MAX in the translation array.  The actions of sgramm.y put a
   written NUMBER into that array unchanged, so 2147483647 means `-':
     S : 'a' # x (0 2147483647) ;   is accepted (code 0) and yields x (a, nil),
     S : 'a' # 2147483647 ;         is accepted as the nil translation,
   while 2147483646 gives YAEP_INCORRECT_SYMBOL_NUMBER, as the manual says for every number that is
   not less than the length of the right hand side.  Expected after the repair: code 13 for both.
   Build: replays/run.sh replays/f49_number_intmax_means_nil.c  */
#include <stdio.h>
#include <stdlib.h>
#include "yaep.h"

static int
code_of (const char *d)
{
  struct grammar *g = yaep_create_grammar ();
  int rc = yaep_parse_grammar (g, 1, d);

  printf ("%-36.36s -> %d %s\n", d, rc, rc ? yaep_error_message (g) : "(accepted)");
  yaep_free_grammar (g);
  return rc;
}

int
main (void)
{
  int bad = 0;

  bad |= code_of ("S : 'a' # x (0 2147483646) ;\n") != YAEP_INCORRECT_SYMBOL_NUMBER;
  bad |= code_of ("S : 'a' # x (0 2147483647) ;\n") != YAEP_INCORRECT_SYMBOL_NUMBER;
  bad |= code_of ("S : 'a' # 2147483647 ;\n") != YAEP_INCORRECT_SYMBOL_NUMBER;
  bad |= code_of ("S : 'a' # x (0 -) ;\n") != 0;
  bad |= code_of ("S : 'a' # - ;\n") != 0;
  printf (bad ? "FAIL\n" : "ok\n");
  return bad;
}
