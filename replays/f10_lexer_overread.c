/* F10: a description that ends right after a quote makes the lexer read past the NUL. */
#include "common.h"
int main (void)
{
  struct grammar *g = yaep_create_grammar ();
  /* exact-size heap copy so that ASan sees the over-read */
  const char *t = "S : '";
  char *d = malloc (strlen (t) + 1);
  int r;
  strcpy (d, t);
  r = yaep_parse_grammar (g, 1, d);
  printf ("ret=%d\n", r);
  free (d);
  yaep_free_grammar (g);
  return 0;
}
