/* Reproducer for OBSERVATIONS.txt item 2 (unmodified library).
   Build and run from the root of the worktree:
     mkdir -p <dir> && bison -o <dir>/sgramm.c src/sgramm.y
     gcc -g -fsanitize=address,undefined -fno-sanitize-recover=undefined \
         -Isrc -I<dir> replays/f44_rule_longer_than_short.c \
         src/allocate.c src/hashtab.c src/objstack.c src/vlobject.c src/yaep.c \
         -o <dir>/obs2 && <dir>/obs2
   Observed: rhs[-32768] is read in sit_set_lookahead (yaep.c:1344-1348, called
   from sit_create <- build_new_set).  Depending on the heap layout the report is
   "member access within misaligned address 0x3e for type 'struct symb'" or
   ASan "heap-use-after-free READ of size 8 ... in sit_set_lookahead".  */
#include <stdio.h>
#include <stdlib.h>
#include "yaep.h"
#define N 33000
static int nt = 0, nr = 0, p = 0;
static const char *rhs[N + 1];
static const char *rterm (int *code) { if (nt++) return NULL; *code = 'a'; return "a"; }
static const char *rrule (const char ***r, const char **an, int *c, int **tr)
{ static int t[] = { -1 }; int i; if (nr++) return NULL;
  for (i = 0; i < N; i++) rhs[i] = "a"; rhs[N] = NULL;
  *r = rhs; *an = NULL; *c = 0; *tr = t; return "S"; }
static int rt (void **attr) { *attr = NULL; return p++ < N ? 'a' : -1; }
static void se (int a, void *b, int c, void *d, int e, void *f) {}
int main (void)
{
  struct grammar *g = yaep_create_grammar ();
  struct yaep_tree_node *root; int amb, rc;
  rc = yaep_read_grammar (g, 1, rterm, rrule);
  printf ("rg %d %s\n", rc, rc ? yaep_error_message (g) : "");
  rc = yaep_parse (g, rt, se, NULL, NULL, &root, &amb);
  printf ("parse %d\n", rc);
  yaep_free_grammar (g);
  return 0;
}
