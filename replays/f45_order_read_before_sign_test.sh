#!/bin/sh
# F45: make_parse reads rule->order[pos] before it tests pos < 0: every time a rule is finished
# (pos == -1) the int before the start of the order array is read.  The value is not used and the
# address lies inside the same object-stack segment, so no sanitizer sees it; gdb shows the access
# on the real code: stop at the statement `disp = rule->order[pos]' when pos is negative.
# usage: replays/f45_order_read_before_sign_test.sh [srcdir]      (NOT part of any check)
set -e
src=${1:-/repo/src}
W=$(mktemp -d /tmp/yaep-replay.XXXXXX)
trap 'rm -rf "$W"' EXIT
bison -o "$W/sgramm.c" "$src/sgramm.y" 2>/dev/null
cat > "$W/drv.c" <<'X'
#include <stdio.h>
#include <stdlib.h>
#include "yaep.h"
static const char *in = "aa"; static int pos;
static int rt (void **attr) { *attr = NULL; return in[pos] ? in[pos++] : -1; }
static void se (int a, void *b, int c, void *d, int e, void *f) {}
static void *pa (int n) { return malloc (n); }
int main (void)
{
  struct grammar *g = yaep_create_grammar (); struct yaep_tree_node *root; int amb;
  if (yaep_parse_grammar (g, 1, "S : 'a' 'a' # s (0 1) ;\n") != 0) return 2;
  printf ("parse %d\n", yaep_parse (g, rt, se, pa, NULL, &root, &amb));
  return 0;
}
X
gcc -g -O0 -I"$W" -I"$src" "$W/drv.c" "$src"/allocate.c "$src"/hashtab.c "$src"/objstack.c "$src"/vlobject.c "$src"/yaep.c -o "$W/drv" -w
line=$(grep -n 'disp = rule->order\[pos\];' "$src/yaep.c" | head -1 | cut -d: -f1)
gdb -batch -ex "break yaep.c:$line if pos < 0" -ex run -ex "print pos" -ex "print &rule->order[pos]" -ex "print rule->order" -ex "info line" "$W/drv" 2>&1 | grep -v "^\[\|^Using\|^warning" | tail -8
