/* F38 (C12, C15): a terminal code near INT_MAX.  The library's own `error' terminal has code -2, so
   symb_finish_adding_terms computes  max_code - min_code = INT_MAX + 2  in int: signed overflow
   (UBSan), a negative range that passes the `< SYMB_CODE_TRANS_VECT_SIZE' test, and an allocation of
   sizeof (ptr) * (garbage) bytes.  Expected (and observed after the repair): the grammar is defined,
   the parse of "a b" succeeds, an undeclared code is reported as YAEP_INVALID_TOKEN_CODE.
     sh replays/run.sh replays/f38_code_near_int_max.c            */
#include <stdio.h>
#include <stdlib.h>
#include <limits.h>
#include "yaep.h"

static const char *names[] = { "a", "b", NULL };
static int codes[] = { 5, INT_MAX };
static int nt;
static const char *rt (int *code) { if (names[nt] == NULL) return NULL; *code = codes[nt]; return names[nt++]; }
static int nr;
static const char *rr (const char ***rhs, const char **an, int *cost, int **tr)
{
  static const char *r[] = { "a", "b", NULL };
  static int t[] = { 0, 1, -1 };
  if (nr++) return NULL;
  *rhs = r; *an = "s"; *cost = 0; *tr = t;
  return "S";
}
static int toks[4], ntok, pos;
static int rtok (void **attr) { *attr = NULL; return pos < ntok ? toks[pos++] : -1; }
static void serr (int e, void *ea, int s, void *sa, int r, void *ra) { printf ("syntax error at %d\n", e); }
static void *pa (int n) { return malloc (n); }

int main (void)
{
  struct grammar *g = yaep_create_grammar ();
  struct yaep_tree_node *root; int amb, rc, bad = 0;
  rc = yaep_read_grammar (g, 1, rt, rr);
  printf ("read_grammar rc=%d %s\n", rc, rc ? yaep_error_message (g) : "");
  if (rc != 0) bad++;
  else
    {
      toks[0] = 5; toks[1] = INT_MAX; ntok = 2; pos = 0;
      rc = yaep_parse (g, rtok, serr, pa, free, &root, &amb);
      printf ("parse rc=%d root=%s\n", rc, root ? "tree" : "NULL");
      if (rc != 0 || root == NULL) bad++;
      toks[0] = 5; toks[1] = INT_MAX - 1; ntok = 2; pos = 0;
      rc = yaep_parse (g, rtok, serr, pa, free, &root, &amb);
      printf ("parse with an undeclared code rc=%d (%s)\n", rc, yaep_error_message (g));
      if (rc != YAEP_INVALID_TOKEN_CODE) bad++;
    }
  yaep_free_grammar (g);
  printf (bad ? "FAIL\n" : "OK\n");
  return bad != 0;
}
