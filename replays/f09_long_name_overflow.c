/* F9: a 400-character symbol name in an error message overflows error_message[201]. */
#include "common.h"
static char longname[401];
static int nt;
static const char *rt (int *code) { if (nt++ == 0) { *code = -5; return longname; } return NULL; }
static const char *rr (const char ***rhs, const char **an, int *cost, int **tr) { return NULL; }
int main (void)
{
  struct grammar *g = yaep_create_grammar ();
  int r;
  memset (longname, 'x', 400);
  r = yaep_read_grammar (g, 1, rt, rr);
  printf ("ret=%d strlen(message)=%d\n", r, (int) strlen (yaep_error_message (g)));
  yaep_free_grammar (g);
  return r != YAEP_NEGATIVE_TERM_CODE;
}
