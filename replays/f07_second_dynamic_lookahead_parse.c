/* F7: second parse with dynamic lookahead (level 2) on the same object. */
#include "common.h"
int main (void)
{
  struct grammar *g = yaep_create_grammar ();
  struct yaep_tree_node *root; int amb, r, i;
  yaep_parse_grammar (g, 1, g_desc_expr);
  yaep_set_lookahead_level (g, 2);
  for (i = 0; i < 2; i++)
    {
      r = parse (g, "a+a", free, &root, &amb);
      printf ("parse %d = %d\n", i, r);
      if (r == 0) yaep_free_tree (root, free, NULL);
    }
  yaep_free_grammar (g);
  return 0;
}
