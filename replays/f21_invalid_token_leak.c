/* F21: at -O2 the cleanup flags of yaep_parse (non-volatile locals modified after
   setjmp) are read as FALSE in the error handler: a parse that fails with an invalid
   token code leaks the token array (160 KB per call).  Build with -O2.  */
#include "common.h"
int main (void)
{
  struct grammar *g = yaep_create_grammar ();
  struct yaep_tree_node *root; int amb, r, i;
  yaep_parse_grammar (g, 1, g_desc_expr);
  for (i = 0; i < 3; i++)
    { r = parse (g, "a+?", free, &root, &amb); printf ("parse = %d\n", r); }
  yaep_free_grammar (g);
  return 0;
}
