/* Reproducer for OBSERVATIONS.txt item 1 (unmodified library).
   Build and run from the root of the worktree:
     mkdir -p <dir> && bison -o <dir>/sgramm.c src/sgramm.y
     gcc -g -fsanitize=address,undefined -fno-sanitize-recover=undefined \
         -Isrc -I<dir> replays/f46_cost_sum_overflow.c \
         src/allocate.c src/hashtab.c src/objstack.c src/vlobject.c src/yaep.c \
         -o <dir>/obs1 && <dir>/obs1
   Observed: src/yaep.c:5417: runtime error: signed integer overflow:
   2147483647 + 2147483647 cannot be represented in type 'int'.  */
#include <stdio.h>
#include <stdlib.h>
#include "yaep.h"
static const char *in = "a"; static int p = 0;
static int rt (void **attr) { *attr = NULL; return in[p] ? in[p++] : -1; }
static void se (int a, void *b, int c, void *d, int e, void *f) {}
int main (void)
{
  struct grammar *g = yaep_create_grammar ();
  struct yaep_tree_node *root; int amb, rc;
  rc = yaep_parse_grammar (g, 1, "S : A # X 2147483647 (0);\nA : 'a' # Y 2147483647 (0);\n");
  printf ("pg %d %s\n", rc, rc ? yaep_error_message (g) : "");
  yaep_set_cost_flag (g, 1);
  rc = yaep_parse (g, rt, se, NULL, NULL, &root, &amb);
  printf ("parse %d cost %d\n", rc, root ? root->val.anode.cost : -1);
  yaep_free_grammar (g);
  return 0;
}
