/* sweep: fail the k-th malloc/realloc during yaep_parse, for every k */
void *__real_malloc (unsigned long);
#define malloc __real_malloc
#include "common.h"
#undef malloc
static long countdown = -1;
void *__real_realloc (void *, size_t); void *__real_calloc (size_t, size_t);
void *__wrap_malloc (size_t n) { if (countdown > 0 && --countdown == 0) return NULL; return __real_malloc (n); }
void *__wrap_realloc (void *p, size_t n) { if (countdown > 0 && --countdown == 0) return NULL; return __real_realloc (p, n); }
void *__wrap_calloc (size_t a, size_t b) { if (countdown > 0 && --countdown == 0) return NULL; return __real_calloc (a, b); }
int main (int argc, char **argv)
{
  struct grammar *g = yaep_create_grammar ();
  struct yaep_tree_node *root; int amb, k, r, nfail = 0;
  const char *in = argc > 1 ? argv[1] : "a+a+a";
  yaep_parse_grammar (g, 1, g_desc_expr);
  if (argc > 2) yaep_set_one_parse_flag (g, 0);
  for (k = 1; k < 400; k++)
    {
      countdown = k; r = parse (g, in, free, &root, &amb); 
      if (countdown > 0) { countdown = -1; if (r == 0) yaep_free_tree (root, free, NULL); break; }
      countdown = -1;
      if (r != YAEP_NO_MEMORY) { printf ("k=%d: parse returned %d\n", k, r); if (r == 0) yaep_free_tree (root, free, NULL); }
      else nfail++;
    }
  printf ("%d failure points survived (allocations per parse: %d)\n", nfail, k - 1);
  yaep_free_grammar (g);
  return 0;
}
