#include <stdio.h>
#include <stdlib.h>
#include <string.h>
#include "yaep.h"
static const char *g_desc_expr =
  "TERM;\nE : E '+' T # plus (0 2) | T # 0 ;\nT : 'a' # 0 ;\n";
static const char *g_input; static int g_pos;
static int rd (void **attr) { *attr = NULL; return g_input[g_pos] ? g_input[g_pos++] : -1; }
static int n_err;
static void se (int e, void *ea, int s, void *sa, int r, void *ra) { n_err++; }
static void *pa (int n) { return malloc (n); }
static int parse (struct grammar *g, const char *in, void (*fr)(void *), struct yaep_tree_node **root, int *amb)
{ g_input = in; g_pos = 0; n_err = 0; return yaep_parse (g, rd, se, pa, fr, root, amb); }
