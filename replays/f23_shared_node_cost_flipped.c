/* F23: traverse_pruned_translation restores the cost of a node once per *visit*: a node
   kept under two parents is flipped twice and ends with a negative cost field.
   E : E '+' E # plus (0 2) | 'a' # a (0)   input a+a+a, all parses, cost flag: both
   bracketings survive and share the leaves.  */
#include "common.h"
static int neg, seen_n; static struct yaep_tree_node *seen[100];
static void walk (struct yaep_tree_node *n)
{
  int i;
  for (i = 0; i < seen_n; i++) if (seen[i] == n) return;
  seen[seen_n++] = n;
  if (n->type == YAEP_ANODE)
    {
      printf ("  %s cost=%d\n", n->val.anode.name, n->val.anode.cost);
      if (n->val.anode.cost < 0) neg++;
      for (i = 0; n->val.anode.children[i] != NULL; i++) walk (n->val.anode.children[i]);
    }
  else if (n->type == YAEP_ALT) { walk (n->val.alt.node); if (n->val.alt.next) walk (n->val.alt.next); }
}
int main (void)
{
  struct grammar *g = yaep_create_grammar ();
  struct yaep_tree_node *root; int amb, r;
  yaep_parse_grammar (g, 1, "E : E '+' E # plus (0 2) | 'a' # a (0) ;\n");
  yaep_set_one_parse_flag (g, 0);
  yaep_set_cost_flag (g, 1);
  r = parse (g, "a+a+a", free, &root, &amb);
  printf ("parse=%d\n", r);
  walk (root);
  printf ("nodes with a negative cost field: %d\n", neg);
  yaep_free_tree (root, free, NULL);
  yaep_free_grammar (g);
  return neg != 0;
}
