/* F12/F13: cost flag on an ambiguous input whose alternatives share nodes.
   E : E '+' E # plus (0 2) | 'a' # a (0)      input a+a+a, all parses, cost flag.
   Both bracketings cost the same (5), so both must survive (F12: the second is
   dropped because a shared, already costed node leaves *cost stale), and the
   nodes of a dropped alternative must be freed exactly once (F13).  */
#include "common.h"
static int n_alloc, n_free;
static void *ta (int n) { n_alloc++; return malloc (n); }
static void tf (void *p) { if (p != NULL) n_free++; free (p); }
static int count_alts (struct yaep_tree_node *n) { int k = 0; for (; n != NULL && n->type == YAEP_ALT; n = n->val.alt.next) k++; return k; }
int main (void)
{
  struct grammar *g = yaep_create_grammar ();
  struct yaep_tree_node *root; int amb, r, alts;
  r = yaep_parse_grammar (g, 1, "E : E '+' E # plus (0 2) | 'a' # a (0) ;\n");
  yaep_set_one_parse_flag (g, 0);
  yaep_set_cost_flag (g, 1);
  g_input = "a+a+a"; g_pos = 0;
  r = yaep_parse (g, rd, se, ta, tf, &root, &amb);
  alts = count_alts (root);
  printf ("define/parse=%d ambiguous=%d root type=%d alternatives=%d\n", r, amb, root->type, alts);
  if (root->type == YAEP_ALT)
    printf ("cost of alternatives: %d %d\n", root->val.alt.node->val.anode.cost, root->val.alt.next->val.alt.node->val.anode.cost);
  yaep_free_tree (root, tf, NULL);
  yaep_free_grammar (g);
  printf ("allocs=%d frees=%d\n", n_alloc, n_free);
  return !(alts == 2 && n_alloc == n_free);
}
