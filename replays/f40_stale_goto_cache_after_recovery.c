/* Reproducer for the observation in seed/OBSERVATIONS.txt (unmodified
   library): a cached goto set is reused after an error recovery has
   rewritten the parser list below the current place.

     mkdir -p build/obs && bison -o build/obs/sgramm.c src/sgramm.y
     gcc -g -fsanitize=address,undefined -Isrc -Ibuild/obs \
         src/allocate.c src/hashtab.c src/objstack.c src/vlobject.c src/yaep.c \
         replays/f40_stale_goto_cache_after_recovery.c -o build/obs/repro
     build/obs/repro                 # all defaults: SEGV in build_new_set
     build/obs/repro '{[(a;aa}a;' 0 1  # lookahead 0, recovery match 1:
                                     # a second, spurious error; tree is nil  */

#include <stdio.h>
#include <stdlib.h>
#include "yaep.h"

static const char *description =
  "TERM;\n"
  "S : L                # 0\n"
  "  ;\n"
  "L : I                # l1 (0)\n"
  "  | L I              # l2 (0 1)\n"
  "  ;\n"
  "I : 'a' ';'          # i (0 1)\n"
  "  | '(' L ')'        # p (0 1 2)\n"
  "  | '(' error ')'    # pe (0 1 2)\n"
  "  | '[' L ']'        # b (0 1 2)\n"
  "  | '[' error ']'    # be (0 1 2)\n"
  "  | '{' L '}'        # c (0 1 2)\n"
  "  | '{' error '}'    # ce (0 1 2)\n"
  "  ;\n";

static const char *input = "{[(a;a;aa}a;a;a;";
static int pos;

static int
read_token (void **attr)
{
  *attr = NULL;
  return input[pos] == 0 ? -1 : input[pos++];
}

static void
syntax_error (int err_tok_num, void *err_tok_attr,
	      int start_ignored_tok_num, void *start_ignored_tok_attr,
	      int start_recovered_tok_num, void *start_recovered_tok_attr)
{
  (void) err_tok_attr; (void) start_ignored_tok_attr;
  (void) start_recovered_tok_attr;
  printf ("syntax error on token %d: tokens [%d, %d) ignored\n",
	  err_tok_num, start_ignored_tok_num, start_recovered_tok_num);
}

int
main (int argc, char **argv)
{
  struct grammar *g = yaep_create_grammar ();
  struct yaep_tree_node *root;
  int ambiguous_p, code;

  setvbuf (stdout, NULL, _IONBF, 0);
  if (argc > 1)
    input = argv[1];
  if (argc > 2)
    yaep_set_lookahead_level (g, atoi (argv[2]));
  if (argc > 3)
    yaep_set_recovery_match (g, atoi (argv[3]));
  if (yaep_parse_grammar (g, 1, description) != 0)
    return 2;
  code = yaep_parse (g, read_token, syntax_error, NULL, NULL, &root,
		     &ambiguous_p);
  printf ("code %d, root %s\n", code,
	  root == NULL ? "NULL" : root->type == YAEP_NIL ? "nil" : "a tree");
  return code != 0 || root == NULL || root->type == YAEP_NIL;
}
