/* F33 (C04): with the cost flag and all parses requested the result denotes exactly all minimal
   cost translations.  copy_anode (the copy of an abstract node made for another split of its
   rule) shared the lists of alternatives hanging in the child slots with the original node;
   prune_to_minimal relinks such a list in place when it is reached through the first owner, the
   second owner then still points to the old head whose `next' was cut: it sees one alternative
   only, with that alternative's (possibly non-minimal) cost.
   S : X Y Z # s 1 (0 1 2), X and Y share three `a', Z has three alternatives (cost 4, 3, 5) for
   `b': both splits (x1 y2) and (x2 y1) give cost 1 + 3; only one of them was returned.  */
#include "common.h"
static int count_alts (struct yaep_tree_node *n) { int k = 0; if (n->type != YAEP_ALT) return 1; for (; n != NULL; n = n->val.alt.next) k++; return k; }
int main (void)
{
  struct grammar *g = yaep_create_grammar (); struct yaep_tree_node *root, *s; int amb, rc, bad = 0, lev;
  rc = yaep_parse_grammar (g, 1,
    "S : X Y Z # s 1 (0 1 2) ;\n"
    "X : # x0 0 | 'a' # x1 0 (0) | 'a' 'a' # x2 0 (0 1) ;\n"
    "Y : # y0 0 | 'a' # y1 0 (0) | 'a' 'a' # y2 0 (0 1) ;\n"
    "Z : 'b' # z4 4 | 'b' # z3 3 | 'b' # z5 5 ;\n");
  if (rc) { printf ("definition failed %s\n", yaep_error_message (g)); return 2; }
  yaep_set_cost_flag (g, 1);
  yaep_set_one_parse_flag (g, 0);
  for (lev = 0; lev <= 2; lev++)
    {
      yaep_set_lookahead_level (g, lev);
      rc = parse (g, "aaab", NULL, &root, &amb);
      s = root->type == YAEP_ALT ? root->val.alt.node : root;
      printf ("lookahead %d: rc=%d, %d minimal translation(s) returned (expected 2), cost %d (expected 4)\n", lev, rc, count_alts (root), s->val.anode.cost);
      if (rc != 0 || count_alts (root) != 2 || s->val.anode.cost != 4) bad = 1;
    }
  yaep_free_grammar (g);
  printf (bad ? "FAIL\n" : "OK\n");
  return bad;
}
