/* F29 (C10): without strict checking yaep_read_grammar must still reject a grammar whose start
   symbol derives no terminal string (YAEP_NONTERM_DERIVATION, "only checking axiom for this").
   check_grammar tested `$S', which always derives through the implicit rule `$S : error $eof',
   so `S : S 'a'' was accepted; the object then "parses" every input with one syntax error.  */
#include "common.h"
int main (void)
{
  int strict, bad = 0, rc;
  static const char *descs[] = { "S : S 'a' ;", "S : A 'a' ; A : A 'b' ;" };
  unsigned k;
  for (strict = 0; strict < 2; strict++)
    for (k = 0; k < 2; k++)
      {
	struct grammar *g = yaep_create_grammar ();
	rc = yaep_parse_grammar (g, strict, descs[k]);
	printf ("strict=%d %-26s -> rc=%d %s\n", strict, descs[k], rc, rc ? yaep_error_message (g) : "(accepted)");
	if (rc != YAEP_NONTERM_DERIVATION) bad = 1;
	yaep_free_grammar (g);
      }
  {
    /* still accepted: the start symbol derives a string, another nonterminal does not (non-strict) */
    struct grammar *g = yaep_create_grammar ();
    rc = yaep_parse_grammar (g, 0, "S : 'a' | B ; B : B 'b' ;");
    printf ("strict=0 S : 'a' | B ; B : B 'b' -> rc=%d (expected 0)\n", rc);
    if (rc != 0) bad = 1;
    yaep_free_grammar (g);
  }
  printf (bad ? "FAIL\n" : "OK\n");
  return bad;
}
