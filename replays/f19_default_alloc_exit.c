/* F19: with the default tree allocator (alloc == NULL), a failing malloc during tree
   construction terminates the process with exit(1).  */
#include "common.h"
static long countdown = -1; static int fail_all;
void *__real_malloc (size_t);
void *__wrap_malloc (size_t n) { if (fail_all && n == sizeof (struct yaep_tree_node)) return NULL; return __real_malloc (n); }
static void bye (void) { if (fail_all) printf ("process is exiting from inside yaep_parse\n"); }
int main (void)
{
  struct grammar *g = yaep_create_grammar ();
  struct yaep_tree_node *root; int amb, r;
  atexit (bye);
  yaep_parse_grammar (g, 1, g_desc_expr);
  g_input = "a+a"; g_pos = 0;
  fail_all = 1;
  r = yaep_parse (g, rd, se, NULL, NULL, &root, &amb);
  fail_all = 0;
  printf ("ret=%d error_code=%d\n", r, yaep_error_code (g));
  yaep_free_grammar (g);
  return r != YAEP_NO_MEMORY;
}
