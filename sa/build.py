"""Build the program model from /repo's current working tree.

bison -> clang -O0 -g -emit-llvm (flags mirror the CMake build) -> opt mem2reg
-> /verif/build/irfacts -> JSON -> sa.model.Model.  Everything lives in a fresh
temporary directory outside /repo and /verif that is removed afterwards.
"""
import os
import shutil
import subprocess
import tempfile
import time
from concurrent.futures import ThreadPoolExecutor

from .model import Model

REPO = os.environ.get("VERIF_REPO", "/repo")
VERIF = os.path.dirname(os.path.dirname(os.path.abspath(__file__)))
IRFACTS = os.path.join(VERIF, "build", "irfacts")

CONFIGS = {
    # name: (units, language flags, defines)
    "c-lib": (["allocate.c", "hashtab.c", "objstack.c", "vlobject.c", "yaep.c"], [], ["-DNDEBUG"]),
    "cxx-lib": (["allocate.c", "hashtab.cpp", "objstack.cpp", "vlobject.cpp", "yaep.cpp"], [], ["-DNDEBUG"]),
    "c-test": (["allocate.c", "hashtab.c", "objstack.c", "vlobject.c", "yaep.c"], [], ["-DYAEP_TEST", "-DYAEP_DEBUG"]),
    "cxx-test": (["allocate.c", "hashtab.cpp", "objstack.cpp", "vlobject.cpp", "yaep.cpp"], [], ["-DYAEP_TEST", "-DYAEP_DEBUG"]),
}


class BuildError(Exception):
    pass


def _run(cmd, cwd=None):
    p = subprocess.run(cmd, cwd=cwd, stdout=subprocess.PIPE, stderr=subprocess.STDOUT, universal_newlines=True)
    if p.returncode != 0:
        raise BuildError("command failed (%d): %s\n%s" % (p.returncode, " ".join(cmd), p.stdout[-4000:]))
    return p.stdout


_KNOWN = [None]


def _known_functions():
    """{source file name: names of the functions the pinned tree defines in it}; frozen in known_functions.json"""
    if _KNOWN[0] is None:
        import json as _json
        p = os.path.join(os.path.dirname(os.path.abspath(__file__)), "known_functions.json")
        _KNOWN[0] = dict((k, set(v)) for k, v in _json.load(open(p)).items()) if os.path.exists(p) else {}
    return _KNOWN[0]


def _ll_functions(text):
    """{name: (is_internal, fingerprint)} of the functions defined in an LLVM assembly text.  The fingerprint is a digest of the type signature and the
    sequence of opcodes with the names of the external callees (calls of functions internal to the unit count as one anonymous callee, debug intrinsics are
    left out): a function that was only renamed -- and whose callers were adjusted -- keeps it."""
    import re as _re
    import hashlib
    heads = list(_re.finditer(r"^define ([^@\n]*)@([\w.$]+|\"[^\"]+\")\(([^\n]*)\{\s*$", text, _re.M))
    internal = set(m.group(2).strip('"') for m in heads if "internal" in m.group(1))
    out = {}
    for m in heads:
        name = m.group(2).strip('"')
        end = text.find("\n}\n", m.end())
        body = text[m.end():end if end >= 0 else len(text)]
        seq = [_re.sub(r"\s+", " ", _re.sub(r"(internal|dso_local|hidden|linkonce_odr|noundef|#\\d+|!dbg !\\d+)", "", m.group(1))).strip(),
               str(m.group(3).count("%"))]
        for l in body.split("\n"):
            l = l.strip()
            if not l or l.endswith(":") or l.startswith(";"):
                continue
            mm = _re.match(r"(?:%[\w.]+ = )?(?:tail |musttail |notail )?([a-z_]+)", l)
            if not mm:
                continue
            op = mm.group(1)
            if op in ("call", "invoke"):
                cm = _re.search(r"@([\w.$]+|\"[^\"]+\")\(", l)
                cal = cm.group(1).strip('"') if cm else "indirect"
                if cal.startswith("llvm.dbg") or cal.startswith("llvm.lifetime"):
                    continue
                op = "call:" + ("?" if cal in internal else cal)
            seq.append(op)
        out[name] = (name in internal, hashlib.sha1("\n".join(seq).encode()).hexdigest()[:16])
    return out


_FPS = [None]


def _known_fingerprints():
    if _FPS[0] is None:
        import json as _json
        p = os.path.join(os.path.dirname(os.path.abspath(__file__)), "known_fingerprints.json")
        _FPS[0] = _json.load(open(p)) if os.path.exists(p) else {}
    return _FPS[0]


def _undo_renames(text, unit, known):
    """a function of the pinned tree that is missing while an unknown function with the same fingerprint appeared was renamed: give it its old name back in the
    assembly text (definition, every use, debug name), so that the rules -- keyed by the names of the pinned tree -- and the helper inlining see the same program"""
    import re as _re
    fps = _known_fingerprints().get(unit, {})
    if not fps:
        return text, {}
    funcs = _ll_functions(text)
    missing = [k for k in known if k not in funcs and k in fps]
    unknown = [k for k in funcs if k not in known]
    renames = {}
    for u in unknown:
        cands = [k for k in missing if funcs[u][1] in fps[k] and k not in renames.values()]
        if len(cands) == 1 and len([x for x in unknown if funcs[x][1] == funcs[u][1]]) == 1:
            renames[u] = cands[0]
    for u, k in renames.items():
        text = _re.sub(r"@%s(?![\w.$])" % _re.escape(u), "@" + k, text)
    return text, renames


class Workspace(object):
    def __init__(self):
        self.dir = tempfile.mkdtemp(prefix="yaep-sa-")
        self.src = os.path.join(REPO, "src")
        self.models = {}
        self.timing = {}
        self._bison_done = False

    def close(self):
        shutil.rmtree(self.dir, ignore_errors=True)

    def __enter__(self):
        return self

    def __exit__(self, *a):
        self.close()

    def bison(self):
        if not self._bison_done:
            _run(["bison", "-o", os.path.join(self.dir, "sgramm.c"), os.path.join(self.src, "sgramm.y")])
            self._bison_done = True
        return os.path.join(self.dir, "sgramm.c")

    def macros(self):
        """object-like macros of yaep.h with integer values (clang -E -dM)"""
        if not hasattr(self, "_macros"):
            out = _run(["clang-14", "-std=gnu90", "-E", "-dM", "-I" + self.src, os.path.join(self.src, "yaep.h")])
            mm = {}
            for l in out.splitlines():
                p = l.split(None, 2)
                if len(p) == 3 and p[0] == "#define":
                    v = p[2].strip()
                    try:
                        mm[p[1]] = int(v, 0)
                    except ValueError:
                        if v == "INT_MAX" or v == "__INT_MAX__":
                            mm[p[1]] = 2147483647
            self._macros = mm
        return self._macros

    def compile_unit(self, path, out, defs, extra=(), mem2reg=True):
        cxx = path.endswith(".cpp") or path.endswith(".cc")
        cc = ["clang++-14", "-std=gnu++11"] if cxx else ["clang-14", "-std=gnu90"]
        cmd = cc + ["-I" + self.dir, "-I" + self.src] + list(defs) + list(extra) + [
            "-O0", "-Xclang", "-disable-O0-optnone", "-fno-discard-value-names", "-g", "-fstandalone-debug", "-w",
            "-S", "-emit-llvm", path, "-o", out + ".raw.ll"]
        _run(cmd)
        # Functions that the pinned tree does not have (helpers extracted by a later maintenance edit) are inlined into their callers
        # before the analysis, so that the rules -- which name the functions of the pinned tree -- see the code where they expect it.
        force = []
        known = _known_functions().get(os.path.basename(path))
        if known is not None:
            import re as _re
            txt0 = open(out + ".raw.ll").read()
            txt1, ren = _undo_renames(txt0, os.path.basename(path) + "|" + ",".join(defs), known)
            if ren:
                open(out + ".raw.ll", "w").write(txt1)
                self.renames = getattr(self, "renames", {})
                self.renames.update(ren)
            for mm in _re.finditer(r"^define [^@\n]*@([\w.$]+|\"[^\"]+\")\(", open(out + ".raw.ll").read(), _re.M):
                fn = mm.group(1).strip('"')
                if fn not in known:
                    force += ["-force-remove-attribute=%s:noinline" % fn, "-force-attribute=%s:alwaysinline" % fn]
        passes = (["forceattrs", "always-inline"] if force else []) + (["mem2reg"] if mem2reg else [])
        if passes:
            _run(["opt-14", "-passes=" + ",".join(passes)] + force + ["-S", out + ".raw.ll", "-o", out])
            os.unlink(out + ".raw.ll")
        else:
            os.rename(out + ".raw.ll", out)
        return out

    def model(self, config):
        if config in self.models:
            return self.models[config]
        t0 = time.time()
        raw = config.endswith("-raw")
        units, _, defs = CONFIGS[config[:-4] if raw else config]
        self.bison()
        outs = []
        jobs = []
        with ThreadPoolExecutor(max_workers=8) as ex:
            for u in units:
                out = os.path.join(self.dir, "%s.%s.ll" % (config, u.replace(".", "_")))
                outs.append(out)
                jobs.append(ex.submit(self.compile_unit, os.path.join(self.src, u), out, defs, (), not raw))
            for j in jobs:
                j.result()
        js = os.path.join(self.dir, config + ".json")
        _run([IRFACTS, js] + outs)
        m = Model(js, name=config)
        m.units = [os.path.join("src", u) for u in units] + (["src/sgramm.y"] if any(u.startswith("yaep.") for u in units) else [])
        self.models[config] = m
        self.timing[config] = time.time() - t0
        return m

    def model_of_files(self, name, files, defs=("-DNDEBUG",), extra=()):
        """Model of arbitrary source files (canaries, probes) with the library flags."""
        outs = []
        self.bison()
        for k, f in enumerate(files):
            out = os.path.join(self.dir, "%s.%d.ll" % (name, k))
            self.compile_unit(f, out, defs, extra)
            outs.append(out)
        js = os.path.join(self.dir, name + ".json")
        _run([IRFACTS, js] + outs)
        m = Model(js, name=name)
        m.units = [os.path.relpath(x, VERIF) for x in files]
        return m
