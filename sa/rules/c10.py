"""C10 -- the table of definition checks: every documented defect has a check of the
accepted shape, reachable before the definition can succeed."""
from ..model import resolve_addr, strip_casts, strip_int_casts, const_int, loaded_from, alloca_reaching_value
from ..core import AnalysisBroken
from .. import expr
from .r5 import _controlling_conditions


_ROLE_CACHE = {}


def roles_of(f):
    """names by role, so that renaming a local does not matter: results and out-parameters of the
    user callbacks (`read_terminal()', `out1(read_rule)', ...)"""
    if f.name in _ROLE_CACHE:
        return _ROLE_CACHE[f.name]
    r = {}
    for i in f.calls():
        if i.callee:
            continue
        co = strip_casts(f, i.d["callee_op"])
        if co.get("k") != "a":
            continue
        pname = f.args[co["v"]]["name"]
        r[("inst", i.id)] = "%s()" % pname
        for k, a in enumerate(i.args):
            pa = resolve_addr(f, a)
            if pa.root[0] == "alloca" and not pa.steps:
                r[("alloca", pa.root[1])] = "out%d(%s)" % (k, pname)
    # loads of a renamed result variable keep the role through phis of one source
    _ROLE_CACHE[f.name] = r
    return r


def _lin(f, op):
    expr.NAMED[0] = True
    expr.ROLES[0] = roles_of(f)
    try:
        return expr.lin(f, op, 0, 4)
    finally:
        expr.NAMED[0] = False
        expr.ROLES[0] = None


def _cond_str(f, c, pol):
    return _norm(f, c, pol)


def _or_group(f, bname):
    """conditions of the edges entering bname from different predecessors when bname has several
    (short-circuit `||'): strings of the last condition on each entering edge"""
    b = f.bmap[bname]
    preds = [x for x in b.preds if f.reachable(x)]
    if len(preds) < 2:
        return None
    alts = []
    for pn in preds:
        t = f.bmap[pn].term
        if t is None or t.op != "br" or len(t.ops) != 3 or t.ops[1]["v"] == t.ops[2]["v"]:
            return None
        c = f.inst(t.ops[0])
        pol = t.ops[2]["v"] == bname
        while c is not None and c.op == "xor" and c.ty == "i1":
            c = f.inst(c.ops[0])
            pol = not pol
        if c is None or c.op != "icmp":
            return None
        st = _norm(f, c, pol)
        if st is None:
            return None
        alts.append(st)
    return "any(" + " | ".join(sorted(alts)) + ")"


def site_conditions(p, f, inst):
    """normalised controlling conditions of an instruction: list of strings
    `<linear form> >= 0`, `<expr> != 0`, `<expr> == 0`, `<a> == <b>`, `<a> != <b>`, `any(c1 | c2)`"""
    out = []
    og = _or_group(f, inst.block.name)
    if og:
        out.append(og)
    for (c, pol) in _controlling_conditions(f, inst.block.name):
        st = _norm(f, c, pol)
        if st is not None:
            out.append(st)
    return sorted(out)


def _norm(f, c, pol):
    out = []
    if True:
        a, b = _lin(f, c.ops[0]), _lin(f, c.ops[1])
        pr = c.d["pred"]
        if pr in ("eq", "ne"):
            eq = (pr == "eq") == pol
            d = a.add(b, -1)
            if b.is_const() and b.c == 0:
                out.append("%r %s 0" % (a, "==" if eq else "!="))
            elif a.is_const() and a.c == 0:
                out.append("%r %s 0" % (b, "==" if eq else "!="))
            else:
                x, y = sorted([repr(a), repr(b)])
                out.append("%s %s %s" % (x, "==" if eq else "!=", y))
            return out[0]
        if pr in ("ult", "ule", "ugt", "uge"):
            pr = "s" + pr[1:]
            uns = "u "
        else:
            uns = ""
        form = None
        if pr == "slt":
            form = b.add(a, -1).add(expr.Lin(-1)) if pol else a.add(b, -1)
        elif pr == "sge":
            form = a.add(b, -1) if pol else b.add(a, -1).add(expr.Lin(-1))
        elif pr == "sgt":
            form = a.add(b, -1).add(expr.Lin(-1)) if pol else b.add(a, -1)
        elif pr == "sle":
            form = b.add(a, -1) if pol else a.add(b, -1).add(expr.Lin(-1))
        if form is not None:
            out.append("%s%r >= 0" % (uns, form))
    return out[0] if out else None


# code macro -> list of specs; a spec is a set of conditions all of which must control the site.
# Frozen from the sources (identifiers of /repo), each row = one documented defect.
SPECS = {
    "YAEP_NEGATIVE_TERM_CODE": [["-1*L[&out0(read_terminal)] + -1 >= 0"]],
    "YAEP_REPEATED_TERM_DECL": [["symb_find_by_repr(read_terminal()) != 0"]],
    "YAEP_REPEATED_TERM_CODE": [["symb_find_by_code(L[&out0(read_terminal)]) != 0"],
                                # two declarations of one name that both carry a code, and the codes differ (whatever the two are called: arr[i], a running pointer, `prev' ...)
                                ["n2re:^-1 != L\\[.*\\.sterm\\.code\\]$", "re:^L\\[.*\\.sterm\\.code\\] != L\\[.*\\.sterm\\.code\\]$"]],
    "YAEP_FIXED_NAME_USAGE": [['symb_find_by_repr("error") != 0'],
                              # the result of the lookup of the reserved name, tested directly or read back from the field it was put into (C10-fresh ties the test to the insertion)
                              ["re:^(L\\[\\(L\\[@grammar\\]\\)\\.grammar\\.axiom\\]|symb_find_by_repr\\(\"\\$S\"\\)) != 0$"],
                              ["re:^(L\\[\\(L\\[@grammar\\]\\)\\.grammar\\.end_marker\\]|symb_find_by_repr\\(\"\\$eof\"\\)) != 0$"],
                              ["L[(L[@grammar]).grammar.axiom] == symb_find_by_repr(read_rule())"],
                              # the symbol looked at is *rhs (pointer walk) or rhs[i] / a local holding it
                              ["re:^any\\(L\\[\\(L\\[@grammar\\]\\)\\.grammar\\.axiom\\] == symb_find_by_repr\\((.*)\\) \\| L\\[\\(L\\[@grammar\\]\\)\\.grammar\\.end_marker\\] == symb_find_by_repr\\(\\1\\)\\)$"]],
    "YAEP_NO_RULES": [["L[(L[@grammar]).grammar.axiom] == 0", "read_rule() == 0"]],
    "YAEP_TERM_IN_RULE_LHS": [["L[(symb_find_by_repr(read_rule())).symb.term_p] != 0"]],
    "YAEP_INCORRECT_TRANSLATION": [["L[&out1(read_rule)] == 0", "L[&out3(read_rule)] != 0", "L[(L[&out3(read_rule)])[1]] >= 0", "L[(L[&out3(read_rule)])] >= 0"]],
    "YAEP_NEGATIVE_COST": [["-1*L[&out2(read_rule)] + -1 >= 0", "L[&out1(read_rule)] != 0"]],
    "YAEP_INCORRECT_SYMBOL_NUMBER": [["2147483647 != L[(L[&out3(read_rule)])[i]]", "L[(L[&out3(read_rule)])[i]] + -1*L[(rule).rule.rhs_len] >= 0", "L[(L[&out3(read_rule)])[i]] >= 0"]],
    "YAEP_REPEATED_SYMBOL_NUMBER": [["-1*L[(L[&out3(read_rule)])[i]] + L[(rule).rule.rhs_len] + -1 >= 0", "L[(L[(rule).rule.order])[L[(L[&out3(read_rule)])[i]]]] >= 0", "L[(L[&out3(read_rule)])[i]] >= 0"]],
    "YAEP_UNACCESSIBLE_NONTERM": [["L[(nonterm_get(i)).symb.access_p] == 0", "strict_p != 0"]],
    "YAEP_NONTERM_DERIVATION": [["L[(nonterm_get(i)).symb.derivation_p] == 0", "strict_p != 0"],
                                # the start symbol of the user's grammar (first symbol of the first rule, `$S : <start> $eof'); `$S' itself always derives
                                # `error $eof' and is not the documented subject of the check
                                ["re:^L\\[\\(L\\[\\(L\\[\\(L\\[\\([^()]*\\)\\.rules\\.first_rule\\]\\)\\.rule\\.rhs\\]\\)(?:\\[0\\])?\\]\\)\\.symb\\.derivation_p\\] == 0$", "strict_p == 0"]],
    "YAEP_LOOP_NONTERM": [["L[(nonterm_get(i)).symb.u.symb.u.nonterm.loop_p] != 0"]],
    "YAEP_DESCRIPTION_SYNTAX_ERROR_CODE": [[]],
}

SPEC_TEXT = {}
SUBJECT_FIELDS = {"YAEP_UNACCESSIBLE_NONTERM": r"\.symb\.access_p\] == 0$", "YAEP_NONTERM_DERIVATION": r"\.symb\.derivation_p\] == 0$",
                  "YAEP_LOOP_NONTERM": r"\.loop_p\] != 0$"}
NEAR_HINTS = {}
for _c in SPECS["YAEP_FIXED_NAME_USAGE"][4]:
    NEAR_HINTS[_c] = ["grammar.axiom] == symb_find_by_repr(", "grammar.end_marker] == symb_find_by_repr("]
    SPEC_TEXT[_c] = "any(<symbol> == grammar->axiom | <symbol> == grammar->end_marker)"
for _spec in SPECS["YAEP_NONTERM_DERIVATION"]:
    for _c in _spec:
        if _c.startswith("re:"):
            SPEC_TEXT[_c] = "<the start symbol of the grammar, not `$S'>.derivation_p == 0"

DEFINING = ["yaep_read_grammar", "set_sgrammar"]

# conditions on the callbacks' results that every site is under: the loops over terminals / rules / right-hand sides
LOOP_GUARDS = set(["read_terminal() != 0", "read_terminal() == 0", "read_rule() != 0", "read_rule() == 0"])
# further conditions on the input a site may be under: the earlier checks of the same element passed, the list that is checked exists
ALLOWED_EXTRA = {
    "YAEP_REPEATED_TERM_DECL": [r"^L\[&out0\(read_terminal\)\] >= 0$"],
    "YAEP_REPEATED_TERM_CODE": [r"^L\[&out0\(read_terminal\)\] >= 0$", r"^symb_find_by_repr\(read_terminal\(\)\) == 0$", r"^symb_find_by_code\(L\[&out0\(read_terminal\)\]\) != 0$"],
    "YAEP_TERM_IN_RULE_LHS": [r"^symb_find_by_repr\(read_rule\(\)\) != 0$"],
    "YAEP_FIXED_NAME_USAGE": [r"^symb_find_by_repr\(read_rule\(\)\) != 0$", r"^L\[\(symb_find_by_repr\(read_rule\(\)\)\)\.symb\.term_p\] == 0$", r"^L\[\(L\[&out0\(read_rule\)\]\)(\[\w+\])?\] != 0$",
                              r"^symb_find_by_repr\(L\[\(L\[&out0\(read_rule\)\]\)(\[\w+\])?\]\) != 0$"],
    "YAEP_INCORRECT_SYMBOL_NUMBER": [r"^L\[&out3\(read_rule\)\] != 0$", r"^L\[\(L\[&out0\(read_rule\)\]\)(\[\w+\])?\] == 0$"],
    "YAEP_REPEATED_SYMBOL_NUMBER": [r"^L\[&out3\(read_rule\)\] != 0$", r"^L\[\(L\[&out0\(read_rule\)\]\)(\[\w+\])?\] == 0$"],
}


def _has(conds, c):
    """spec element: a literal condition, or `re:<regex>' (a family of equivalent spellings), or `not:<regex>' (no condition may match)"""
    import re
    if c.startswith("re:"):
        return any(re.search(c[3:], x) for x in conds)
    if c.startswith("n2re:"):
        return len(set(x for x in conds if re.search(c[5:], x))) >= 2
    return c in conds


def _atoms(cond):
    import re
    return tuple(sorted(set(re.findall(r'L\[[^ ]*\]|[A-Za-z_][A-Za-z_0-9]*\([^)]*\)|"[^"]*"|\b[A-Za-z_][A-Za-z_0-9]*\b', cond))))


def rule_code_table(ctx, rep, config="c-lib"):
    rep.rule("C10-codes", "every documented definition error code is raised at a site reachable from yaep_read_grammar / the description parser before the definition can "
                          "succeed, and each site is controlled by the documented predicate (conditions normalised to linear inequalities / (in)equalities over named "
                          "program entities; `||' as any(..)); each predicate of the table is implemented by at least one site")
    p = ctx.prog(config)
    m = p.m
    mac = ctx.ws.macros()
    code_name = dict((v, k) for k, v in mac.items() if k in SPECS)
    reach = set()
    for d in DEFINING:
        reach |= p.reach(d)
    sites = []
    for f in m.defined():
        if f.name not in reach:
            continue
        for i in f.calls():
            if i.callee == "yaep_error" and const_int(i.args[0]) in code_name:
                sites.append((f, i, code_name[const_int(i.args[0])]))
    rep.cover(p, reach)
    matched = set()
    unclassified = set()     # codes with a site the table could not classify (renamed locals, restructured test): no verdict about their rows
    modes = {}
    n = 0
    per_fn = {}
    for (f, i, cname) in sites:
        n += 1
        k = per_fn[(f.name, cname)] = per_fn.get((f.name, cname), 0) + 1
        key = "%s/%s#%d" % (f.name, cname, k)
        conds = site_conditions(p, f, i)
        ok = None
        for si, spec in enumerate(SPECS[cname]):
            if all(_has(conds, c) for c in spec):
                ok = si
                break
        if ok is not None:
            # the predicate is not narrowed by a further condition on what the callbacks delivered (beyond `the earlier checks passed' and the loop guards)
            import re as _re
            narrowing = [c for c in conds if not any(_has([c], x) for x in SPECS[cname][ok]) and ("&out" in c or "read_rule()" in c or "read_terminal()" in c)
                         and c not in LOOP_GUARDS and not any(_re.search(rx, c) for rx in ALLOWED_EXTRA.get(cname, []))]
            if narrowing:
                rep.violation("C10-codes", key, "%s is raised only under the additional condition %s on the definition being read: the documented defect is not reported "
                              "when that condition is false (the grammar is accepted)" % (cname, narrowing), where=i.where(), witness=[i.where()] + narrowing)
                matched.add((cname, ok))
                continue
            modes.setdefault((cname, ok), []).append((key, i, [c for c in conds if "strict_p" in _atoms(c)]))
            matched.add((cname, ok))
            rep.ok("C10-codes", key, sample={"site": i.where(), "code": cname, "controlled_by": SPECS[cname][ok]})
            continue
        # classify: same entities, other predicate/constant -> witness; other structure -> analysis broken
        near = None
        cat = set(a for c in conds for a in _atoms(c))
        for spec in SPECS[cname]:
            sat = set(a for c in spec if not c.startswith(("re:", "n2re:")) for a in _atoms(c))
            lits_ = [c for c in spec if not c.startswith(("re:", "n2re:"))]
            if lits_ and all(_negated(c) in conds for c in lits_):
                continue
            # a row given as a family of spellings: the site is a near miss when it tests a part of what the row tests
            hints = [NEAR_HINTS[c] for c in spec if c in NEAR_HINTS]
            if hints and len(hints) == len([c for c in spec if c.startswith(("re:", "n2re:"))]) and not lits_ \
                    and all(any(h in x for x in conds for h in hs) for hs in hints):
                near = spec
                continue
            if sat and sat <= cat and (near is None or all(_has(conds, c) for c in spec if not c.startswith(("re:", "n2re:")))):
                near = spec
        if near is None and cname in SUBJECT_FIELDS:
            # the documented test of the right member, applied to other symbols than the nonterminals (and not restricted to them by a test of term_p)
            import re as _re2
            rx = SUBJECT_FIELDS[cname]
            hit = [c for c in conds if _re2.search(rx, c)]
            if hit and not any("nonterm_get(" in c for c in hit) and not any(_re2.search(r"\.symb\.term_p\] == 0$", c) for c in conds):
                rep.violation("C10-codes", key, "%s is raised for %s: the documented check concerns the nonterminals (nonterm_get (i)); applied to every symbol it refuses "
                              "well-formed grammars (a declared terminal that no rule uses is `not accessible')" % (cname, hit[0]), where=i.where(), witness=[i.where()] + conds)
                continue
        if near is not None:
            missing = [c for c in near if not _has(conds, c)]
            shown = [SPEC_TEXT.get(c, c) for c in missing]
            rep.violation("C10-codes", key, "%s is raised under another predicate than documented: expected %s, the site is controlled by %s" % (
                cname, shown, [c for c in conds if (set(_atoms(c)) & set(a for x in missing for a in _atoms(x))) or any(x.startswith(("re:", "n2re:")) for x in missing)]),
                where=i.where(), witness=[i.where()] + conds)
        else:
            unclassified.add(cname)
            rep.broke("C10-codes", "site %s of %s is controlled by conditions of a structure the table does not know: %s" % (i.where(), cname, conds))
    # a defect documented without reference to the strictness of the check is detected in both modes
    for (cname, si), lst in sorted(modes.items()):
        if any("strict_p" in _atoms(c) for c in SPECS[cname][si]):
            continue
        pols = set()
        for (_, _, sc) in lst:
            pols.add(tuple(sorted(sc)))
        if () in pols or (("strict_p != 0",) in pols and ("strict_p == 0",) in pols):
            rep.ok("C10-codes", "modes/%s/%d" % (cname, si + 1), nontrivial=False)
        else:
            key, i, sc = lst[0]
            rep.violation("C10-codes", "modes/%s/%d" % (cname, si + 1), "%s is documented for every definition, but its only check runs under %s: the other mode accepts such a grammar" % (
                cname, sc), where=i.where(), witness=[i.where()] + sc)
    for cname, specs in sorted(SPECS.items()):
        for si, spec in enumerate(specs):
            key = "table/%s/%d" % (cname, si + 1)
            if (cname, si) in matched:
                rep.ok("C10-codes", key, nontrivial=False)
            elif cname in unclassified:
                pass
            else:
                rep.violation("C10-codes", key, "no reachable check implements the documented defect `%s' under %s: such a grammar is accepted (or rejected with another code)" % (
                    cname, [SPEC_TEXT.get(c, c) for c in spec] if spec else "a description syntax error"), where=m.functions["yaep_read_grammar"].where())
    rep.floor("C10-codes", "error sites of definition codes", n, 20)
    # the checks precede the success store
    rg = p.fn("yaep_read_grammar")
    succ = [s for s in rg.all_insts() if s.op == "store" and resolve_addr(rg, s.ops[1]).last_field() == "grammar.undefined_p" and const_int(s.ops[0]) == 0]
    chk = [i for i in rg.calls() if i.callee == "check_grammar"]
    if len(succ) == 1 and len(chk) == 1 and rg.inst_dominates(chk[0], succ[0]):
        rep.ok("C10-codes", "yaep_read_grammar/check-before-success")
    else:
        rep.violation("C10-codes", "yaep_read_grammar/check-before-success", "check_grammar does not precede the point where the grammar is marked defined", where=rg.where())


def rule_fixpoints(ctx, rep, config="c-lib"):
    rep.rule("R10", "fixpoint loops of the grammar analysis: every `changed' flag that is reset at the top of a do-while body is part of the loop condition, and an update "
                    "`flag |= old ^ new' / `flag |= f(x)' reads the old value of the field before the same iteration stores the new one")
    p = ctx.prog(config)
    FUNCS = ["set_empty_access_derives", "set_loop_p", "create_first_follow_sets", "expand_new_start_set"]
    n = 0
    for fn in FUNCS:
        f = p.fn(fn)
        rep.cover(p, [fn])
        for L in f.loops():
            # do-while: the condition is tested in a latch-side block whose branch goes back to the header
            for la in L["latches"]:
                t = f.bmap[la].term
                if t is None or t.op != "br" or len(t.ops) != 3:
                    continue
                # flags: phis of the header... after mem2reg a flag reset at body top is a phi chain; collect
                # the variables (by source name) whose value reaches the condition
                cond_vars = set()
                work = [t.ops[0]]
                seen = set()
                while work:
                    o = work.pop()
                    if o.get("k") != "i" or o["v"] in seen:
                        continue
                    seen.add(o["v"])
                    i = f.insts[o["v"]]
                    if i.d.get("var"):
                        cond_vars.add(i.d["var"])
                    if i.op in ("icmp", "or", "and", "zext", "trunc", "xor", "phi", "select"):
                        for x in (i.d.get("ops") or []) + [v for (v, _) in i.d.get("incoming", [])]:
                            work.append(x)
                # flags reset in the body: variables named *chang* with a constant-0 incoming at the loop header side
                flags = set()
                for bn in L["body"]:
                    for i in f.bmap[bn].insts:
                        v = i.d.get("var")
                        if _is_flag(f, v):
                            flags.add(v)
                if not flags:
                    continue
                for fl in sorted(flags):
                    n += 1
                    key = "%s/%s-in-condition" % (fn, fl)
                    # short-circuit conditions span several blocks: gather the conditions of all exit branches of the loop
                    exit_vars = set(cond_vars)
                    for bn in L["body"]:
                        tt = f.bmap[bn].term
                        if tt is not None and tt.op == "br" and len(tt.ops) == 3 and any(s not in L["body"] for s in f.bmap[bn].succs):
                            w2 = [tt.ops[0]]
                            s2 = set()
                            while w2:
                                o = w2.pop()
                                if o.get("k") != "i" or o["v"] in s2:
                                    continue
                                s2.add(o["v"])
                                ii = f.insts[o["v"]]
                                if ii.d.get("var"):
                                    exit_vars.add(ii.d["var"])
                                if ii.op in ("icmp", "or", "and", "zext", "trunc", "xor", "phi"):
                                    for x in (ii.d.get("ops") or []) + [v for (v, _) in ii.d.get("incoming", [])]:
                                        w2.append(x)
                    # also conditions evaluated in blocks leading to the latch test (a || b || c)
                    if fl in exit_vars or _flag_in_exit_chain(f, L, fl):
                        rep.ok("R10", key, sample={"function": fn, "flag": fl})
                    else:
                        rep.violation("R10", key, "the fixpoint loop of %s resets and sets `%s' but does not test it: the iteration stops although this property still changes" % (fn, fl),
                                      where=t.where())
        # accumulation: inside the loop a change flag is only reset (constant), set (constant) or OR-ed with itself
        for L in f.loops():
            for bn in L["body"]:
                for i in f.bmap[bn].insts:
                    v = i.d.get("var")
                    if not _is_flag(f, v) or i.op in ("phi", "alloca"):
                        continue
                    n += 1
                    key = "%s/%s-accumulates#%d" % (fn, v, n)
                    ok = False
                    if i.op == "or":
                        for o in i.ops:
                            oi = f.inst(strip_int_casts(f, o))
                            if oi is not None and oi.d.get("var") == v:
                                ok = True
                    if ok:
                        rep.ok("R10", key, nontrivial=True)
                    else:
                        rep.violation("R10", key, "the change flag `%s' is overwritten (not OR-ed) inside the fixpoint loop: a change recorded earlier in the same iteration is "
                                                  "lost and the iteration can stop before the fixpoint" % v, where=i.where(), witness=[i.where()])
        # old-before-new: `flag |= field ^ new; field = new' order
        for i in f.all_insts():
            if i.op != "xor" or i.ty == "i1":
                continue
            for o in i.ops:
                ld = f.inst(strip_int_casts(f, o))
                if ld is None or ld.op != "load":
                    continue
                fld = resolve_addr(f, ld.ops[0]).last_field()
                if not fld or not fld.startswith("symb."):
                    continue
                n += 1
                key = "%s/old-value-of-%s#%d" % (fn, fld.split(".")[-1], n)
                # a store to the same field of the same object in this block must come after the load
                early = [s for s in i.block.insts if s.op == "store" and resolve_addr(f, s.ops[1]).last_field() == fld and s.idx < ld.idx
                         and _same_obj(f, s.ops[1], ld.ops[0])]
                if early:
                    rep.violation("R10", key, "the change flag is computed from `%s' after the new value was stored into it (old ^ new is always 0): the fixpoint stops early" % fld,
                                  where=i.where(), witness=[early[0].where(), ld.where()])
                else:
                    rep.ok("R10", key, sample={"xor": i.where(), "field": fld})
    # the same accumulation rule in the helper whose result feeds the flags of FIRST / FOLLOW: term_set_or reports a change of any word
    f = p.fn("term_set_or")
    rep.cover(p, ["term_set_or"])
    nacc = 0
    for L in f.loops():
        for bn in L["body"]:
            for i in f.bmap[bn].insts:
                v = i.d.get("var")
                if not _is_flag(f, v) or i.op in ("phi", "alloca"):
                    continue
                nacc += 1
                ok = i.op == "or" and any((f.inst(strip_int_casts(f, o)) is not None and f.inst(strip_int_casts(f, o)).d.get("var") == v) for o in i.ops)
                if ok:
                    rep.ok("R10", "term_set_or/%s-accumulates#%d" % (v, nacc))
                else:
                    rep.violation("R10", "term_set_or/%s-accumulates#%d" % (v, nacc), "term_set_or overwrites its result `%s' for every word of the set: it reports only "
                                  "whether the last word changed -- with more terminals than bits in a word the FIRST / FOLLOW fixpoint stops while sets still grow" % v,
                                  where=i.where(), witness=[i.where()])
    phis = [i for L in f.loops() for i in f.bmap[L["header"]].insts if i.op == "phi" and _is_flag(f, i.d.get("var"))]
    if not phis and not nacc:
        raise AnalysisBroken("R10: the result flag of term_set_or was not found")
    if not nacc:
        rep.ok("R10", "term_set_or/result-accumulates", sample={"flag": phis[0].d.get("var"), "form": "set to a constant under the word's test"})
    # a store into the situations being iterated by the context fixpoint (new_sits[i]) is reported through the flag
    f = p.fn("expand_new_start_set")
    nst = 0
    dom = f.dominators() if hasattr(f, "dominators") else None
    for L in f.loops():
        flagphis = [i for bn in L["body"] for i in f.bmap[bn].insts if i.op == "phi" and _is_flag(f, i.d.get("var"))]
        if not flagphis:
            continue
        inner = [L2 for L2 in f.loops() if L2 is not L and set(L2["body"]) < set(L["body"]) and any(
            i.op == "phi" and _is_flag(f, i.d.get("var")) for bn in L2["body"] for i in f.bmap[bn].insts)]
        if inner:
            continue       # the innermost loop that carries the flag
        for bn in L["body"]:
            for s_ in f.bmap[bn].insts:
                if s_.op != "store":
                    continue
                pa = resolve_addr(f, s_.ops[1])
                bp = loaded_from(f, pa.root[1]) if pa.root[0] == "val" else None
                if bp is None or bp.root != ("g", "new_sits") or bp.steps or not pa.steps:
                    continue
                nst += 1
                setters = [pb for ph in flagphis for (v, pb) in ph.d["incoming"] if const_int(v) not in (None, 0)]
                good = any(pb == bn or _dominates(f, bn, pb) for pb in setters)
                # `flag |= (new != old)' form
                good = good or any(i.op == "or" and _is_flag(f, i.d.get("var")) and (b2 == bn or _dominates(f, bn, b2))
                                   for b2 in L["body"] for i in f.bmap[b2].insts)
                key = "expand_new_start_set/state-store-flagged#%d" % nst
                if good:
                    rep.ok("R10", key, sample={"store": s_.where()})
                else:
                    rep.violation("R10", key, "the context fixpoint replaces a situation of the set being built (new_sits[i]) without setting its change flag on that "
                                  "path: the iteration stops although a context still changed, situations keep a context that is too small and valid items are pruned "
                                  "at lookahead 2", where=s_.where(), witness=[s_.where()])
    rep.floor("R10", "stores into the iterated situations of the context fixpoint", nst, 1)
    # element loops: an early exit decided by something that does not change inside the loop makes the loop degenerate
    # (it looks at one element, or at an element of the enclosing loop, instead of at each of its own)
    for fn in FUNCS:
        f = p.fn(fn)
        for L in f.loops():
            hphis = set(i.id for i in f.bmap[L["header"]].insts if i.op == "phi")
            if not hphis:
                continue
            inner_defs = set(i.id for bn in L["body"] for i in f.bmap[bn].insts)
            for bn in sorted(L["body"]):
                if bn == L["header"]:
                    continue
                b = f.bmap[bn]
                t = b.term
                if t is None or t.op != "br" or len(t.ops) != 3 or all(s_ in L["body"] for s_ in b.succs):
                    continue
                # dependency closure of the condition inside the loop
                seen, work, dep = set(), [t.ops[0]], False
                calls = False
                while work:
                    o = work.pop()
                    if o.get("k") != "i" or o["v"] in seen:
                        continue
                    seen.add(o["v"])
                    if o["v"] in hphis:
                        dep = True
                        break
                    ii = f.insts.get(o["v"])
                    if ii is None or ii.id not in inner_defs:
                        continue
                    if ii.is_call():
                        calls = True
                    if ii.op == "phi" and len(set(repr(v) for (v, _) in ii.d["incoming"])) > 1:
                        dep = True     # the value depends on the path taken inside this iteration
                        break
                    for x in (ii.d.get("ops") or []) + [v for (v, _) in ii.d.get("incoming", [])] + ([ii.d["base"]] if "base" in ii.d else []) + \
                            [st[k] for st in ii.d.get("path", []) for k in ("idx", "ptr") if k in st] + list(ii.d.get("args") or []):
                        work.append(x)
                n += 1
                key = "%s/exit-depends-on-element@%s" % (fn, bn)
                if dep or calls:
                    rep.ok("R10", key, nontrivial=True)
                else:
                    rep.violation("R10", key, "a loop of %s is left by a test that does not depend on the loop's own element (nothing in the condition changes from one "
                                  "iteration to the next): the loop examines the wrong element -- e.g. the enclosing loop's -- instead of each of its own" % fn,
                                  where=t.where(), witness=[t.where()])
    # the same for a scan that is stopped through a flag instead of a break:  `if (cond) go_on = FALSE;'  -- cond depends on the loop's element
    for fn in FUNCS:
        f = p.fn(fn)
        idom = f.idom()
        for L in f.loops():
            hdr = f.bmap[L["header"]]
            hph = [i for i in hdr.insts if i.op == "phi"]
            flagish = []
            for h in hph:
                outside = [v for (v, pb) in h.d["incoming"] if pb not in L["body"]]
                if outside and all(const_int(v) is not None for v in outside) and h.ty in ("i32", "i8", "i1") and _only_constants(f, h, L):
                    flagish.append(h)
            for H in flagish:
                # is the flag read by a condition inside the loop (it steers later iterations)?
                steers = any(u.op == "icmp" or u.op == "br" for u in f.uses().get(H.id, []))
                if not steers:
                    continue
                for bn in sorted(L["body"]):
                    for P in f.bmap[bn].insts:
                        if P.op != "phi" or P is H or len(P.d["incoming"]) != 2:
                            continue
                        vals = [v for (v, _) in P.d["incoming"]]
                        if not (any(const_int(v) == 0 for v in vals) and any(strip_int_casts(f, v).get("v") == H.id for v in vals)):
                            continue
                        # P feeds H
                        if not any(strip_int_casts(f, v).get("v") == P.id or _reaches_phi(f, v, P.id, L) for (v, pb) in H.d["incoming"] if pb in L["body"]):
                            continue
                        d = idom.get(bn)
                        t = f.bmap[d].term if d else None
                        if t is None or t.op != "br" or len(t.ops) != 3:
                            continue
                        inner_defs = set(i.id for b2 in L["body"] for i in f.bmap[b2].insts)
                        others = set(x.id for x in hph if x is not H and x not in flagish)
                        seen, work, dep, calls = set(), [t.ops[0]], False, False
                        while work:
                            o = work.pop()
                            if o.get("k") != "i" or o["v"] in seen:
                                continue
                            seen.add(o["v"])
                            if o["v"] in others:
                                dep = True
                                break
                            ii = f.insts.get(o["v"])
                            if ii is None or ii.id not in inner_defs or ii.id == H.id:
                                continue
                            if ii.is_call():
                                calls = True
                            for x in (ii.d.get("ops") or []) + [v for (v, _) in ii.d.get("incoming", [])] + ([ii.d["base"]] if "base" in ii.d else []) + \
                                    [st[k] for st in ii.d.get("path", []) for k in ("idx", "ptr") if k in st] + list(ii.d.get("args") or []):
                                work.append(x)
                        n += 1
                        key = "%s/flag-stop-depends-on-element@%s" % (fn, bn)
                        if dep or calls:
                            rep.ok("R10", key, nontrivial=True)
                        else:
                            rep.violation("R10", key, "a scan of %s is stopped (its `go on' flag `%s' is cleared) by a test that does not depend on the scan's own element: "
                                          "the decision is taken from a value of the enclosing loop -- e.g. the rule's left-hand side instead of the symbol looked at" % (
                                              fn, H.d.get("var") or "?"), where=t.where(), witness=[t.where()])
    # accessibility reaches every symbol of a right-hand side: the loop that propagates it is not left early
    f = p.fn("set_empty_access_derives")
    acc = [s_ for s_ in f.all_insts() if s_.op == "store" and (resolve_addr(f, s_.ops[1]).last_field() or "").endswith("access_p") and const_int(s_.ops[0]) == 1]
    done_acc = False
    for L in sorted(f.loops(), key=lambda l_: len(l_["body"])):
        if not any(s_.block.name in L["body"] for s_ in acc):
            continue
        if done_acc:
            break
        done_acc = True
        n += 1
        early = [(bn, s_) for bn in L["body"] if bn != L["header"] for s_ in f.bmap[bn].succs if s_ not in L["body"]]
        if not early:
            rep.ok("R10", "set_empty_access_derives/rhs-scan-total", sample={"loop": f.bmap[L["header"]].term.where()})
        else:
            t_ = f.bmap[early[0][0]].term
            rep.violation("R10", "set_empty_access_derives/rhs-scan-total", "the loop over a rule's right-hand side, which also marks its symbols accessible, can be left early: "
                          "symbols behind the exit never become accessible through this rule (a wrong YAEP_UNACCESSIBLE_NONTERM in strict mode)", where=t_.where(), witness=[t_.where()])
    if not done_acc:
        raise AnalysisBroken("R10: the accessibility propagation loop was not found")
    # the two scans of set_loop_p skip their own position by index (a symbol may occur twice in a rule)
    nskip = 0
    helpers = [p.m.functions[c_.callee] for c_ in p.fn("set_loop_p").calls() if c_.callee in p.m.functions and not p.m.functions[c_.callee].decl
               and p.m.functions[c_.callee].module == p.fn("set_loop_p").module and c_.callee not in ("nonterm_get", "symb_get", "term_get")]
    for f in [p.fn("set_loop_p")] + helpers:
      for L in f.loops():
          hdr = f.bmap[L["header"]]
          own = [i for i in hdr.insts if i.op == "phi"]
          brk = [bn for bn in L["body"] if bn != L["header"] and any(s_ not in L["body"] for s_ in f.bmap[bn].succs)]
          loads_empty = any(i.op == "load" and (resolve_addr(f, i.ops[0]).last_field() or "").endswith("empty_p") for bn in L["body"] for i in f.bmap[bn].insts)
          inner = not any(L2 is not L and L2["header"] in L["body"] for L2 in f.loops())
          if not (own and brk and loads_empty and inner):
              continue
          nskip += 1
          n += 1
          key = "set_loop_p/skip-own-position#%d" % nskip
          okk = False
          for bn in L["body"]:
              for c_ in f.bmap[bn].insts:
                  if c_.op == "icmp" and c_.d["pred"] in ("eq", "ne"):
                      a_, b_ = f.inst(strip_int_casts(f, c_.ops[0])), f.inst(strip_int_casts(f, c_.ops[1]))
                      if a_ is not None and b_ is not None and a_.op == "phi" and b_.op == "phi" and (a_ in own) != (b_ in own):
                          okk = True
                      # in a helper the position to skip is a parameter
                      for (x_, y_) in ((c_.ops[0], c_.ops[1]), (c_.ops[1], c_.ops[0])):
                          xi_ = f.inst(strip_int_casts(f, x_))
                          if xi_ is not None and xi_ in own and strip_int_casts(f, y_).get("k") == "a":
                              okk = True
          if okk:
              rep.ok("R10", key, nontrivial=True)
          else:
              rep.violation("R10", key, "a scan of set_loop_p over the siblings of a right-hand side symbol does not skip its own position by comparing the two indices: "
                            "comparing symbols skips every occurrence of the symbol (`A : A A' is then taken for a unit cycle)", where=hdr.term.where(), witness=[hdr.term.where()])
    rep.floor("R10", "sibling scans of set_loop_p", nskip, 1)
    # every update of a set inside a fixpoint loop reports into the change flag
    nupd = 0
    for fn in FUNCS:
        f = p.fn(fn)
        for L in f.loops():
            for bn in L["body"]:
                for c_ in f.bmap[bn].insts:
                    if not (c_.is_call() and c_.callee in ("term_set_or", "term_set_up")):
                        continue
                    if any(bn in L2["body"] and len(L2["body"]) < len(L["body"]) for L2 in f.loops()):
                        continue   # counted for the innermost loop only
                    tp = loaded_from(f, c_.args[0])
                    if tp is None or not (tp.last_field() or "").endswith((".first", ".follow")):
                        continue   # a scratch set: the caller compares the result itself
                    nupd += 1
                    n += 1
                    key = "%s/update-reported#%d" % (fn, nupd)
                    used = False
                    work, seen = [c_.id], set()
                    while work:
                        x = work.pop()
                        if x in seen:
                            continue
                        seen.add(x)
                        for u in f.uses().get(x, []):
                            if u.op in ("or", "phi", "zext", "trunc", "icmp", "select"):
                                if _is_flag(f, u.d.get("var")):
                                    used = True
                                work.append(u.id)
                            elif u.op in ("br", "store"):
                                used = True
                    if used:
                        rep.ok("R10", key, nontrivial=True)
                    else:
                        rep.violation("R10", key, "%s updates a set inside the fixpoint loop of %s and drops the `changed' result: the iteration can stop while this update "
                                      "still propagates (FIRST / FOLLOW sets too small, valid items pruned at lookahead 1)" % (c_.callee, fn), where=c_.where(), witness=[c_.where()])
    # "did the scan run to the end?": the test after a loop with a break compares the loop's own counter with the loop's bound
    ncomp = 0
    for fn in FUNCS:
        f = p.fn(fn)
        for L in f.loops():
            hdr = f.bmap[L["header"]]
            t = hdr.term
            if t is None or len(t.ops) != 3:
                continue
            c = f.inst(t.ops[0])
            if c is None or c.op != "icmp":
                continue
            ind = f.inst(strip_int_casts(f, c.ops[0]))
            if ind is None or ind.op != "phi" or ind.block is not hdr:
                continue
            bound = expr.lin(f, c.ops[1], 0, 1)
            if bound.is_const():
                continue
            if not [bn for bn in L["body"] if bn != L["header"] and any(s_ not in L["body"] for s_ in f.bmap[bn].succs)]:
                continue
            outs = set(s_ for bn in L["body"] for s_ in f.bmap[bn].succs if s_ not in L["body"])
            seen, work = set(), [(o, 0) for o in outs]
            while work:
                bn, d = work.pop()
                if bn in seen or d > 2:
                    continue
                seen.add(bn)
                for i in f.bmap[bn].insts:
                    if i.op != "icmp":
                        continue
                    for (x, y) in ((0, 1), (1, 0)):
                        b_ = expr.lin(f, i.ops[y], 0, 1)
                        v_ = f.inst(strip_int_casts(f, i.ops[x]))
                        if set(b_.t.items()) == set(bound.t.items()) and v_ is not None and v_.op == "phi":
                            ncomp += 1
                            n += 1
                            key = "%s/scan-completed-test#%d" % (fn, ncomp)
                            if v_.id == ind.id and b_.c == bound.c:
                                rep.ok("R10", key, sample={"loop": t.where(), "test": i.where()})
                            else:
                                rep.violation("R10", key, "after the scan loop at %s (left early by a break) the test whether the scan reached the end compares %s with the "
                                              "bound, not the scan's own counter at its bound: the decision `everything behind is nullable / all siblings are empty' is taken "
                                              "from the position in the enclosing loop" % (t.where(), "another variable" if v_.id != ind.id else "the counter with another value"),
                                              where=i.where(), witness=[t.where(), i.where()])
                for s_ in f.bmap[bn].succs:
                    work.append((s_, d + 1))
    rep.floor("R10", "scan-completed tests", ncomp, 1)
    rep.floor("R10", "fixpoint obligations", n, 8)


_FLAGS = {}


def _is_flag(f, v):
    """is the source variable v a change flag of f?  By name (`chang' in it), or by role: a variable whose truth value is the continue-condition of a do-while
    loop (`do { ... } while (more);'), or the variable a boolean helper returns (term_set_or)"""
    if not v:
        return False
    if "chang" in v:
        return True
    key = (id(f), f.name)
    if key not in _FLAGS:
        names = set()
        for L in f.loops():
            for la in L["latches"]:
                t = f.bmap[la].term
                if t is None or t.op != "br" or len(t.ops) != 3:
                    continue
                c = f.inst(t.ops[0])
                # a truth test of one variable: icmp ne x, 0 (or the i1 itself)
                x = None
                if c is not None and c.op == "icmp" and c.d["pred"] in ("ne", "eq") and const_int(c.ops[1]) == 0:
                    x = f.inst(strip_int_casts(f, c.ops[0]))
                if x is not None and x.op in ("phi", "or", "zext", "select") and x.d.get("var") and x.ty in ("i32", "i8", "i1"):
                    names.add(x.d["var"])
        if f.name == "term_set_or":
            for r in f.all_insts():
                if r.op == "ret" and r.ops:
                    x = f.inst(strip_int_casts(f, r.ops[0]))
                    if x is not None and x.d.get("var"):
                        names.add(x.d["var"])
        _FLAGS[key] = names
    return v in _FLAGS[key]


def _flag_in_exit_chain(f, L, flag):
    for bn in L["body"]:
        tt = f.bmap[bn].term
        if tt is None or tt.op != "br" or len(tt.ops) != 3:
            continue
        c = f.inst(tt.ops[0])
        while c is not None and c.op in ("icmp", "zext", "trunc"):
            nxt = f.inst(c.ops[0])
            if nxt is None:
                break
            c = nxt
            if c.d.get("var") == flag:
                # the branch must be able to continue the loop
                return True
        if c is not None and c.d.get("var") == flag:
            return True
    return False


def _same_obj(f, a1, a2):
    p1, p2 = resolve_addr(f, a1), resolve_addr(f, a2)
    return p1.root == p2.root or (p1.root[0] == "val" and p2.root[0] == "val" and strip_casts(f, p1.root[1]) == strip_casts(f, p2.root[1]))


def _dominates(f, a, b):
    idom = f.idom()
    cur = b
    while cur is not None:
        if cur == a:
            return True
        cur = idom.get(cur)
    return False


def _reaches_phi(f, v, target, L, depth=0):
    x = f.inst(strip_int_casts(f, v))
    if x is None or depth > 4 or x.op != "phi" or x.block.name not in L["body"]:
        return False
    if x.id == target:
        return True
    return any(_reaches_phi(f, w, target, L, depth + 1) for (w, _) in x.d["incoming"])


def _only_constants(f, h, L):
    """a header phi whose values are constants only (a flag), not computed (a counter)"""
    seen, work = set([h.id]), [v for (v, pb) in h.d["incoming"] if pb in L["body"]]
    while work:
        v = work.pop()
        if const_int(v) is not None:
            continue
        x = f.inst(strip_int_casts(f, v))
        if x is None:
            return False
        if x.id in seen:
            continue
        seen.add(x.id)
        if x.op == "phi" and x.block.name in L["body"]:
            work.extend(w for (w, _) in x.d["incoming"])
        elif x.op == "select":
            work.extend(x.ops[1:3])
        else:
            return False
    return True


def _negated(c):
    if c.endswith(" != 0"):
        return c[:-5] + " == 0"
    if c.endswith(" == 0"):
        return c[:-5] + " != 0"
    if " == " in c:
        return c.replace(" == ", " != ", 1)
    if " != " in c:
        return c.replace(" != ", " == ", 1)
    return "not(" + c + ")"


ADDERS = ("symb_add_term", "symb_add_nonterm")


def rule_fresh_names(ctx, rep, config="c-lib"):
    rep.rule("C10-fresh", "a symbol is entered into the tables (symb_add_term / symb_add_nonterm) only for a name that was looked up (symb_find_by_repr of the same name) "
                          "and found absent, and nothing but the library's own other fixed names is entered between that lookup and the insertion -- a lookup made "
                          "before names of the user are entered says nothing about the table at the insertion: a reserved name taken by the user in between is "
                          "overwritten silently and the definition is accepted")
    from .r14 import path_exists
    p = ctx.prog(config)
    m = p.m
    n = 0
    for f in m.defined():
        adds = [i for i in f.calls() if i.callee in ADDERS]
        if not adds or f.name in ADDERS:
            continue
        rep.cover(p, [f.name])
        looks = [i for i in f.calls() if i.callee == "symb_find_by_repr"]

        def _addr(op):
            expr.NAMED[0] = True
            expr.ROLES[0] = roles_of(f)
            try:
                return expr.addr_str(f, op, 0, 4)
            finally:
                expr.NAMED[0] = False
                expr.ROLES[0] = None

        def _cells(op, depth=0):
            """the memory cells read to form the value (chain of loads)"""
            i = f.inst(strip_casts(f, op))
            if i is None or i.op != "load" or depth > 3:
                return []
            return [i.ops[0]] + _cells(i.ops[0], depth + 1)

        def same_name(K, A):
            a, b = K.args[0], A.args[0]
            sa, sb = m.string_of(a), m.string_of(b)
            if sa is not None or sb is not None:
                return sa == sb
            if strip_casts(f, a) == strip_casts(f, b):
                return True
            if repr(_lin(f, a)) != repr(_lin(f, b)):
                return False
            # the same expression over memory: nothing it reads is written between the lookup and the insertion
            cells = set(_addr(c) for c in _cells(b))
            for st in f.all_insts():
                if st.op == "store" and _addr(st.ops[1]) in cells and path_exists(f, K, st, [A]) and path_exists(f, st, A, [K]):
                    return False
            return True

        def is_result(x, K, depth=0):
            """x is the result of the lookup K, directly or read back from where it was stored"""
            x = strip_casts(f, x)
            if x.get("k") == "i" and x["v"] == K.id:
                return True
            ix = f.inst(x)
            if ix is None or depth > 1:
                return False
            if ix.op == "load":
                a = _addr(ix.ops[0])
                for s_ in f.all_insts():
                    if s_.op == "store" and is_result(s_.ops[0], K, depth + 1) and f.inst_dominates(s_, ix) and _addr(s_.ops[1]) == a:
                        return True
            return False

        for A in adds:
            n += 1
            key = "%s/%s@%s" % (f.name, A.callee, A.where().rsplit("/", 1)[-1])
            name = A.args[0]
            conds = _controlling_conditions(f, A.block.name)
            found = None
            for K in looks:
                if not f.inst_dominates(K, A) or not same_name(K, A):
                    continue
                for (c, pol) in conds:
                    if c.op != "icmp" or c.d["pred"] not in ("eq", "ne"):
                        continue
                    for (x, y) in ((0, 1), (1, 0)):
                        if c.ops[y].get("k") == "null" or const_int(c.ops[y]) == 0:
                            if is_result(c.ops[x], K) and pol == (c.d["pred"] == "eq"):
                                found = K
                if found is not None:
                    break
            if found is None:
                rep.violation("C10-fresh", key, "the insertion is not controlled by `symb_find_by_repr (<the same name>) == NULL': a name that is in the table already "
                              "(the user's, or a reserved one) is entered a second time", where=A.where(), witness=[A.where()])
                continue
            between = []
            myname = m.string_of(name)
            for O in adds:
                if O is A:
                    continue
                oname = m.string_of(O.args[0])
                if oname is not None and myname is not None and oname != myname:
                    continue      # another fixed name of the library
                if oname is not None and myname is None:
                    pass          # a fixed name entered between the lookup of a user's name and its insertion could be that name
                if path_exists(f, found, O, [A]) and path_exists(f, O, A, [found]):
                    between.append(O)
            if between:
                rep.violation("C10-fresh", key, "between the lookup %s and the insertion other names are entered (%s): the lookup does not show that the name is absent "
                              "when it is entered -- a symbol of the user with this name is overwritten and the definition accepted" % (
                                  found.where(), ", ".join(o.where() for o in between)), where=A.where(), witness=[found.where()] + [o.where() for o in between] + [A.where()])
            else:
                rep.ok("C10-fresh", key, sample={"insertion": A.where(), "lookup": found.where()})
    rep.floor("C10-fresh", "symbol insertions", n, 6)
