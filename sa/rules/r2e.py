"""R2e -- redefinition: every definition starts from an emptied object, and `empty'
resets everything `init' sets up."""
from ..model import resolve_addr, strip_casts, const_int, loaded_from
from ..core import AnalysisBroken

PAIRS = [("symb_init", "symb_empty", "symbs"), ("term_set_init", "term_set_empty", "term_sets"), ("rule_init", "rule_empty", "rules")]
ADDERS = ("symb_add_term", "symb_add_nonterm", "rule_new_start", "term_set_create", "term_set_insert")


def _obj_field(f, addr, root_pred):
    """first field step of an address rooted at the object (root_pred(root) true)"""
    p = resolve_addr(f, addr)
    if not root_pred(p.root):
        return None, None
    fl = p.fields()
    if not fl:
        return None, None
    return fl[0], fl[1:]


def init_effects(p, f):
    """for a `T *X_init(void)': per field of T, what init sets up"""
    eff = {}
    # the object is the result of yaep_malloc
    from .r3 import returned_values
    rv = [f.inst(strip_casts(f, v)) for (v, b, t) in returned_values(f)]
    rv = [x for x in rv if x is not None and x.is_call() and x.callee in ("yaep_malloc", "yaep_calloc")]
    if len(rv) != 1:
        raise AnalysisBroken("%s: the returned container object is not a single yaep_malloc result" % f.name)
    obj = rv[0].id

    def rootp(r):
        if r[0] == "val":
            o = strip_casts(f, r[1])
            return o == {"k": "i", "v": obj}
        return False
    for i in f.all_insts():
        if i.op == "store":
            fld, rest = _obj_field(f, i.ops[1], rootp)
            if fld is None:
                continue
            v = strip_casts(f, i.ops[0])
            vi = f.inst(v)
            if rest:
                # store into an embedded container's field: VLO_CREATE / (C) OS struct
                if rest[0].endswith(".vlo_start") and vi is not None and vi.is_call() and vi.callee == "yaep_malloc":
                    eff[fld] = ("vlo",)
                continue
            c = const_int(v)
            if c is not None:
                eff[fld] = ("const", c)
            elif v.get("k") == "null":
                eff[fld] = ("const", 0)
            elif vi is not None and vi.is_call() and vi.callee == "create_hash_table":
                eff[fld] = ("htab",)
            elif vi is not None and vi.is_call() and vi.callee and "hash_table" in vi.callee:
                eff[fld] = ("htab",)
        elif i.is_call() and i.callee == "_OS_create_function":
            fld, rest = _obj_field(f, i.args[0], rootp)
            if fld is not None:
                eff[fld] = ("os",)
    return eff


def _unconditional(f, inst):
    """executed whenever the function does anything: its block post-dominates every block in which
    work starts (the first blocks with a store or call reached from the entry)"""
    busy = set(b.name for b in f.rblocks() if any(i.op == "store" or (i.is_call() and not (i.callee or "").startswith("llvm.dbg")) for i in b.insts))
    first = set()
    st = [f.entry.name]
    seen = set()
    while st:
        n = st.pop()
        if n in seen:
            continue
        seen.add(n)
        if n in busy:
            first.add(n)
            continue
        st.extend(f.bmap[n].succs)
    return all(inst.block.name == fb or f.postdominates(inst.block.name, fb) for fb in first)


def empty_effects(p, f):
    eff = {}

    def rootp(r):
        return r == ("a", 0)
    for i in f.all_insts():
        if (i.op == "store" or i.is_call()) and not _unconditional(f, i):
            continue
        if i.op == "store":
            fld, rest = _obj_field(f, i.ops[1], rootp)
            if fld is None:
                continue
            v = strip_casts(f, i.ops[0])
            if rest:
                if rest[0].endswith(".vlo_free"):
                    lp = loaded_from(f, v)
                    if lp is not None and lp.root == ("a", 0) and lp.fields()[:1] == [fld] and lp.fields()[-1].endswith(".vlo_start"):
                        eff[fld] = ("vlo",)
                continue
            c = const_int(v)
            if c is not None:
                eff[fld] = ("const", c)
            elif v.get("k") == "null":
                eff[fld] = ("const", 0)
        elif i.is_call():
            if i.callee == "_OS_empty_function":
                fld, rest = _obj_field(f, i.args[0], rootp)
                if fld is not None:
                    eff[fld] = ("os",)
            elif i.callee == "empty_hash_table":
                lp = loaded_from(f, i.args[0])
                if lp is not None and lp.root == ("a", 0) and len(lp.fields()) == 1:
                    eff[lp.fields()[0]] = ("htab",)
    return eff


def rule_R2e(ctx, rep, config="c-lib"):
    rep.rule("R2e", "(1) in yaep_read_grammar an unconditional call of yaep_empty_grammar (which empties rules, terminal sets and symbols of the current grammar) "
                    "dominates every call that adds a symbol, rule or terminal set; (2) for symb/term_set/rule: every scalar field `init' sets is set to the same "
                    "constant by `empty', every container `init' creates is reset by `empty'")
    p = ctx.prog(config)
    rg = p.fn("yaep_read_grammar")
    rep.cover(p, ["yaep_read_grammar", "yaep_empty_grammar"] + [x for pr in PAIRS for x in pr[:2]])
    eg = p.fn("yaep_empty_grammar")
    # (1)
    empties = [i for i in rg.calls() if i.callee == "yaep_empty_grammar"]
    adders = [i for i in rg.calls() if any(t in p.reach(c) for c in p.call_targets(rg, i) for t in ADDERS)]
    if len(adders) < 4:
        raise AnalysisBroken("yaep_read_grammar: fewer than 4 symbol/rule adding call sites found")
    bad = [a for a in adders if not any(rg.inst_dominates(e, a) for e in empties)]
    if bad:
        rep.violation("R2e", "yaep_read_grammar/empties-first", "a definition can add symbols/rules to an object that still holds the remains of an earlier (failed or "
                      "successful) definition: yaep_empty_grammar does not precede this call on every path", witness=[b.where() for b in bad[:3]] +
                      ["yaep_empty_grammar called at " + e.where() + " (conditional)" for e in empties], where=rg.where())
    else:
        rep.ok("R2e", "yaep_read_grammar/empties-first", sample={"empty_call": empties[0].where(), "adding_sites": len(adders)})
    # yaep_empty_grammar empties all three
    called = set(i.callee for i in eg.calls())
    for (ini, emp, ty) in PAIRS:
        key = "yaep_empty_grammar/" + emp
        if emp in called:
            rep.ok("R2e", key)
        else:
            rep.violation("R2e", key, "yaep_empty_grammar does not call %s" % emp, where=eg.where())
    # (2)
    n = 0
    for (ini, emp, ty) in PAIRS:
        fi, fe = p.fn(ini), p.fn(emp)
        ie, ee = init_effects(p, fi), empty_effects(p, fe)
        for fld, what in sorted(ie.items()):
            n += 1
            key = "%s~%s/%s" % (ini, emp, fld.split(".")[-1])
            got = ee.get(fld)
            if got == what:
                rep.ok("R2e", key, sample={"field": fld, "init": what, "empty": got})
            elif fld.endswith("symb_code_trans_vect") and _frees_and_nulls(p, fe, fld):
                rep.ok("R2e", key, sample={"field": fld, "init": what, "empty": "freed and set to NULL"})
            else:
                rep.violation("R2e", key, "%s sets up `%s' (%s) but %s %s: a redefined object differs from a fresh one" % (
                    ini, fld, what[0] + ("=%d" % what[1] if what[0] == "const" else ""), emp,
                    "does not reset it" if got is None else "resets it differently (%s)" % (got,)), where=fe.where())
    rep.floor("R2e", "init/empty field pairs", n, 14)


def _frees_and_nulls(p, f, fld):
    fr = False
    nul = False
    for i in f.all_insts():
        if i.is_call() and i.callee == "yaep_free":
            lp = loaded_from(f, i.args[1])
            if lp is not None and lp.last_field() == fld and lp.root == ("a", 0):
                fr = True
        if i.op == "store" and i.ops[0].get("k") == "null":
            pa = resolve_addr(f, i.ops[1])
            if pa.last_field() == fld and pa.root == ("a", 0):
                nul = True
    return fr and nul
