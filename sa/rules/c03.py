"""C03 -- structural clauses of the all-parses DAG (the set equality itself is not decided).

  alt-not-alt   an ALT node's `node' member never receives an ALT node (typestate of node values);
  candidates    with all parses requested the enumeration of the reduce situations of a
                nonterminal runs over all of them (the only early exit is under one_parse_p);
  reuse         an abstract node found in the table of (rule, origin, end) is reused only when the
                lookup said `found', a new one is entered into the table entry that was reserved."""
from ..model import resolve_addr, strip_casts, strip_int_casts, const_int, loaded_from
from ..core import AnalysisBroken
from .. import expr
from .r5 import _controlling_conditions
from .r13 import via_global, cast_aliases

NONALT, ALT, UNKNOWN = "non-ALT", "ALT", "unknown"


class Kinds(object):
    def __init__(self, p, alt_code):
        self.p = p
        self.alt = alt_code
        self.memo = {}
        self.assumed = set()
        self.notes = []

    # -- carriers --------------------------------------------------------------------------
    def field_kind(self, fld):
        """kind of everything stored into a struct field (over the whole library)"""
        key = ("fld", fld)
        if key in self.memo:
            return self.memo[key]
        self.memo[key] = NONALT   # inductive assumption while the stores are examined
        res = NONALT
        n = 0
        for f in self.p.m.defined():
            for s in f.all_insts():
                if s.op == "store" and resolve_addr(f, s.ops[1]).last_field() == fld:
                    n += 1
                    k = self.kind(f, s.ops[0], s)
                    if k != NONALT:
                        res = k if res == NONALT else res
                        self.notes.append("%s <- %s value at %s" % (fld, k, s.where()))
        self.memo[key] = res
        return res

    def param_kind(self, g, k):
        key = ("par", g.name, k)
        if key in self.memo:
            return self.memo[key]
        self.memo[key] = NONALT
        res = NONALT
        n = 0
        for f in self.p.m.defined():
            for c in f.calls():
                if c.callee == g.name and len(c.args) > k:
                    n += 1
                    kk = self.kind(f, c.args[k], c)
                    if kk != NONALT:
                        res = kk
                        self.notes.append("argument %d of %s is a %s value at %s" % (k, g.name, kk, c.where()))
        if n == 0:
            res = UNKNOWN
        self.memo[key] = res
        return res

    def ret_kind(self, g, arg0_nonalt=False):
        key = ("ret", g.name, arg0_nonalt)
        if key in self.memo:
            return self.memo[key]
        self.memo[key] = NONALT
        res = NONALT
        for r in g.all_insts():
            if r.op != "ret" or not r.ops:
                continue
            v = g.inst(strip_casts(g, r.ops[0]))
            incoming = [(val, pb) for (val, pb) in v.d["incoming"]] if (v is not None and v.op == "phi" and v.block is r.block) else [(r.ops[0], None)]
            for (val, pb) in incoming:
                if arg0_nonalt and pb is not None and self._under_alt_case(g, pb):
                    continue   # this return is reached only when the argument's type is ALT
                k = self.kind(g, val, r, arg0_nonalt=arg0_nonalt)
                if k != NONALT:
                    res = k
                    self.notes.append("%s returns a %s value (%s)" % (g.name, k, r.where()))
        self.memo[key] = res
        return res

    def _under_alt_case(self, g, bname):
        """is block bname reached only through the `case YAEP_ALT' edge of a switch on the type of parameter 0?"""
        for b in g.rblocks():
            t = b.term
            if t is None or t.op != "switch":
                continue
            lp = loaded_from(g, t.d["cond"])
            if lp is None or not (lp.last_field() or "").endswith("type") or not self._is_param0(g, lp.root):
                continue
            for (cv, tgt) in t.d.get("cases", []):
                if cv == self.alt:
                    others = [x for (c2, x) in t.d.get("cases", []) if c2 != self.alt] + [t.d.get("default")]
                    if tgt not in others and g.dominates(tgt, bname):
                        return True
        return False

    def _is_param0(self, g, root):
        if root == ("a", 0):
            return True
        if root[0] == "val":
            l_ = g.inst(strip_casts(g, root[1]))
            if l_ is not None and l_.op == "load":
                pa = resolve_addr(g, l_.ops[0])
                if pa.root[0] == "alloca" and not pa.steps:
                    sts = self._alloca_stores(g, pa.root[1])
                    return len(sts) == 1 and strip_casts(g, sts[0].ops[0]) == {"k": "a", "v": 0}
        return False

    def _alloca_stores(self, g, aid):
        return [s for s in g.all_insts() if s.op == "store" and (lambda q: q.root == ("alloca", aid) and not q.steps)(resolve_addr(g, s.ops[1]))]

    # -- values ----------------------------------------------------------------------------
    def kind(self, f, op, at, arg0_nonalt=False, depth=0):
        if depth > 12:
            return UNKNOWN
        o = strip_casts(f, op)
        k = o.get("k")
        if k == "null":
            return NONALT
        if k == "a":
            if arg0_nonalt and o["v"] == 0:
                return NONALT
            return self.param_kind(f, o["v"])
        if k != "i":
            return UNKNOWN
        i = f.inst(o)
        if i is None:
            return UNKNOWN
        # a guard on the type of the same value / of a reload of the same place
        if at is not None and (self._guarded_nonalt(f, i, at) or self._edge_guarded(f, i, at)):
            return NONALT
        if i.op == "alloca":
            return NONALT if not self._type_stores(f, i, want_alt=True) else ALT
        if i.is_call():
            if via_global(f, i, "parse_alloc"):
                ts = self._type_stores(f, i)
                if ts and all(c is not None and c != self.alt for c in ts):
                    return NONALT
                if ts and any(c == self.alt for c in ts):
                    return ALT
                # a copy of another node
                for u_id in cast_aliases(f, {"k": "i", "v": i.id}):
                    for u in f.uses().get(u_id, []):
                        if u.is_call() and (u.callee or "").startswith("llvm.memcpy") and strip_casts(f, u.args[0]).get("v") in cast_aliases(f, {"k": "i", "v": i.id}):
                            return self.kind(f, u.args[1], u, arg0_nonalt, depth + 1)
                return UNKNOWN
            if i.callee:
                g = self.p.m.functions.get(i.callee)
                if g is not None and not g.decl:
                    a0 = self.kind(f, i.args[0], i, arg0_nonalt, depth + 1) == NONALT if i.args else False
                    return self.ret_kind(g, arg0_nonalt=a0)
            return UNKNOWN
        if i.op == "phi":
            res = NONALT
            for (v, pb) in i.d["incoming"]:
                if v.get("k") in ("undef",):
                    continue
                kk = self.kind(f, v, None, arg0_nonalt, depth + 1) if strip_casts(f, v).get("v") != i.id else NONALT
                if kk != NONALT:
                    res = kk
            return res
        if i.op == "select":
            a, b = self.kind(f, i.ops[1], at, arg0_nonalt, depth + 1), self.kind(f, i.ops[2], at, arg0_nonalt, depth + 1)
            return NONALT if a == b == NONALT else (ALT if ALT in (a, b) else UNKNOWN)
        if i.op == "load":
            pa = resolve_addr(f, i.ops[0])
            lf = pa.last_field()
            if lf and lf.endswith("yaep_alt.node"):
                return NONALT          # the invariant itself (induction over the stores)
            if lf and lf.endswith("yaep_alt.next"):
                return ALT
            if lf == "parse_state.anode":
                return self.field_kind("parse_state.anode")
            if pa.root[0] == "alloca" and not pa.steps:
                # a local whose address is taken: everything stored into it
                res = NONALT
                sts = self._alloca_stores(f, pa.root[1])
                for s in sts:
                    kk = self.kind(f, s.ops[0], s, arg0_nonalt, depth + 1)
                    if kk != NONALT:
                        res = kk
                return res if sts else UNKNOWN
            if pa.root[0] == "val" and pa.steps and pa.steps[-1][0] in ("idx", "ptr") and not pa.fields():
                # element of a local array of nodes: what is stored into that array
                base = strip_casts(f, pa.root[1])
                res = NONALT
                n = 0
                for s in f.all_insts():
                    if s.op == "store":
                        sp = resolve_addr(f, s.ops[1])
                        if sp.root[0] == "val" and strip_casts(f, sp.root[1]) == base and sp.steps and sp.steps[-1][0] in ("idx", "ptr") and not sp.fields():
                            n += 1
                            kk = self.kind(f, s.ops[0], s, arg0_nonalt, depth + 1)
                            if kk != NONALT:
                                res = kk
                return res if n else UNKNOWN
            return UNKNOWN
        return UNKNOWN

    def _type_stores(self, f, i, want_alt=False):
        """constants stored into the `type' member through a pointer (and its casts)"""
        ids = cast_aliases(f, {"k": "i", "v": i.id})
        out = []
        for s in f.all_insts():
            if s.op != "store":
                continue
            pa = resolve_addr(f, s.ops[1])
            root_id = pa.root[1].get("v") if pa.root[0] == "val" else (pa.root[1] if pa.root[0] == "alloca" else None)
            if root_id in ids and (pa.last_field() or "").endswith("yaep_tree_node.type"):
                out.append(const_int(s.ops[0]))
        if want_alt:
            return [c for c in out if c == self.alt]
        return out

    def _edge_guarded(self, f, i, at):
        """every way into the block of `at' carries the fact `value is NULL' or `type of value != YAEP_ALT'
        (the exits of  `for (; v != NULL && v->type == YAEP_ALT; ..)', including the phi-merged form of `&&')"""
        b = at.block
        preds = [x for x in b.preds if f.reachable(x)]
        if not preds:
            return False

        def proves(c, truth):
            """icmp c evaluated to `truth' implies NULL / non-ALT for value i"""
            if c is None or c.op != "icmp" or c.d["pred"] not in ("eq", "ne"):
                return False
            equal = (c.d["pred"] == "eq") == truth
            a0 = strip_casts(f, c.ops[0])
            if strip_casts(f, c.ops[1]).get("k") == "null" and a0.get("v") == i.id:
                return equal
            tl = f.inst(a0)
            if const_int(c.ops[1]) == self.alt and tl is not None and tl.op == "load":
                tp = resolve_addr(f, tl.ops[0])
                if (tp.last_field() or "").endswith("yaep_tree_node.type") and tp.root[0] == "val" and strip_casts(f, tp.root[1]).get("v") == i.id:
                    return not equal
            return False

        def branch_fact(pn, target):
            t = f.bmap[pn].term
            if t is None or t.op != "br" or len(t.ops) != 3:
                return None
            return (f.inst(t.ops[0]), t.ops[2]["v"] == target, t.ops[0])
        for pn in preds:
            bf = branch_fact(pn, b.name)
            if bf is None:
                return False
            c, truth, cop = bf
            if c is not None and c.op == "phi":
                # `a && b' merged: every feasible incoming path must prove the fact
                for (v, q) in c.d["incoming"]:
                    k = const_int(v)
                    if k is not None:
                        if bool(k) != truth:
                            continue          # this path goes to the other successor
                        qf = branch_fact(q, pn)
                        if qf is None or not proves(qf[0], qf[1]):
                            return False
                    else:
                        if not proves(f.inst(v), truth):
                            return False
                continue
            if not proves(c, truth):
                return False
        return True

    def _guarded_nonalt(self, f, i, at):
        """the use `at' is controlled by  type(<same value or a load of the same place>) != YAEP_ALT"""
        places = []
        if i.op == "load":
            pa = resolve_addr(f, i.ops[0])
            places.append((pa.root, tuple(pa.steps)))
        for (c, pol) in _controlling_conditions(f, at.block.name):
            if const_int(c.ops[1]) != self.alt or c.d["pred"] not in ("eq", "ne") or (c.d["pred"] == "ne") != pol:
                continue
            t = f.inst(strip_casts(f, c.ops[0]))
            if t is None or t.op != "load":
                continue
            tp = resolve_addr(f, t.ops[0])
            if not (tp.last_field() or "").endswith("yaep_tree_node.type"):
                continue
            if tp.root[0] != "val":
                continue
            holder = f.inst(strip_casts(f, tp.root[1]))
            if holder is None:
                continue
            if holder.id == i.id:
                return True
            if holder.op == "load":
                hp = resolve_addr(f, holder.ops[0])
                if (hp.root, tuple(hp.steps)) in places:
                    return True
        return False


def rule_alt_not_alt(ctx, rep, config="c-lib"):
    rep.rule("C03-alt", "an ALT node's alternative is never itself an ALT node: every value stored into the member `val.alt.node' is a node whose type is known not to be "
                        "YAEP_ALT -- a fresh parse_alloc block whose type member receives another constant (or a copy of such a node), the NIL / ERROR / TERM / abstract "
                        "nodes kept in locals, in the per-token array and in parse states, a value tested `type != YAEP_ALT' on the way, or the result of "
                        "prune_to_minimal applied to such a node (its ALT branch is taken only for ALT arguments)")
    p = ctx.prog(config)
    from .r11 import KINDS
    alt = [v for v, nme in KINDS.items() if nme == "YAEP_ALT"][0]
    K = Kinds(p, alt)
    n = 0
    for f in p.m.defined():
        for s in f.all_insts():
            if s.op != "store" or not (resolve_addr(f, s.ops[1]).last_field() or "").endswith("yaep_alt.node"):
                continue
            n += 1
            rep.cover(p, [f.name])
            key = "%s/alt.node#%d" % (f.name, n)
            K.notes = []
            k = K.kind(f, s.ops[0], s)
            if k == NONALT:
                rep.ok("C03-alt", key, sample={"store": s.where()})
            else:
                rep.violation("C03-alt", key, "an ALT node's alternative can be %s ALT node here: %s" % ("an" if k == ALT else "(not provably not) an", "; ".join(K.notes[:4]) or
                              "the stored value is not one of the known non-ALT node sources"), where=s.where(), witness=[s.where()] + K.notes[:6])
    rep.floor("C03-alt", "stores into val.alt.node", n, 4)


def rule_candidates(ctx, rep, config="c-lib"):
    rep.rule("C03-candidates", "make_parse enumerates, for a nonterminal before the dot, all reduce situations of the set: the loop runs i = 0, 1, .. < reduces.len and every "
                               "other exit of the loop is taken only when one parse is requested (one_parse_p != 0)")
    p = ctx.prog(config)
    f = p.fn("make_parse")
    rep.cover(p, [f.name])
    loops = []
    for L in f.loops():
        t = f.bmap[L["header"]].term
        c = f.inst(t.ops[0]) if (t is not None and len(t.ops) == 3) else None
        if c is None or c.op != "icmp":
            continue
        lp = loaded_from(f, c.ops[1])
        if lp is not None and (lp.last_field() or "").endswith("vect.len") and "reduces" in (lp.last_field() or "") + "".join(st[1] for st in lp.steps if st[0] == "f"):
            loops.append((L, c))
    if len(loops) != 1:
        raise AnalysisBroken("C03-candidates: %d loops over reduces.len in make_parse (1 confirmed by reading)" % len(loops))
    L, c = loops[0]
    ind = f.inst(strip_casts(f, c.ops[0]))
    ok_ind = False
    if ind is not None and ind.op == "phi" and c.d["pred"] == "slt":
        init = [const_int(v) for (v, pb) in ind.d["incoming"] if pb not in L["body"]]
        steps = []
        for (v, pb) in ind.d["incoming"]:
            if pb in L["body"]:
                l_ = expr.lin(f, v, 0, 0)
                steps.append(l_)
        ok_ind = init == [0] and all(len(s.t) == 1 and s.c == 1 and list(s.t.values()) == [1] for s in steps) and bool(steps)
    if ok_ind:
        rep.ok("C03-candidates", "make_parse/all-reduce-situations", sample={"loop": f.bmap[L["header"]].term.where()})
    else:
        rep.violation("C03-candidates", "make_parse/all-reduce-situations", "the enumeration of the reduce situations does not run over 0 .. reduces.len - 1 in steps of one",
                      where=f.bmap[L["header"]].term.where())
    n = 0
    for bn in sorted(L["body"]):
        b = f.bmap[bn]
        if bn == L["header"]:
            continue
        for s_ in b.succs:
            if s_ in L["body"]:
                continue
            n += 1
            key = "make_parse/early-exit#%d" % n
            t = b.term
            fine = False
            if t is not None and t.op == "br" and len(t.ops) == 3:
                cc = f.inst(t.ops[0])
                if cc is not None and cc.op == "icmp" and const_int(cc.ops[1]) == 0:
                    lp = loaded_from(f, cc.ops[0])
                    true_dest = t.ops[2]["v"]
                    exits_on_true = (s_ == true_dest)
                    if lp is not None and lp.last_field() == "grammar.one_parse_p" and ((cc.d["pred"] == "ne") == exits_on_true):
                        fine = True
            if not fine:
                for (cc, pol) in _controlling_conditions(f, bn):
                    lp = loaded_from(f, cc.ops[0])
                    if lp is not None and lp.last_field() == "grammar.one_parse_p" and const_int(cc.ops[1]) == 0 and (cc.d["pred"] == "ne") == pol and \
                            cc.block.name in L["body"]:
                        fine = True
            if fine:
                rep.ok("C03-candidates", key, sample={"exit": t.where(), "guard": "one_parse_p != 0"})
            else:
                rep.violation("C03-candidates", key, "the enumeration of the reduce situations is left early also when all parses are requested: the derivations through the "
                              "remaining situations are missing from the DAG", where=t.where(), witness=[t.where()])
    rep.floor("C03-candidates", "early exits of the candidate loop", n, 1)


def rule_reuse(ctx, rep, config="c-lib"):
    rep.rule("C03-reuse", "the abstract node of a (rule, origin, end) triple is taken from the table only when parse_state_insert reported an existing entry (new_p == 0), "
                          "and a newly created node is recorded in the entry it reserved; the table is used only when all parses are requested")
    p = ctx.prog(config)
    f = p.fn("make_parse")
    rep.cover(p, [f.name, "parse_state_insert"])
    ins = [c for c in f.calls() if c.callee == "parse_state_insert"]
    if len(ins) != 1:
        raise AnalysisBroken("C03-reuse: %d calls of parse_state_insert in make_parse" % len(ins))
    c = ins[0]
    # the lookup is done only for all parses
    g1 = any(loaded_from(f, cc.ops[0]) is not None and loaded_from(f, cc.ops[0]).last_field() == "grammar.one_parse_p" and const_int(cc.ops[1]) == 0 and (cc.d["pred"] == "eq") == pol
             for (cc, pol) in _controlling_conditions(f, c.block.name))
    if g1:
        rep.ok("C03-reuse", "make_parse/table-only-for-all-parses")
    else:
        rep.violation("C03-reuse", "make_parse/table-only-for-all-parses", "the table of abstract nodes is consulted although one parse was requested (it does not exist then)", where=c.where())
    # loads of table_state->anode (reuse) are controlled by new_p == 0; stores (record) by new_p != 0 or a fresh node
    newp = resolve_addr(f, c.args[1])
    reuse, record = [], []
    for i in f.all_insts():
        if i.op == "load" and resolve_addr(f, i.ops[0]).last_field() == "parse_state.anode":
            h = f.inst(strip_casts(f, resolve_addr(f, i.ops[0]).root[1])) if resolve_addr(f, i.ops[0]).root[0] == "val" else None
            if h is not None and _from_call(f, h, c):
                reuse.append(i)
        if i.op == "store" and resolve_addr(f, i.ops[1]).last_field() == "parse_state.anode":
            h = f.inst(strip_casts(f, resolve_addr(f, i.ops[1]).root[1])) if resolve_addr(f, i.ops[1]).root[0] == "val" else None
            if h is not None and _from_call(f, h, c):
                record.append(i)
    if not reuse or not record:
        raise AnalysisBroken("C03-reuse: reuse / record of the table entry's node not found (%d, %d)" % (len(reuse), len(record)))

    def new_p_cond(block, want_new):
        for (cc, pol) in _controlling_conditions(f, block):
            l_ = f.inst(strip_casts(f, cc.ops[0]))
            if l_ is not None and l_.op == "load":
                pa = resolve_addr(f, l_.ops[0])
                if pa.root == newp.root and const_int(cc.ops[1]) == 0:
                    is_new = (cc.d["pred"] == "ne") == pol
                    if is_new == want_new:
                        return True
        return False
    for i in reuse:
        # the reuse arm is the else-arm of  `table_state == NULL || new_p'
        conds = _controlling_conditions(f, i.block.name)
        okk = new_p_cond(i.block.name, False)
        if okk:
            rep.ok("C03-reuse", "make_parse/reuse-only-when-found", sample={"load": i.where()})
        else:
            rep.violation("C03-reuse", "make_parse/reuse-only-when-found", "the node of the table entry is used as `the translation we already have' without new_p == 0: the entry "
                          "just reserved for this state has no node yet (NULL child / wrong sharing)", where=i.where(), witness=[i.where()])
    for s_ in record:
        v = f.inst(strip_casts(f, s_.ops[0]))
        if v is not None and via_global(f, v, "parse_alloc"):
            rep.ok("C03-reuse", "make_parse/new-node-recorded", sample={"store": s_.where()})
        else:
            rep.violation("C03-reuse", "make_parse/new-node-recorded", "the table entry does not receive the newly allocated abstract node", where=s_.where())


def _from_call(f, h, c, depth=0):
    if h is c:
        return True
    if depth > 4:
        return False
    if h.op == "phi":
        return any(f.inst(strip_casts(f, v)) is not None and _from_call(f, f.inst(strip_casts(f, v)), c, depth + 1) for (v, _) in h.d["incoming"] if v.get("k") == "i")
    return False


def rule_nil_at_pop(ctx, rep, config="c-lib"):
    rep.rule("C03-nil-pop", "make_parse writes the NIL node into the parent's slot for a finished rule only when the rule has no abstract node of its own: the placement "
                            "place_translation (parent children + parent_disp, NIL) is controlled by `state->anode == NULL' for the state being popped (a rule with an "
                            "abstract node has placed that node in the slot already -- a second placement turns the slot into an ALT of NIL and the node, also when one "
                            "parse was requested)")
    from .r5 import _controlling_conditions
    from ..model import const_int
    p = ctx.prog(config)
    f = p.fn("make_parse")
    rep.cover(p, [f.name])
    nil = None
    for s_ in f.all_insts():
        if s_.op == "store" and resolve_addr(f, s_.ops[1]).last_field() == "yaep_tree_node.type" and const_int(s_.ops[0]) == 0:
            pa = resolve_addr(f, s_.ops[1])
            if pa.root[0] == "val":
                nil = strip_casts(f, pa.root[1])
    if nil is None:
        raise AnalysisBroken("C03-nil-pop: the NIL node of make_parse was not found")
    n = 0
    for c in f.calls():
        if c.callee != "place_translation" or strip_casts(f, c.args[1]) != nil:
            continue
        sl = f.inst(strip_casts(f, c.args[0]))
        if sl is not None and sl.op in ("phi", "select"):
            continue      # `anode == NULL ? parent slot : own slot': the choice of the slot is the test itself (C03-slot pairs node and index)
        n += 1
        key = "make_parse/nil-into-parent-slot#%d" % n
        own_null = False
        for (cc, pol) in _controlling_conditions(f, c.block.name):
            if cc.d["pred"] not in ("eq", "ne") or strip_casts(f, cc.ops[1]).get("k") != "null" or (cc.d["pred"] == "eq") != pol:
                continue
            l_ = f.inst(strip_casts(f, cc.ops[0]))
            if l_ is None or l_.op != "load":
                continue
            pa = resolve_addr(f, l_.ops[0])
            if pa.last_field() != "parse_state.anode" or pa.root[0] != "val":
                continue
            st = loaded_from(f, pa.root[1])
            if st is not None and st.last_field() == "parse_state.parent_anode_state":
                continue      # the parent's node
            own_null = True
        if own_null:
            rep.ok("C03-nil-pop", key, sample={"placement": c.where()})
        else:
            rep.violation("C03-nil-pop", key, "the NIL node is placed into the parent's slot without `the popped state has no abstract node': for a rule with an abstract "
                          "node without children the slot already holds that node and becomes ALT {NIL | node} -- an ALT node although one parse was requested, and a "
                          "translation that no derivation has", where=c.where(), witness=[c.where()])
    rep.floor("C03-nil-pop", "placements of the NIL node by place_translation", n, 1)


def rule_place_only(ctx, rep, config="c-lib"):
    rep.rule("C03-place", "make_parse writes a translation into a child slot of an abstract node through place_translation (which appends an alternative when the slot is "
                          "taken); a direct store of a node into a slot is either the NULL initialisation of a fresh node or is controlled by `this slot == NULL' (the "
                          "NIL fix-up at pop) -- a direct store elsewhere overwrites the alternatives already collected in the slot")
    from .r5 import _controlling_conditions
    from ..model import strip_int_casts as _sic
    p = ctx.prog(config)
    f = p.fn("make_parse")
    rep.cover(p, [f.name])
    n = 0
    for s_ in f.all_insts():
        if s_.op != "store":
            continue
        pa = resolve_addr(f, s_.ops[1])
        if pa.root[0] != "val" or not pa.steps or pa.steps[-1][0] not in ("idx", "ptr"):
            continue
        b = loaded_from(f, pa.root[1])
        if b is None or b.last_field() != "yaep_anode.children":
            continue
        if strip_casts(f, s_.ops[0]).get("k") == "null":
            continue
        n += 1
        key = "make_parse/direct-slot-store#%d" % n
        guarded = False
        for (cc, pol) in _controlling_conditions(f, s_.block.name):
            if cc.d["pred"] not in ("eq", "ne") or (cc.d["pred"] == "eq") != pol:
                continue
            if not any(strip_casts(f, o).get("k") == "null" for o in cc.ops):
                continue
            for o in cc.ops:
                l_ = f.inst(strip_casts(f, o))
                if l_ is not None and l_.op == "load":
                    qa = resolve_addr(f, l_.ops[0])
                    qb = loaded_from(f, qa.root[1]) if qa.root[0] == "val" else None
                    if qb is not None and qb.last_field() == "yaep_anode.children" and qa.steps and qa.steps[-1][0] == pa.steps[-1][0] \
                            and _sic(f, qa.steps[-1][1]) == _sic(f, pa.steps[-1][1]):
                        guarded = True
        if guarded:
            rep.ok("C03-place", key, sample={"store": s_.where(), "guard": "slot == NULL"})
        else:
            rep.violation("C03-place", key, "a node is stored straight into a child slot of an abstract node, not through place_translation and not under `slot == NULL': "
                          "when all parses are built the alternatives already placed in the slot are overwritten (translations lost)", where=s_.where(), witness=[s_.where()])
    rep.floor("C03-place", "direct stores of a node into a child slot", n, 1)


def rule_copy_slots(ctx, rep, config="c-lib"):
    rep.rule("C03-copy-slots", "copy_anode keeps every child of the original except the slot that is being filled: every comparison of the child index with the `disp' "
                               "parameter inside copy_anode is an equality (a relational test empties the slots on one side of it -- translations already placed there "
                               "are lost in the copy and read as nil)")
    from ..model import strip_int_casts
    p = ctx.prog(config)
    f = p.fn("copy_anode")
    rep.cover(p, [f.name])
    n = 0
    for c in f.all_insts():
        if c.op != "icmp":
            continue
        ops = [strip_int_casts(f, o) for o in c.ops]
        if not any(o.get("k") == "a" and o.get("v") == 3 for o in ops):
            continue
        n += 1
        key = "copy_anode/slot-test#%d" % n
        if c.d["pred"] in ("eq", "ne"):
            rep.ok("C03-copy-slots", key, sample={"test": c.where()})
        else:
            rep.violation("C03-copy-slots", key, "the copy drops the original's children by a `%s' test on the slot index: all slots on one side of the slot being filled "
                          "are emptied, a child translated earlier is missing in the copy" % c.d["pred"], where=c.where(), witness=[c.where()])
    rep.floor("C03-copy-slots", "tests of the child index against disp in copy_anode", n, 1)


def rule_copy_consistency(ctx, rep, config="c-lib"):
    rep.rule("C03-copy", "copy_anode (place, node, rule, disp) sizes and copies the child array of `node' by `rule': at every call the node and the rule are the `anode' and "
                         "`rule' members of one and the same parse state (the rule the node was created for), never the rule of the symbol being reduced")
    p = ctx.prog(config)
    n = 0
    for f in p.m.defined():
        for c in f.calls():
            if c.callee != "copy_anode" or len(c.args) < 4:
                continue
            n += 1
            rep.cover(p, [f.name])
            key = "%s/copy_anode#%d" % (f.name, n)

            def owner(op, field, depth=0):
                i = f.inst(strip_casts(f, op))
                if i is None or depth > 3:
                    return None
                if i.op == "load":
                    pa = resolve_addr(f, i.ops[0])
                    if pa.last_field() == field and pa.root[0] == "val":
                        return strip_casts(f, pa.root[1]).get("v")
                    return None
                if i.op == "phi":
                    os_ = set(owner(v, field, depth + 1) for (v, _) in i.d["incoming"] if v.get("k") != "undef")
                    return os_.pop() if len(os_) == 1 else None
                return None
            a, r = owner(c.args[1], "parse_state.anode"), owner(c.args[2], "parse_state.rule")
            if a is not None and r is not None and a == r:
                rep.ok("C03-copy", key, sample={"call": c.where()})
            else:
                rep.violation("C03-copy", key, "copy_anode is given a rule that is not the rule of the parse state the node belongs to: the copy's child array is allocated and "
                              "copied with another rule's translation length (heap overflow, or a copy without its NULL terminator)", where=c.where(), witness=[c.where()])
    rep.floor("C03-copy", "calls of copy_anode", n, 1)


def rule_parent_state(ctx, rep, config="c-lib"):
    rep.rule("C03-parent", "every state that make_parse pushes for a candidate of a nonterminal hangs under the same parse state: all stores of `parent_anode_state' in "
                           "the candidate loop take X or X->parent_anode_state for one and the same state X (the state whose abstract node -- possibly the copy made for "
                           "this origin -- receives the translation)")
    p = ctx.prog(config)
    f = p.fn("make_parse")
    rep.cover(p, [f.name])
    loops = [L for L in f.loops() if any(i.is_call() and i.callee == "copy_anode" for bn in L["body"] for i in f.bmap[bn].insts)]
    if not loops:
        raise AnalysisBroken("C03-parent: candidate loop not found")
    L = min(loops, key=lambda l_: len(l_["body"]))
    bases = {}
    n = 0

    def base_of(op, depth=0):
        o = strip_casts(f, op)
        i = f.inst(o)
        if i is None or depth > 4:
            return set([None])
        if i.op == "load":
            pa = resolve_addr(f, i.ops[0])
            if pa.last_field() == "parse_state.parent_anode_state" and pa.root[0] == "val":
                return set([strip_casts(f, pa.root[1]).get("v")])
            return set([i.id])
        if i.op == "select":
            return base_of(i.ops[1], depth + 1) | base_of(i.ops[2], depth + 1)
        if i.op == "phi" and i.block.name in L["body"] and i.block.name != L["header"] and depth < 3:
            # the merge of `anode == NULL ? X->parent : X'
            vs = set()
            for (v, _) in i.d["incoming"]:
                vs |= base_of(v, depth + 1)
            return vs if len(vs) == 1 else set([i.id])
        return set([i.id])
    for bn in L["body"]:
        for s_ in f.bmap[bn].insts:
            if s_.op == "store" and resolve_addr(f, s_.ops[1]).last_field() == "parse_state.parent_anode_state":
                # whole-struct copies are memcpy, not stores
                n += 1
                for b in base_of(s_.ops[0]):
                    bases.setdefault(b, []).append(s_)
    if n < 2:
        raise AnalysisBroken("C03-parent: %d stores of parent_anode_state in the candidate loop (one per kind of pushed state, 2 at least)" % n)
    if len(bases) == 1:
        rep.ok("C03-parent", "make_parse/one-parent-state", sample={"stores": n})
    else:
        minority = min(bases.items(), key=lambda kv: len(kv[1]))
        rep.violation("C03-parent", "make_parse/one-parent-state", "the states pushed for the candidates of one nonterminal are hung under different parse states: the store at %s "
                      "uses another state than the %d sibling stores -- the translation of that candidate lands in the abstract node of another split, the node copied for "
                      "this split keeps an empty slot" % (minority[1][0].where(), n - len(minority[1])), where=minority[1][0].where(), witness=[s_.where() for ss in bases.values() for s_ in ss][:6])


def rule_parent_disp(ctx, rep, config="c-lib"):
    rep.rule("C03-parent-disp", "a pushed state records where its translation goes as the pair (parent_anode_state, parent_disp): a state that inherits the parent state of "
                                "X (X->parent_anode_state) inherits X's slot (X->parent_disp), a state hung under X itself takes a slot of X's own rule -- on every path "
                                "the two stores to one new state are of the same kind (straight stores, `?:' values and merged stores are decomposed by their condition)")
    from .r5 import _controlling_conditions
    p = ctx.prog(config)
    f = p.fn("make_parse")
    rep.cover(p, [f.name])

    def kind(op, field):
        i = f.inst(strip_casts(f, op))
        if i is not None and i.op in ("sext", "zext", "trunc"):
            i = f.inst(strip_casts(f, i.ops[0]))
        if i is not None and i.op == "load":
            pa = resolve_addr(f, i.ops[0])
            if pa.last_field() == field and pa.root[0] == "val":
                return "inherit"
        return "own"

    def ckey(c, pol):
        pr = c.d["pred"]
        if pr == "ne":
            pr, pol = "eq", not pol
        return (pr, repr(strip_casts(f, c.ops[0])), repr(strip_casts(f, c.ops[1]))), pol

    def decomp(op, field, at_block):
        """{(): kind}  or  {(key, True): kind, (key, False): kind}"""
        i = f.inst(strip_casts(f, op))
        if i is not None and i.op == "select":
            c = f.inst(i.ops[0])
            if c is not None and c.op == "icmp":
                k, pol = ckey(c, True)
                return {(k, pol): kind(i.ops[1], field), (k, not pol): kind(i.ops[2], field)}
            return None
        if i is not None and i.op == "phi" and len(i.d["incoming"]) == 2:
            base = set((c.id, pol) for (c, pol) in _controlling_conditions(f, i.block.name))
            res = {}
            kinds = set(kind(v, field) for (v, _) in i.d["incoming"])
            if kinds == set(["own"]):
                return {(): "own"}      # a variable that holds a state / an index on every path, nothing inherited
            for (v, pb) in i.d["incoming"]:
                extra = [(c, pol) for (c, pol) in _controlling_conditions(f, pb) if (c.id, pol) not in base]
                if len(extra) != 1:
                    return None
                k, pol = ckey(*extra[0])
                res[(k, pol)] = kind(v, field)
            return res if len(res) == 2 and len(set(k for (k, _) in res)) == 1 else None
        return {(): kind(op, field)}

    pst = {}
    dst = {}
    for s_ in f.all_insts():
        if s_.op != "store":
            continue
        pa = resolve_addr(f, s_.ops[1])
        lf = pa.last_field()
        if lf in ("parse_state.parent_anode_state", "parse_state.parent_disp") and pa.root[0] == "val":
            o = strip_casts(f, pa.root[1]).get("v")
            (pst if lf.endswith("state") else dst).setdefault((o, s_.block.name), []).append(s_)
    n = 0
    for (o, bn), ss in sorted(pst.items(), key=lambda kv: str(kv[0])):
        for s_ in ss:
            if strip_casts(f, s_.ops[0]).get("k") == "null":
                continue     # the root state
            mates = dst.get((o, bn), [])
            if len(mates) != 1:
                # the slot is stored in another block: same object, a block that the state store dominates or that dominates it
                cand = [x for ((o2, b2), xs) in dst.items() if o2 == o for x in xs]
                mates = cand if len(cand) == 1 else mates
            if len(mates) != 1:
                raise AnalysisBroken("C03-parent-disp: the store of parent_disp that goes with the store of parent_anode_state at %s was not found" % s_.where())
            d_ = mates[0]
            n += 1
            a = decomp(s_.ops[0], "parse_state.parent_anode_state", bn)
            b = decomp(d_.ops[0], "parse_state.parent_disp", bn)
            if a is None or b is None:
                raise AnalysisBroken("C03-parent-disp: value stored at %s not understood" % (s_.where() if a is None else d_.where()))
            key = "make_parse/state-pushed-at-line-group-%d" % n
            bad = None
            if set(a) == set(b):
                for k in a:
                    if a[k] != b[k]:
                        bad = "parent_anode_state is %s while parent_disp is %s" % (_kn(a[k]), _kn(b[k]))
            elif list(a) == [()] or list(b) == [()]:
                one, two = (a, b) if list(a) == [()] else (b, a)
                if len(set(two.values())) > 1:
                    bad = "one of the two depends on a condition (%s), the other is always %s" % (", ".join(sorted(set(_kn(x) for x in two.values()))), _kn(one[()]))
                elif list(two.values())[0] != one[()]:
                    bad = "parent_anode_state and parent_disp are of different kinds"
            else:
                raise AnalysisBroken("C03-parent-disp: the two stores at %s / %s depend on different conditions" % (s_.where(), d_.where()))
            if bad:
                rep.violation("C03-parent-disp", key, "the new state's (parent state, slot) pair is crossed: %s -- the translation of this subtree is written into a slot "
                              "of the wrong abstract node (the intended slot stays empty or a sibling's translation is overwritten)" % bad, where=d_.where(),
                              witness=[s_.where(), d_.where()])
            else:
                rep.ok("C03-parent-disp", key, sample={"state": s_.where(), "slot": d_.where(), "cases": len(a)})
    rep.floor("C03-parent-disp", "(parent state, slot) store pairs of pushed states", n, 2)


def _kn(k):
    return "inherited from the current state" if k == "inherit" else "the current state's own"


def rule_slot_pairing(ctx, rep, config="c-lib"):
    rep.rule("C03-slot", "a translation is placed into `children + index' of an abstract node: when the node is the parent's node (reached through parent_anode_state) "
                         "the index is the state's parent_disp, when it is the state's own node the index is the rule's order[pos]; the two are never crossed "
                         "(all slot arguments of place_translation / copy_anode in make_parse)")
    from ..model import strip_int_casts
    p = ctx.prog(config)
    f = p.fn("make_parse")
    rep.cover(p, [f.name])

    def node_kind(op, depth=0):
        i = f.inst(strip_casts(f, op))
        if i is None or depth > 4:
            return None
        if i.op == "phi":
            ks = set(node_kind(v, depth + 1) for (v, _) in i.d["incoming"] if v.get("k") not in ("undef",))
            ks.discard(None)
            return ks.pop() if len(ks) == 1 else None
        if i.op != "load":
            return None
        pa = resolve_addr(f, i.ops[0])
        if pa.last_field() != "parse_state.anode" or pa.root[0] != "val":
            return None
        s_ = f.inst(strip_casts(f, pa.root[1]))
        # the state: itself loaded from some state's parent_anode_state?
        def via_parent(x, d=0):
            if x is None or d > 4:
                return False
            if x.op == "load":
                return resolve_addr(f, x.ops[0]).last_field() == "parse_state.parent_anode_state"
            if x.op == "phi":
                vs = [f.inst(strip_casts(f, v)) for (v, _) in x.d["incoming"] if v.get("k") == "i"]
                return bool(vs) and all(via_parent(v, d + 1) for v in vs)
            return False
        return "parent" if via_parent(s_) else "own"

    def idx_kind(op, depth=0):
        i = f.inst(strip_int_casts(f, op))
        if i is None or depth > 4:
            return None
        if i.op == "phi":
            ks = set(idx_kind(v, depth + 1) for (v, _) in i.d["incoming"] if v.get("k") not in ("undef",))
            ks.discard(None)
            return ks.pop() if len(ks) == 1 else None
        if i.op != "load":
            return None
        pa = resolve_addr(f, i.ops[0])
        if pa.last_field() == "parse_state.parent_disp":
            return "parent"
        if pa.root[0] == "val":
            b = loaded_from(f, pa.root[1])
            if b is not None and b.last_field() == "rule.order":
                return "own"
        return None

    def slots(op, depth=0):
        i = f.inst(strip_casts(f, op))
        if i is None or depth > 4:
            return []
        if i.op in ("phi",):
            out = []
            for (v, _) in i.d["incoming"]:
                out += slots(v, depth + 1)
            return out
        if i.op == "select":
            return slots(i.ops[1], depth + 1) + slots(i.ops[2], depth + 1)
        if i.op == "getelementptr" and len(i.d["path"]) == 1 and "ptr" in i.d["path"][0]:
            bl = f.inst(strip_casts(f, i.d["base"]))
            if bl is not None and bl.op == "load":
                bp = resolve_addr(f, bl.ops[0])
                if (bp.last_field() or "").endswith("yaep_anode.children") and bp.root[0] == "val":
                    return [(i, node_kind(bp.root[1]), idx_kind(i.d["path"][0]["ptr"]))]
        return []
    n = 0
    for c_ in f.calls():
        if c_.callee not in ("place_translation", "copy_anode"):
            continue
        for (g, nk, ik) in slots(c_.args[0]):
            n += 1
            key = "make_parse/slot#%d" % n
            if nk is None or ik is None:
                raise AnalysisBroken("C03-slot: slot expression at %s not of the known shape (node %s, index %s)" % (g.where(), nk, ik))
            if nk == ik:
                rep.ok("C03-slot", key, sample={"slot": g.where(), "node": nk, "index": ik})
            else:
                rep.violation("C03-slot", key, "a translation is placed into the %s node's child array at the %s index: it lands in another field of the node (a field that "
                              "has its own translation gets a second one -- an ALT node in a one-parse tree -- and the intended field stays empty)" % (
                                  "parent's" if nk == "parent" else "state's own", "state's parent_disp" if ik == "parent" else "rule's order[pos]"), where=g.where(), witness=[g.where(), c_.where()])
    rep.floor("C03-slot", "slot expressions", n, 8)


def rule_list_owner(ctx, rep, config="c-lib"):
    rep.rule("C03-owner", "a list of alternatives has one owner: prune_to_minimal rewrites the `next' links of a list in place, so a node pointer that copy_anode stores into "
                          "the copy (a child slot, or the `next' of a cell it made) is NULL, a cell allocated for the copy, or a node known not to be an ALT cell -- the "
                          "cells of the original's lists are never shared with the copy")
    p = ctx.prog(config)
    from .r11 import KINDS
    alt = [v for v, nme in KINDS.items() if nme == "YAEP_ALT"][0]
    K = Kinds(p, alt)
    f = p.fn("copy_anode")
    rep.cover(p, [f.name])
    n = 0
    for s in f.all_insts():
        if s.op != "store":
            continue
        pa = resolve_addr(f, s.ops[1])
        if pa.root[0] == "alloca":
            continue
        v = strip_casts(f, s.ops[0])
        vi = f.inst(v)
        ty = (vi.ty if vi is not None else (f.args[v["v"]]["ty"] if v.get("k") == "a" else ""))
        if "yaep_tree_node*" not in (ty or "") or (ty or "").endswith("**"):
            continue
        lf = pa.last_field() or ""
        if lf.endswith("yaep_alt.node"):
            continue   # the alternative itself is shared (decided by C03-alt)
        n += 1
        key = "copy_anode/node-store#%d" % n
        if v.get("k") == "null" or (vi is not None and via_global(f, vi, "parse_alloc")):
            rep.ok("C03-owner", key, sample={"store": s.where(), "value": "fresh / NULL"})
            continue
        K.notes = []
        k = K.kind(f, s.ops[0], s)
        if k == NONALT:
            rep.ok("C03-owner", key, sample={"store": s.where(), "value": "not an ALT cell"})
        else:
            rep.violation("C03-owner", key, "copy_anode stores a node pointer that can be a cell of the original node's list of alternatives into the copy: both nodes then own the "
                          "same list, and when the minimal cost translations are chosen the first owner relinks it -- the second owner sees a truncated list (minimal "
                          "translations missing, or a non-minimal cost)", where=s.where(), witness=[s.where()] + K.notes[:3])
    rep.floor("C03-owner", "node pointers stored by copy_anode", n, 1)


def rule_table_complete(ctx, rep, config="c-lib"):
    rep.rule("C03-table", "every abstract node made for a (rule, origin, end) triple is recorded in the table entry of the triple, because a parent that meets the triple "
                          "later takes its translation from the entry alone: the node allocated in make_parse is stored into table_state->anode, and so must be every "
                          "copy that copy_anode makes of such a node for another split of the rule (a copy that is only placed into the slot of the parent being "
                          "processed is invisible to the other parents: their alternatives lack the translations through the copy)")
    p = ctx.prog(config)
    f = p.fn("make_parse")
    rep.cover(p, [f.name, "copy_anode", "parse_state_insert"])
    ins = [c_ for c_ in f.calls() if c_.callee == "parse_state_insert"]
    if len(ins) != 1:
        raise AnalysisBroken("C03-table: %d calls of parse_state_insert" % len(ins))
    entry = ins[0]

    def recorded(val_id):
        """is the value stored into the anode member of the table entry?"""
        ids = cast_aliases(f, {"k": "i", "v": val_id})
        for s in f.all_insts():
            if s.op == "store" and strip_casts(f, s.ops[0]).get("v") in ids and resolve_addr(f, s.ops[1]).last_field() == "parse_state.anode":
                pa = resolve_addr(f, s.ops[1])
                h = f.inst(strip_casts(f, pa.root[1])) if pa.root[0] == "val" else None
                if h is not None and _from_call(f, h, entry):
                    return True
        return False
    n = 0
    # fresh nodes of table states
    for s in f.all_insts():
        if s.op == "store" and resolve_addr(f, s.ops[1]).last_field() == "parse_state.anode":
            v = f.inst(strip_casts(f, s.ops[0]))
            if v is not None and via_global(f, v, "parse_alloc"):
                pa = resolve_addr(f, s.ops[1])
                h = f.inst(strip_casts(f, pa.root[1])) if pa.root[0] == "val" else None
                if h is not None and not _from_call(f, h, entry):
                    n += 1
                    if recorded(v.id):
                        rep.ok("C03-table", "make_parse/new-node-recorded", sample={"store": s.where()})
                    else:
                        rep.violation("C03-table", "make_parse/new-node-recorded", "a new abstract node is not recorded in the table entry of its triple", where=s.where())
    for c_ in f.calls():
        if c_.callee != "copy_anode":
            continue
        n += 1
        if recorded(c_.id):
            rep.ok("C03-table", "make_parse/copy-recorded", sample={"call": c_.where()})
        else:
            rep.violation("C03-table", "make_parse/copy-recorded", "the copy that copy_anode makes of an abstract node for another split of its rule is placed into the current "
                          "parent's slot only and is not recorded for its (rule, origin, end) triple: a parent that finds the triple in the table gets the first node "
                          "alone -- the DAG lacks the translations through the copy (E : 'a' | E E on aaaaa: 11 of 14 trees)", where=c_.where(), witness=[entry.where(), c_.where()])
    rep.floor("C03-table", "node creations for table triples", n, 2)


def rule_origins_followed(ctx, rep, config="c-lib"):
    rep.rule("C03-origins", "when a nonterminal before the dot has reduce situations with different origins, make_parse continues the enclosing rule from each origin: "
                            "the push of a copy of the current state with pl_ind = the new origin does not depend on whether the nonterminal's translation is used "
                            "(disp >= 0, parent node present) -- the rest of the rule is translated differently for each origin also when this symbol itself is dropped")
    from ..model import strip_int_casts
    p = ctx.prog(config)
    f = p.fn("make_parse")
    rep.cover(p, [f.name])
    sites = []
    for s in f.all_insts():
        if s.op != "store" or resolve_addr(f, s.ops[1]).last_field() != "parse_state.pl_ind":
            continue
        pa = resolve_addr(f, s.ops[1])
        h = f.inst(strip_casts(f, pa.root[1])) if pa.root[0] == "val" else None
        if h is None or not (h.is_call() and h.callee == "parse_state_alloc"):
            continue
        # preceded by a whole-state copy (*state = *orig_state)
        copies = [c_ for c_ in s.block.insts if c_.is_call() and (c_.callee or "").startswith("llvm.memcpy") and c_.idx < s.idx]
        if copies:
            sites.append(s)
    if len(sites) != 1:
        raise AnalysisBroken("C03-origins: %d pushes of a state copy for another origin (1 confirmed by reading)" % len(sites))
    s = sites[0]
    dep = []
    for (cc, pol) in _controlling_conditions(f, s.block.name):
        for o in cc.ops:
            i = f.inst(strip_int_casts(f, o))
            if i is not None and i.op == "load":
                pa = resolve_addr(f, i.ops[0])
                b = loaded_from(f, pa.root[1]) if pa.root[0] == "val" else None
                if b is not None and b.last_field() == "rule.order":
                    dep.append((cc, "the symbol's translation is used (order[pos] >= 0)"))
    if dep:
        rep.violation("C03-origins", "make_parse/other-origin-pushed", "the state for another origin of the nonterminal is pushed only when %s: for a nonterminal whose "
                      "translation is dropped only the first origin is followed, the translations of the rest of the rule for the other origins are missing "
                      "(S : B A # s (0), A : 'a' | 'a' 'a' on aaa: one of two trees)" % dep[0][1], where=s.where(), witness=[dep[0][0].where(), s.where()])
    else:
        rep.ok("C03-origins", "make_parse/other-origin-pushed", sample={"push": s.where()})


def rule_nil_for_empty_rule(ctx, rep, config="c-lib"):
    rep.rule("C03-nil-empty", "in the loop over the candidates of a nonterminal, make_parse puts the NIL node into the slot only for a rule without abstract node whose right "
                              "hand side is empty: that placement is controlled by `the dot position of the completed situation is 0' (sit->pos == 0, or the rule's "
                              "rhs_len == 0) -- a rule that has symbols passes on the translation of one of them (a state is pushed for it) even when those symbols "
                              "derived the empty string here (a test on the span, origin == end, takes such a rule for an empty one: NIL where the translation of the "
                              "selected child -- possibly an abstract node -- belongs)")
    from .r5 import _controlling_conditions
    from ..model import const_int
    p = ctx.prog(config)
    f = p.fn("make_parse")
    rep.cover(p, [f.name])
    nil = None
    for s_ in f.all_insts():
        if s_.op == "store" and resolve_addr(f, s_.ops[1]).last_field() == "yaep_tree_node.type" and const_int(s_.ops[0]) == 0:
            pa = resolve_addr(f, s_.ops[1])
            if pa.root[0] == "val":
                nil = strip_casts(f, pa.root[1])
    if nil is None:
        raise AnalysisBroken("C03-nil-empty: the NIL node of make_parse was not found")
    n = 0
    for c in f.calls():
        if c.callee != "place_translation" or strip_casts(f, c.args[1]) != nil:
            continue
        sl = f.inst(strip_casts(f, c.args[0]))
        if sl is None or sl.op not in ("phi", "select"):
            continue      # the placement when a state is popped: C03-nil-pop
        n += 1
        key = "make_parse/nil-for-empty-rule#%d" % n
        empty = None
        for (cc, pol) in _controlling_conditions(f, c.block.name):
            if cc.d["pred"] not in ("eq", "ne", "sle", "sgt", "slt", "sge"):
                continue
            for (x, y) in ((0, 1), (1, 0)):
                l_ = f.inst(strip_int_casts(f, cc.ops[x]))
                k = const_int(cc.ops[y])
                if l_ is None or l_.op != "load" or k is None:
                    continue
                fld = resolve_addr(f, l_.ops[0]).last_field()
                if fld not in ("sit.pos", "rule.rhs_len"):
                    continue
                pr = cc.d["pred"]
                if x == 1:
                    pr = {"slt": "sgt", "sgt": "slt", "sle": "sge", "sge": "sle"}.get(pr, pr)
                if not pol:
                    pr = {"eq": "ne", "ne": "eq", "slt": "sge", "sge": "slt", "sle": "sgt", "sgt": "sle"}[pr]
                # the value is never negative: == 0, <= 0, < 1
                if (pr == "eq" and k == 0) or (pr == "sle" and k == 0) or (pr == "slt" and k == 1):
                    empty = cc
        if empty is not None:
            rep.ok("C03-nil-empty", key, sample={"placement": c.where(), "controlled_by": empty.where()})
        else:
            rep.violation("C03-nil-empty", key, "the NIL node is placed for a candidate rule without the test that the rule is empty (dot position / length of the right hand "
                          "side == 0): a rule whose symbols all derived the empty string gets NIL instead of the translation of its selected symbol",
                          where=c.where(), witness=[c.where()])
    rep.floor("C03-nil-empty", "placements of the NIL node for a candidate rule", n, 1)


def rule_origin_fresh(ctx, rep, config="c-lib"):
    rep.rule("C03-origin-fresh", "make_parse accepts a reduce situation as a candidate when the origin set holds the rule before the nonterminal with the origin of the state "
                                 "being expanded: it walks the transitions of the origin set and compares the origin of EACH situation found with state->orig.  The "
                                 "value compared is made from that situation alone (its index, the distances of the origin set, the origin of the reduce situation): "
                                 "it does not depend on what an earlier round of the same loop left behind -- a default assigned before the loop is overwritten by "
                                 "the first start situation met and a later predicted situation inherits that origin (a candidate, and with it an ambiguity, is lost)")
    p = ctx.prog(config)
    f = p.fn("make_parse")
    rep.cover(p, [f.name])
    n = 0
    loops = f.loops()
    for c in f.all_insts():
        if c.op != "icmp" or c.d["pred"] not in ("eq", "ne"):
            continue
        side = None
        for (x, y) in ((0, 1), (1, 0)):
            lp = loaded_from(f, c.ops[x])
            if lp is not None and lp.last_field() == "parse_state.orig":
                side = y
        if side is None:
            continue
        Ls = [L for L in loops if c.block.name in L["body"]]
        if not Ls:
            continue
        L = min(Ls, key=lambda l_: len(l_["body"]))
        # the loop walks an array of situation indices
        n += 1
        key = "make_parse/origin-of-each-candidate#%d" % n
        hphis = [i for i in f.bmap[L["header"]].insts if i.op == "phi"]

        def is_induction(ph):
            for (v, pb) in ph.d["incoming"]:
                if pb in L["body"]:
                    li = expr.lin(f, v, 0, 0)
                    if li.t.get("phi#%d" % ph.id) == 1 and len(li.t) == 1 and li.c != 0:
                        return True
            return False
        from .r4 import _edge_conditions

        def canon(cc, pol):
            """a comparison as (a, rel, b) with rel in < <= == != and the polarity folded in"""
            pr = cc.d["pred"]
            a_, b_ = repr(expr.lin(f, cc.ops[0], 0, 1)), repr(expr.lin(f, cc.ops[1], 0, 1))
            if not pol:
                pr = {"eq": "ne", "ne": "eq", "slt": "sge", "sge": "slt", "sle": "sgt", "sgt": "sle", "ult": "uge", "uge": "ult", "ule": "ugt", "ugt": "ule"}[pr]
            if pr[1:] in ("gt", "ge"):
                a_, b_, pr = b_, a_, pr[0] + {"gt": "lt", "ge": "le"}[pr[1:]]
            return (a_, pr[-2:] if pr not in ("eq", "ne") else pr, b_)

        def contradictory(cs):
            for (a_, r, b_) in cs:
                neg = {"lt": (b_, "le", a_), "le": (b_, "lt", a_), "eq": (a_, "ne", b_), "ne": (a_, "eq", b_)}[r]
                if neg in cs or (r in ("eq", "ne") and (b_, {"eq": "ne", "ne": "eq"}[r], a_) in cs):
                    return True
            return False
        carried = None
        work, seen = [(c.ops[side], frozenset(canon(cc, pol) for (cc, pol) in _controlling_conditions(f, c.block.name) if cc.block.name in L["body"]))], set()
        while work:
            o, cs = work.pop()
            o = strip_casts(f, o)
            if o.get("k") != "i" or (o["v"], cs) in seen or len(seen) > 4000:
                continue
            seen.add((o["v"], cs))
            i = f.insts.get(o["v"])
            if i is None or i.block.name not in L["body"]:
                continue
            if i.op == "phi" and i.block.name == L["header"]:
                if not is_induction(i):
                    carried = i
                continue
            if i.op == "phi":
                for (v, pb) in i.d["incoming"]:
                    # the way in is taken only under its own conditions: a way that contradicts what the later ways in required does not exist
                    ncs = cs | frozenset(canon(cc, pol) for (cc, pol) in _edge_conditions(f, pb, i.block.name) if cc.block.name in L["body"])
                    if not contradictory(ncs):
                        work.append((v, ncs))
            elif i.op == "load":
                work.append((i.ops[0], cs))
            elif i.op == "getelementptr":
                work.append((i.d["base"], cs))
                for st in i.d["path"]:
                    for k_ in ("idx", "ptr"):
                        if isinstance(st.get(k_), dict):
                            work.append((st[k_], cs))
            elif i.is_call():
                work.extend((a_, cs) for a_ in i.args)
            else:
                work.extend((x_, cs) for x_ in (i.ops or []) if isinstance(x_, dict))
        if carried is None:
            rep.ok("C03-origin-fresh", key, sample={"comparison": c.where()})
        else:
            rep.violation("C03-origin-fresh", key, "the origin compared with state->orig can be the one computed for an earlier situation of the same walk (a value carried "
                          "round the loop): a situation without distance of its own -- a predicted one -- is judged by the origin of the start situation met before "
                          "it, and a genuine candidate is dropped (one derivation lost, *ambiguous_p stays 0)", where=c.where(), witness=[c.where()])
    rep.floor("C03-origin-fresh", "comparisons of a situation's origin with the origin of the state", n, 1)


def rule_state_anode_pair(ctx, rep, config="c-lib"):
    rep.rule("C03-state-anode", "in the candidate loop make_parse chooses, per origin, the state that the candidate hangs under and the abstract node that receives its "
                                "translation (the original state, the copy found for this origin, or a new copy): the two always belong together -- wherever the choice "
                                "merges, the node is the `anode' member of the very state chosen on that way.  A node taken from the copy with the state left at the "
                                "original records the wrong parent: translations placed later through that parent land in the node of another split (one tree too "
                                "many, one missing)")
    p = ctx.prog(config)
    f = p.fn("make_parse")
    rep.cover(p, [f.name])
    expr.NAMED[0] = False
    n = 0
    bad = []
    good = 0

    def stored_as_anode_of(va, vs):
        """va is the value written into the anode member of the state vs (`anode = copy_anode (..); state->anode = anode')"""
        a_, s_v = strip_casts(f, va), strip_casts(f, vs)
        for st in f.all_insts():
            if st.op != "store" or strip_casts(f, st.ops[0]) != a_:
                continue
            pa = resolve_addr(f, st.ops[1])
            if pa.last_field() == "parse_state.anode" and pa.root[0] == "val" and strip_casts(f, pa.root[1]) == s_v:
                return True
        return False

    def same_state(va, vs):
        if stored_as_anode_of(va, vs):
            return True
        la = f.inst(strip_casts(f, va))
        if la is None or la.op != "load":
            return False
        pa = resolve_addr(f, la.ops[0])
        if pa.last_field() != "parse_state.anode" or pa.root[0] != "val":
            return False
        base = strip_casts(f, pa.root[1])
        s_ = strip_casts(f, vs)
        if base == s_:
            return True
        # two reads of the same place
        b1, b2 = f.inst(base), f.inst(s_)
        if b1 is not None and b2 is not None and b1.op == "load" and b2.op == "load":
            return expr.addr_str(f, b1.ops[0], 0, 3) == expr.addr_str(f, b2.ops[0], 0, 3)
        return False
    def is_anode_load(v):
        l_ = f.inst(strip_casts(f, v))
        return l_ is not None and l_.op == "load" and resolve_addr(f, l_.ops[0]).last_field() == "parse_state.anode"

    def leaf_loads(v, depth=0):
        i_ = f.inst(strip_casts(f, v))
        if i_ is not None and i_.op == "phi" and depth < 4:
            return sum(leaf_loads(x, depth + 1) for (x, _) in i_.d["incoming"])
        return 1 if is_anode_load(v) else 0

    def pair(va, vs, depth=0):
        """on every way that delivers the node va together with the state vs, the node is the anode of that state; nested merges are walked in step"""
        ia, is_ = f.inst(strip_casts(f, va)), f.inst(strip_casts(f, vs))
        if ia is not None and ia.op == "phi" and depth < 4:
            if is_ is not None and is_.op == "phi" and is_.block is ia.block:
                byp = dict((pb, x) for (x, pb) in is_.d["incoming"])
                return all(pb in byp and pair(x, byp[pb], depth + 1) for (x, pb) in ia.d["incoming"])
            return all(pair(x, vs, depth + 1) for (x, _) in ia.d["incoming"])
        if same_state(va, vs):
            return True
        # the node stays the original state's and the state is a fresh copy of that very state (`*state = *orig_state'): its anode member holds the same value
        la = f.inst(strip_casts(f, va))
        if la is None or la.op != "load" or resolve_addr(f, la.ops[0]).last_field() != "parse_state.anode" or resolve_addr(f, la.ops[0]).root[0] != "val":
            return False
        base = strip_casts(f, resolve_addr(f, la.ops[0]).root[1])
        for mc in f.all_insts():
            if mc.is_call() and (mc.callee or "").startswith("llvm.memcpy") and len(mc.args) >= 2:
                if strip_casts(f, mc.args[0]) == strip_casts(f, vs) and strip_casts(f, mc.args[1]) == base:
                    return True
        return False
    inner = set()
    for pa_ in f.all_insts():
        if pa_.op == "phi" and "yaep_tree_node" in pa_.ty:
            for (v, _) in pa_.d["incoming"]:
                o = strip_casts(f, v)
                i_ = f.inst(o)
                if i_ is not None and i_.op == "phi":
                    inner.add(i_.id)
    for pa_ in f.all_insts():
        if pa_.op != "phi" or "yaep_tree_node" not in pa_.ty or pa_.id in inner:
            continue
        ins = pa_.d["incoming"]
        if sum(leaf_loads(v) for (v, _) in ins) < 2:
            continue
        cands = [ps for ps in pa_.block.insts if ps.op == "phi" and "parse_state" in ps.ty and sorted(pb for (_, pb) in ps.d["incoming"]) == sorted(pb for (_, pb) in ins)]
        best = None
        for ps in cands:
            by_pred = dict((pb, vs) for (vs, pb) in ps.d["incoming"])
            okc = [pair(va, by_pred[pb]) for (va, pb) in ins]
            if best is None or sum(okc) > sum(best[1]):
                best = (ps, okc)
        if best is None or sum(best[1]) == 0:
            continue
        n += 1
        if all(best[1]):
            good += 1
            rep.ok("C03-state-anode", "make_parse/state-and-node-chosen-together#%d" % n, sample={"merge": pa_.where()})
        else:
            k = best[1].index(False)
            src = f.inst(strip_casts(f, ins[k][0]))
            rep.violation("C03-state-anode", "make_parse/state-and-node-chosen-together#%d" % n, "on one way into the merge the abstract node is not the `anode' of the state "
                          "chosen on that way (the node comes from %s, the state from elsewhere): the candidate records a parent state whose node is another one than "
                          "the node that receives its translation" % (src.where() if src is not None else "?"), where=(src.where() if src is not None else pa_.where()),
                          witness=[pa_.where()])
    rep.floor("C03-state-anode", "merges of (state, abstract node) choices", n, 1)
