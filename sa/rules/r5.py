"""R5 -- API contract tables (defaults, setters, entry checks, token intake,
undefined_p typestate).  Tables are keyed by names of /repo's own identifiers
(struct fields, functions, yaep.h macros), never by line numbers."""
from ..model import resolve_addr, strip_casts, strip_int_casts, const_int, loaded_from, alloca_reaching_value
from ..core import AnalysisBroken, setjmp_regions
from .r3 import returned_values, armed_info, in_region

INT_MIN, INT_MAX = -2147483648, 2147483647

DEFAULTS = {  # grammar field -> documented default of a new object
    "undefined_p": "nonzero",
    "error_code": 0,
    "lookahead_level": 1,
    "one_parse_p": 1,
    "cost_p": 0,
    "error_recovery_p": 1,
    "recovery_token_matches": 3,
    "debug_level": 0,
}

SETTERS = {
    "yaep_set_lookahead_level": ("lookahead_level", "clamp"),
    "yaep_set_debug_level": ("debug_level", "id"),
    "yaep_set_one_parse_flag": ("one_parse_p", "id"),
    "yaep_set_cost_flag": ("cost_p", "id"),
    "yaep_set_error_recovery_flag": ("error_recovery_p", "id"),
    "yaep_set_recovery_match": ("recovery_token_matches", "id"),
}


def _field_stores(f, field):
    return [i for i in f.all_insts() if i.op == "store" and resolve_addr(f, i.ops[1]).last_field() == field]


def _field_loads(f, field):
    return [i for i in f.all_insts() if i.op == "load" and resolve_addr(f, i.ops[0]).last_field() == field]


def rule_defaults(ctx, rep, config="c-lib"):
    rep.rule("R5-defaults", "in yaep_create_grammar every store into a configuration field of the new object stores the documented default, and such a store "
                            "dominates the successful (non-NULL) return; error_message[0] is set to NUL")
    p = ctx.prog(config)
    f = p.fn("yaep_create_grammar")
    rep.cover(p, [f.name])
    # successful return edges
    good = [(v, b, t) for (v, b, t) in returned_values(f) if not strip_casts(f, v).get("k") == "null"]
    if not good:
        raise AnalysisBroken("yaep_create_grammar has no non-NULL return")
    n = 0
    helper_sites = {}
    for c in f.calls():
        g = p.m.functions.get(c.callee) if c.callee else None
        if g is None or g.decl or not g.args or g.args[0]["ty"] != "%grammar*" or g.name == "yaep_free_grammar":
            continue
        helper_sites[c.id] = (c, g)
    for fld, want in sorted(DEFAULTS.items()):
        key = "yaep_create_grammar/" + fld
        sts = _field_stores(f, "grammar." + fld)
        n += 1
        if not sts:
            # a helper that receives the new object and stores the default on all its paths
            done = False
            for (c, g) in helper_sites.values():
                hs = [s_ for s_ in _field_stores(g, "grammar." + fld) if resolve_addr(g, s_.ops[1]).root == ("a", 0)]
                if hs and all(const_int(s_.ops[0]) is not None and ((want == "nonzero" and const_int(s_.ops[0]) != 0) or const_int(s_.ops[0]) == want) for s_ in hs) \
                        and any(all(g.dominates(s_.block.name, rb.name) for rb in g.ret_blocks()) for s_ in hs) \
                        and all(f.dominates(c.block.name, b) for (_, b, _) in good):
                    rep.ok("R5-defaults", key, sample={"field": fld, "default": want, "store": hs[0].where(), "via": g.name})
                    done = True
                    break
                elif hs:
                    rep.violation("R5-defaults", key, "new objects get `%s' = %s (in %s), documented default is %s" % (fld, const_int(hs[0].ops[0]), g.name, want),
                                  witness=[hs[0].where()], where=hs[0].where())
                    done = True
                    break
            if done:
                continue
        if not sts:
            rep.violation("R5-defaults", key, "the new grammar object's `%s' is never initialised (documented default %s)" % (fld, want), where=f.where())
            continue
        bad = []
        for s in sts:
            c = const_int(s.ops[0])
            if c is None or (want == "nonzero" and c == 0) or (want != "nonzero" and c != want):
                bad.append(s)
        dom = [s for s in sts if all(f.dominates(s.block.name, b) for (_, b, _) in good)]
        if bad:
            rep.violation("R5-defaults", key, "new objects get `%s' = %s, documented default is %s" % (fld, const_int(bad[0].ops[0]), want), witness=[bad[0].where()], where=bad[0].where())
        elif not dom:
            rep.violation("R5-defaults", key, "`%s' is not initialised on every path to the successful return" % fld, witness=[s.where() for s in sts], where=f.where())
        else:
            rep.ok("R5-defaults", key, sample={"field": fld, "default": want, "store": dom[0].where()})
    # message
    ms = [i for i in f.all_insts() if i.op == "store" and resolve_addr(f, i.ops[1]).last_field() == "grammar.error_message"]
    n += 1
    if ms and all(const_int(i.ops[0]) == 0 for i in ms) and any(all(f.dominates(s.block.name, b) for (_, b, _) in good) for s in ms):
        rep.ok("R5-defaults", "yaep_create_grammar/error_message")
    else:
        rep.violation("R5-defaults", "yaep_create_grammar/error_message", "the error message of a new object is not the empty string", where=f.where())
    rep.floor("R5-defaults", "documented defaults", n, 9)


def _paths(f, maxn=64):
    """all entry->ret block paths of a loop-free function"""
    res = []

    def go(b, acc):
        if len(res) > maxn:
            raise AnalysisBroken("too many paths in " + f.name)
        if b.name in acc:
            raise AnalysisBroken("loop in " + f.name)
        acc = acc + [b.name]
        if b.term is not None and b.term.op == "ret":
            res.append(acc)
            return
        for s in b.succs:
            go(f.bmap[s], acc)

    go(f.entry, [])
    return res


SAME_AS_OLD = set()   # paths on which the parameter is known to equal the field's current value


def _interval_of_path(f, path, argno):
    """interval of parameter `argno' implied by the branches taken along `path'
    (only comparisons of the parameter with constants are interpreted)"""
    lo, hi = INT_MIN, INT_MAX
    for k, bn in enumerate(path[:-1]):
        t = f.bmap[bn].term
        if t is None or t.op != "br" or len(t.ops) != 3:
            continue
        c = f.inst(t.ops[0])
        if c is None or c.op != "icmp":
            raise AnalysisBroken("unrecognised branch condition in %s" % f.name)
        taken_true = (t.ops[2]["v"] == path[k + 1])
        if t.ops[2]["v"] == t.ops[1]["v"]:
            continue
        a, b = strip_int_casts(f, c.ops[0]), strip_int_casts(f, c.ops[1])
        pred = c.d["pred"]
        if pred in ("eq", "ne") and {"k": "a", "v": argno} in (a, b):
            other = b if a == {"k": "a", "v": argno} else a
            oi = f.inst(other)
            if oi is not None and oi.op == "load" and resolve_addr(f, oi.ops[0]).root == ("a", 0):
                # comparison of the new value with the current value of the field
                equal_edge = (pred == "eq") == taken_true
                if equal_edge:
                    SAME_AS_OLD.add(tuple(path))
                continue
        if a == {"k": "a", "v": argno} and const_int(b) is not None:
            cst = const_int(b)
        elif b == {"k": "a", "v": argno} and const_int(a) is not None:
            cst = const_int(a)
            pred = {"slt": "sgt", "sgt": "slt", "sle": "sge", "sge": "sle"}.get(pred, pred)
        else:
            raise AnalysisBroken("branch in %s does not compare the parameter with a constant" % f.name)
        if not taken_true:
            pred = {"slt": "sge", "sge": "slt", "sgt": "sle", "sle": "sgt", "eq": "ne", "ne": "eq"}[pred]
        if pred == "slt":
            hi = min(hi, cst - 1)
        elif pred == "sle":
            hi = min(hi, cst)
        elif pred == "sgt":
            lo = max(lo, cst + 1)
        elif pred == "sge":
            lo = max(lo, cst)
        elif pred == "eq":
            lo, hi = max(lo, cst), min(hi, cst)
        elif pred == "ne":
            if cst == lo:
                lo += 1
            elif cst == hi:
                hi -= 1
        else:
            raise AnalysisBroken("unsigned/unknown predicate %s in %s" % (pred, f.name))
    return lo, hi


def _value_on_path(f, v, path, depth=0):
    """resolve phi/select along a path to ('arg', n) | ('const', c) | None"""
    v = strip_int_casts(f, v)
    if v.get("k") == "a":
        return ("arg", v["v"])
    c = const_int(v)
    if c is not None:
        return ("const", c)
    i = f.inst(v)
    if i is None or depth > 8:
        return None
    if i.op == "phi":
        # predecessor of the phi's block on this path
        bn = i.block.name
        if bn not in path:
            return None
        k = path.index(bn)
        if k == 0:
            return None
        pred = path[k - 1]
        for (iv, pb) in i.d["incoming"]:
            if pb == pred:
                return _value_on_path(f, iv, path, depth + 1)
        return None
    if i.op == "select":
        return ("select", i)
    return None


def rule_setters(ctx, rep, config="c-lib"):
    rep.rule("R5-setters", "each setter returns a load of its field that precedes its only store to that field, and stores its parameter; for the lookahead level "
                           "a path-wise interval evaluation over the whole int range shows the stored value is clamp(level, 0, 2)")
    p = ctx.prog(config)
    n = 0
    for name, (fld, kind) in sorted(SETTERS.items()):
        f = p.fn(name)
        rep.cover(p, [name])
        field = "grammar." + fld
        sts = _field_stores(f, field)
        lds = _field_loads(f, field)
        n += 1
        key = name
        if len(sts) != 1:
            rep.violation("R5-setters", key, "%s stores %d times into `%s' (expected exactly one)" % (name, len(sts), fld), where=f.where())
            continue
        s = sts[0]
        if resolve_addr(f, s.ops[1]).root != ("a", 0):
            rep.violation("R5-setters", key, "%s does not store into its own grammar argument" % name, where=s.where())
            continue
        rv = returned_values(f)
        okret = bool(rv)
        for (v, b, t) in rv:
            vi = f.inst(strip_casts(f, v))
            if not (vi is not None and vi in lds and resolve_addr(f, vi.ops[0]).root == ("a", 0) and f.inst_dominates(vi, s) and vi is not s
                    and not (vi.block is s.block and vi.idx > s.idx)):
                okret = False
        if not okret:
            rep.violation("R5-setters", key + "/returns-previous", "%s does not return the value `%s' had before the call" % (name, fld), where=f.where(),
                          witness=[t.where() for (_, _, t) in rv])
            continue
        # stored value
        paths = _paths(f)
        bad = None
        for path in paths:
            SAME_AS_OLD.discard(tuple(path))
            lo, hi = _interval_of_path(f, path, 1)
            if s.block.name not in path:
                if tuple(path) in SAME_AS_OLD and kind == "id":
                    continue      # nothing to store: the field already has this value
                bad = "the store is skipped on a path"
                break
            val = _value_on_path(f, s.ops[0], path)
            if lo > hi:
                continue  # infeasible
            if val is None or val[0] == "select":
                bad = "the stored value is not a parameter/constant selection the rule can evaluate"
                break
            if kind == "id":
                if val != ("arg", 1):
                    bad = "stores %s instead of its parameter" % (val,)
                    break
            else:
                if val == ("arg", 1):
                    if lo < 0 or hi > 2:
                        bad = "level in [%d,%d] is stored unclamped" % (lo, hi)
                        break
                elif val[0] == "const":
                    c = val[1]
                    want = 0 if hi < 0 else (2 if lo > 2 else None)
                    if want is None:
                        if not (lo == hi == c and 0 <= c <= 2):
                            bad = "level in [%d,%d] is replaced by constant %d" % (lo, hi, c)
                            break
                    elif c != want:
                        bad = "level in [%d,%d] is stored as %d, documented clamp gives %d" % (lo, hi, c, want)
                        break
                else:
                    bad = "stores %s" % (val,)
                    break
        if bad:
            rep.violation("R5-setters", key + "/stores", "%s: %s" % (name, bad), witness=[s.where()], where=s.where())
        else:
            rep.ok("R5-setters", key, sample={"setter": name, "field": fld, "paths": len(paths), "kind": kind, "store": s.where()})
    rep.floor("R5-setters", "setters", n, 6)


def rule_parse_entry(ctx, rep, config="c-lib"):
    rep.rule("R5-entry", "yaep_parse: (1) the YAEP_NO_MEMORY return is taken exactly under alloc == NULL && free != NULL, before any callback or allocation; "
                         "(2) the default allocator pair is installed together; (3) the undefined_p test raising YAEP_UNDEFINED_OR_BAD_GRAMMAR dominates token intake "
                         "and every allocation; (4) *root and *ambiguous_p are reset before anything can fail")
    p = ctx.prog(config)
    mac = ctx.ws.macros()
    f = p.fn("yaep_parse")
    rep.cover(p, [f.name])
    NOMEM, UNDEF = mac["YAEP_NO_MEMORY"], mac["YAEP_UNDEFINED_OR_BAD_GRAMMAR"]
    # (1)
    edges = [(v, b, t) for (v, b, t) in returned_values(f) if const_int(strip_casts(f, v)) == NOMEM]
    if len(edges) != 1:
        rep.violation("R5-entry", "yaep_parse/nomem-return", "yaep_parse has %d constant YAEP_NO_MEMORY returns (expected the one for alloc == NULL && free != NULL)" % len(edges), where=f.where())
    else:
        b = edges[0][1]
        conds = _controlling_conditions(f, b)
        want = {("a3", "eq"), ("a4", "ne")}
        got = set()
        for (c, pol) in conds:
            x, y = strip_casts(f, c.ops[0]), c.ops[1]
            if y.get("k") == "null" and x.get("k") == "a" and c.d["pred"] in ("eq", "ne"):
                pr = c.d["pred"]
                if not pol:
                    pr = "ne" if pr == "eq" else "eq"
                got.add(("a%d" % x["v"], pr))
        pre_calls = [i for i in f.calls() if f.inst_dominates(i, f.bmap[b].insts[0]) and not (i.callee or "").startswith("llvm.")
                     and i.callee not in ("strcpy", "strncpy", "memcpy")]
        if got == want and not pre_calls:
            rep.ok("R5-entry", "yaep_parse/nomem-return", sample={"return_edge_block": b, "conditions": sorted(got)})
        else:
            rep.violation("R5-entry", "yaep_parse/nomem-return", "the YAEP_NO_MEMORY return is controlled by %s, documented: alloc == NULL && free != NULL" % sorted(got),
                          where=edges[0][2].where())
    # (2)
    sa = [i for i in f.all_insts() if i.op == "store" and resolve_addr(f, i.ops[1]).root == ("g", "parse_alloc")]
    sf = [i for i in f.all_insts() if i.op == "store" and resolve_addr(f, i.ops[1]).root == ("g", "parse_free")]
    okp = len(sa) == 1 and len(sf) == 1
    if okp:
        va, vf = f.inst(strip_casts(f, sa[0].ops[0])), f.inst(strip_casts(f, sf[0].ops[0]))
        if va is not None and vf is not None and va.op == "phi" and vf.op == "phi" and va.block is vf.block:
            ma = dict((pb, strip_casts(f, iv)) for (iv, pb) in va.d["incoming"])
            mf = dict((pb, strip_casts(f, iv)) for (iv, pb) in vf.d["incoming"])
            for pb in ma:
                a, fr = ma[pb], mf.get(pb)
                da = a.get("k") == "f" and a["v"] == "parse_alloc_default"
                df = fr is not None and fr.get("k") == "f" and fr["v"] == "parse_free_default"
                ua = a == {"k": "a", "v": 3}
                uf = fr == {"k": "a", "v": 4}
                if not ((da and df) or (ua and uf)):
                    okp = False
        else:
            okp = False
    if okp:
        rep.ok("R5-entry", "yaep_parse/allocator-pair", sample={"parse_alloc": sa[0].where(), "parse_free": sf[0].where()})
    else:
        rep.violation("R5-entry", "yaep_parse/allocator-pair", "the tree allocator and deallocator are not taken as a pair (caller's pair, or the default malloc/free pair)",
                      where=f.where())
    # (3)
    und = [i for i in f.calls() if i.callee == "yaep_error" and const_int(i.args[0]) == UNDEF]
    okc = False
    if len(und) == 1:
        conds = _controlling_conditions(f, und[0].block.name)
        for (c, pol) in conds:
            x = f.inst(strip_int_casts(f, c.ops[0]))
            if x is not None and x.op == "load" and resolve_addr(f, x.ops[0]).last_field() == "grammar.undefined_p" and const_int(c.ops[1]) == 0:
                if (c.d["pred"] == "ne") == pol:
                    okc = True
        later = [i for i in f.calls() if i.callee in ("tok_init", "read_toks", "yaep_parse_init", "pl_create", "build_pl", "make_parse")]
        for i in later:
            # the throwing block must precede: its branch block dominates i and i is not reachable without passing the test
            tb = f.idom().get(und[0].block.name)
            if tb is None or not f.dominates(tb, i.block.name) or i.block.name == tb:
                okc = False
        if len(later) < 5:
            raise AnalysisBroken("yaep_parse no longer calls the per-parse phases the rule anchors on")
    if okc:
        rep.ok("R5-entry", "yaep_parse/undefined-gate", sample={"raise": und[0].where()})
    else:
        rep.violation("R5-entry", "yaep_parse/undefined-gate", "yaep_parse does not refuse an undefined/bad grammar before reading tokens (YAEP_UNDEFINED_OR_BAD_GRAMMAR under undefined_p != 0)",
                      where=f.where())
    rep.floor("R5-entry", "entry checks", 3, 3)


def _controlling_conditions(f, bname):
    """icmp conditions (with polarity) of the branches on the dominator chain of bname whose
    other successor cannot reach bname"""
    out = []
    idom = f.idom()
    cur = bname
    while cur is not None:
        par = idom.get(cur)
        if par is None:
            break
        t = f.bmap[par].term
        if t is not None and t.op == "br" and len(t.ops) == 3 and t.ops[1]["v"] != t.ops[2]["v"]:
            td, fd = t.ops[2]["v"], t.ops[1]["v"]
            rt = bname in f.reachable_from(td, avoid=(par,))
            rf = bname in f.reachable_from(fd, avoid=(par,))
            if rt != rf:
                c = f.inst(t.ops[0])
                pol = rt
                out.extend(_expand_bool(f, c, pol, 0))
        cur = par
    return out


def _expand_bool(f, c, pol, depth):
    """the comparisons that hold when the i1 value c has the truth value pol: c itself when it is a comparison; through `!x', through a
    truth value materialised as an integer and tested again (`int ok = a && b; if (ok)', an inlined predicate function), and through the
    phi of a short-circuit `&&' (when true) / `||' (when false)"""
    while c is not None and c.op == "xor" and c.ty == "i1":
        c = f.inst(c.ops[0])
        pol = not pol
    if c is None or depth > 4:
        return []
    if c.op == "icmp" and c.d["pred"] in ("eq", "ne") and const_int(c.ops[1]) == 0:
        x = f.inst(strip_int_casts(f, c.ops[0]))
        if x is not None and x.ty == "i1" and x.op in ("icmp", "phi", "xor", "select", "and", "or"):
            return _expand_bool(f, x, pol if c.d["pred"] == "ne" else not pol, depth + 1)
    if c.op == "icmp":
        return [(c, pol)]
    if c.op == "phi" and c.ty == "i1":
        rest = [(v, pb) for (v, pb) in c.d["incoming"] if const_int(v) is None]
        consts = [const_int(v) for (v, pb) in c.d["incoming"] if const_int(v) is not None]
        # a && b: false from the blocks where an operand failed, the last operand's value otherwise
        if len(rest) == 1 and consts and all((k != 0) == (not pol) for k in consts):
            v, pb = rest[0]
            here = set((x.id, p_) for (x, p_) in _controlling_conditions(f, c.block.name))
            extra = [(x, p_) for (x, p_) in _controlling_conditions(f, pb) if (x.id, p_) not in here]
            return _expand_bool(f, f.inst(v), pol, depth + 1) + extra
    return []


def rule_token_intake(ctx, rep, config="c-lib"):
    rep.rule("R5-tokens", "read_toks adds every token the callback delivers with a code >= 0 and stops at the first negative code; tok_add raises "
                          "YAEP_INVALID_TOKEN_CODE exactly when symb_find_by_code(code) == NULL for the code it was given; the end marker is appended with attribute NULL")
    p = ctx.prog(config)
    mac = ctx.ws.macros()
    rt = p.fn("read_toks")
    ta = p.fn("tok_add")
    rep.cover(p, ["read_toks", "tok_add"])
    # loop condition
    cb = [i for i in rt.calls() if not i.callee and loaded_from(rt, i.d["callee_op"]) is not None and loaded_from(rt, i.d["callee_op"]).root == ("g", "read_token")]
    adds = [i for i in rt.calls() if i.callee == "tok_add"]
    ok = False
    why = "read_toks does not call read_token / tok_add as expected"
    if len(cb) == 1 and len(adds) == 2:
        loop_add = [a for a in adds if const_int(a.args[0]) is None]
        end_add = [a for a in adds if const_int(a.args[0]) is not None]
        if len(loop_add) == 1 and len(end_add) == 1:
            la, ea = loop_add[0], end_add[0]
            conds = _controlling_conditions(rt, la.block.name)
            good = False
            for (c, pol) in conds:
                x = strip_int_casts(rt, c.ops[0])
                xi = rt.inst(x)
                if xi is not None and xi.op == "load":
                    rv = alloca_reaching_value(rt, xi)
                    if rv is not None:
                        x = strip_int_casts(rt, rv)
                if x == {"k": "i", "v": cb[0].id} and const_int(c.ops[1]) is not None:
                    k = const_int(c.ops[1])
                    pr = c.d["pred"]
                    if not pol:
                        pr = {"sge": "slt", "slt": "sge", "sgt": "sle", "sle": "sgt"}.get(pr, pr)
                    if (pr, k) in (("sge", 0), ("sgt", -1)):
                        good = True
                    else:
                        why = "tokens are accepted under `code %s %d', documented: code >= 0 (a negative code ends the input)" % (pr, k)
            # the code passed to tok_add is the callback result
            a0 = strip_int_casts(rt, la.args[0])
            a0i = rt.inst(a0)
            if a0i is not None and a0i.op == "load":
                rv = alloca_reaching_value(rt, a0i)
                if rv is not None:
                    a0 = strip_int_casts(rt, rv)
            if a0 != {"k": "i", "v": cb[0].id}:
                good = False
                why = "the code given to tok_add is not the code the callback returned"
            if const_int(ea.args[0]) != -1 or not ea.args[1].get("k") == "null":
                good = False
                why = "the end marker is not appended as (END_MARKER_CODE, NULL)"
            if not rt.inst_dominates(cb[0], ea) or rt.dominates(la.block.name, ea.block.name):
                pass
            ok = good
    if ok:
        rep.ok("R5-tokens", "read_toks/loop", sample={"callback": cb[0].where(), "tok_add": adds[0].where()})
    else:
        rep.violation("R5-tokens", "read_toks/loop", why, where=rt.where())
    # tok_add check
    INV = mac["YAEP_INVALID_TOKEN_CODE"]
    errs = [i for i in ta.calls() if i.callee == "yaep_error"]
    ok = False
    why = "tok_add does not raise YAEP_INVALID_TOKEN_CODE under symb_find_by_code(code) == NULL"
    if len(errs) == 1 and const_int(errs[0].args[0]) == INV:
        conds = _controlling_conditions(ta, errs[0].block.name)
        for (c, pol) in conds:
            x = strip_casts(ta, c.ops[0])
            xi = ta.inst(x)
            if xi is not None and xi.op == "load":
                rv = alloca_reaching_value(ta, xi)
                if rv is None:
                    # field of the local `tok' struct: find store to same path
                    rv = _local_struct_field_value(ta, xi)
                if rv is not None:
                    xi = ta.inst(strip_casts(ta, rv))
            if xi is not None and xi.is_call() and xi.callee == "symb_find_by_code" and c.ops[1].get("k") == "null":
                pr = c.d["pred"]
                if not pol:
                    pr = "ne" if pr == "eq" else "eq"
                if pr == "eq" and strip_int_casts(ta, xi.args[0]) == {"k": "a", "v": 0}:
                    ok = True
        if len(conds) != 1:
            ok = False
            why = "the invalid-token error in tok_add is guarded by %d conditions (expected exactly the lookup test)" % len(conds)
    elif errs:
        why = "tok_add raises error code %s, documented YAEP_INVALID_TOKEN_CODE" % const_int(errs[0].args[0])
    if ok:
        rep.ok("R5-tokens", "tok_add/invalid-code", sample={"raise": errs[0].where()})
    else:
        rep.violation("R5-tokens", "tok_add/invalid-code", why, where=ta.where())
    # the attribute stored is the one given
    rep.floor("R5-tokens", "token-intake obligations", 2, 2)


def _local_struct_field_value(f, load):
    p = resolve_addr(f, load.ops[0])
    if p.root[0] != "alloca":
        return None
    cands = []
    for i in f.all_insts():
        if i.op == "store":
            q = resolve_addr(f, i.ops[1])
            if q.root == p.root and q.steps == p.steps:
                cands.append(i)
    if len(cands) == 1 and f.inst_dominates(cands[0], load):
        return cands[0].ops[0]
    return None


# ------------------------------------------------------------------------------------------
# undefined_p typestate

def status_kind(f, v, from_block):
    """'z' (returns 0/NULL), 'n' (non-zero), 'u' (unknown) for value v leaving through from_block"""
    v = strip_casts(f, v)
    c = const_int(v)
    if c is not None:
        return "z" if c == 0 else "n"
    if v.get("k") == "null":
        return "z"
    vi = f.inst(v)
    if vi is not None and vi.op == "load":
        rv = alloca_reaching_value(f, vi)
        if rv is not None:
            v = strip_casts(f, rv)
            vi = f.inst(v)
            c = const_int(v)
            if c is not None:
                return "z" if c == 0 else "n"
    if vi is not None and vi.is_call():
        # is from_block dominated by a branch on `vi != 0' ?
        for u in f.uses().get(vi.id, []):
            cmp_ = u
            if cmp_.op != "icmp" or cmp_.d["pred"] not in ("eq", "ne"):
                continue
            other = cmp_.ops[1] if strip_casts(f, cmp_.ops[0]) == v else cmp_.ops[0]
            if not (const_int(other) == 0 or other.get("k") == "null"):
                continue
            for b in f.uses().get(cmp_.id, []):
                if b.op == "br" and len(b.ops) == 3:
                    td, fd = b.ops[2]["v"], b.ops[1]["v"]
                    if cmp_.d["pred"] == "eq":
                        td, fd = fd, td
                    if td != fd:
                        if f.dominates(td, from_block) and not f.dominates(fd, from_block):
                            return "n"
                        if f.dominates(fd, from_block) and not f.dominates(td, from_block):
                            return "z"
        # value stored through an alloca and reloaded: handled above
    return "u"


class FieldState(object):
    """Abstract value of one scalar field (field-based) along every path:
    'E' unchanged since function entry, 'T' non-zero constant stored, 'F' zero stored, 'U' unknown."""

    def __init__(self, prog, field):
        self.p = prog
        self.m = prog.m
        self.field = field
        self.summ = {}   # fn -> {'z': st, 'n': st, 'any': st} (None = no such exit)
        self.mayw = set()
        for f in self.m.defined():
            if any(resolve_addr(f, i.ops[1]).last_field() == field for i in f.all_insts() if i.op == "store"):
                self.mayw.add(f.name)
        self.maywt = set(f.name for f in self.m.defined() if self.p.reach(f.name) & self.mayw)
        self.exit_states = {}
        for _ in range(6):
            ch = False
            for f in self.m.defined():
                s = self._analyse(f)
                if self.summ.get(f.name) != s:
                    self.summ[f.name] = s
                    ch = True
            if not ch:
                break

    @staticmethod
    def join(a, b):
        if a is None:
            return b
        if b is None:
            return a
        return a if a == b else "U"

    def _apply(self, st, eff):
        if eff is None or eff == "E":
            return st
        return eff

    def _analyse(self, f):
        if f.name not in self.maywt:
            return {"z": "E", "n": "E", "any": "E", "throw": "E"}
        from .r3 import armed_info
        info = armed_info(self.p, f)
        hset = set(h for (_, h, _) in info)
        IN = {b.name: None for b in f.rblocks()}
        OUT = {b.name: None for b in f.rblocks()}
        PRE = {}
        IN[f.entry.name] = "E"
        handler_extra = {}
        for _ in range(40):
            ch = False
            for b in f.rblocks():
                s = "E" if b is f.entry else None
                if b.name not in hset:   # a handler is entered only through the exceptional edges
                    for pn in b.preds:
                        if OUT.get(pn) is not None:
                            s = self.join(s, OUT[pn])
                if b.name in handler_extra:
                    s = self.join(s, handler_extra[b.name])
                if s is None:
                    continue
                IN[b.name] = s
                cur = s
                for i in b.insts:
                    if i.op == "store" and resolve_addr(f, i.ops[1]).last_field() == self.field:
                        c = const_int(i.ops[0])
                        cur = "U" if c is None else ("F" if c == 0 else "T")
                    elif i.is_call():
                        PRE[i.id] = cur
                        tg = [t for t in self.p.call_targets(f, i) if t in self.summ]
                        if tg:
                            nxt = None
                            for t in tg:
                                nxt = self.join(nxt, self._apply(cur, self.summ[t]["any"]))
                            # status-sensitive refinement happens at the exits (see below)
                            cur = nxt
                        # exceptional edge
                        if self.p.call_may_throw(f, i):
                            for (sj, h, n) in info:
                                if f.dominates(n, b.name):
                                    thr = None
                                    for t in self.p.call_targets(f, i):
                                        e = self.summ.get(t, {}).get("throw", "E") if t in self.m.functions and not self.m.functions[t].decl else "E"
                                        thr = self.join(thr, self._apply(PRE[i.id], e))
                                    old = handler_extra.get(h)
                                    new = self.join(old, thr)
                                    if new != old:
                                        handler_extra[h] = new
                                        ch = True
                if OUT[b.name] != cur:
                    OUT[b.name] = cur
                    ch = True
            if not ch:
                break
        # exits
        res = {"z": None, "n": None, "any": None}
        exits = []
        for b in f.ret_blocks():
            t = b.term
            if not t.ops:
                exits.append(("u", OUT[b.name], b.name))
                continue
            v = t.ops[0]
            vi = f.inst(v)
            if vi is not None and vi.op == "phi" and vi.block is b and all(x.op in ("phi", "ret") for x in b.insts):
                for (iv, pb) in vi.d["incoming"]:
                    if f.reachable(pb) and OUT.get(pb) is not None:
                        exits.append((status_kind(f, iv, pb), OUT[pb], pb))
            else:
                exits.append((status_kind(f, v, b.name), OUT[b.name], b.name))
        for (k, st, bn) in exits:
            if st is None:
                continue
            res["any"] = self.join(res["any"], st)
            if k in ("z", "u"):
                res["z"] = self.join(res["z"], st)
            if k in ("n", "u"):
                res["n"] = self.join(res["n"], st)
        # status-sensitive refinement for direct `ret call' chains is done by the client via exits
        # throw summary: state at unarmed may-throw sites
        thr = None
        for b in f.rblocks():
            for i in b.insts:
                if i.is_call() and self.p.call_may_throw(f, i) and not any(f.dominates(n, b.name) for (_, h, n) in info):
                    for t in self.p.call_targets(f, i):
                        e = self.summ.get(t, {}).get("throw", "E") if t in self.m.functions and not self.m.functions[t].decl else "E"
                        thr = self.join(thr, self._apply(PRE.get(i.id, "U"), e))
        res["throw"] = thr if thr is not None else "E"
        self.exit_states[f.name] = exits
        self._pre = getattr(self, "_pre", {})
        self._pre[f.name] = PRE
        return res


def rule_undefined_typestate(ctx, rep, config="c-lib"):
    rep.rule("R5-undef", "typestate of grammar.undefined_p (field-based abstract value E/T/F/U, callee summaries per status, exceptional edges from every may-throw call "
                         "to the setjmp handler): a defining function (yaep_read_grammar, yaep_parse_grammar) leaves it non-zero on every exit that may return a "
                         "non-zero code and zero on the successful exit; no other API function changes it")
    p = ctx.prog(config)
    fs = ctx.memo(("fieldstate", config, "grammar.undefined_p"), lambda: FieldState(p, "grammar.undefined_p"))
    defining = ["yaep_read_grammar", "yaep_parse_grammar"]
    n = 0
    for d in defining:
        f = p.fn(d)
        rep.cover(p, p.reach(d))
        s = fs.summ[d]
        exits = fs.exit_states.get(d, [])
        # the status of yaep_parse_grammar's last exit is yaep_read_grammar's status: refine through summaries
        for kind_label, want, text in (("n", "T", "may return a non-zero code"), ("z", "F", "returns 0")):
            n += 1
            key = "%s/%s" % (d, "failing-exit" if kind_label == "n" else "successful-exit")
            st = _exit_state(p, fs, f, kind_label)
            if st == want:
                rep.ok("R5-undef", key, sample={"function": d, "exit": text, "undefined_p": "non-zero" if want == "T" else "zero"})
            else:
                if kind_label == "n":
                    what = ("%s can fail and leave undefined_p %s: the object then accepts yaep_parse although its definition failed" %
                            (d, {"E": "as it was on entry (zero for an already defined object)", "F": "zero", "U": "possibly zero"}.get(st, st)))
                else:
                    what = "%s can succeed and leave undefined_p %s: the object refuses to parse (or parses a half-defined grammar)" % (d, {"E": "unchanged", "T": "non-zero", "U": "possibly non-zero"}.get(st, st))
                rep.violation("R5-undef", key, what, where=f.where(), witness=_undef_witness(p, fs, f, kind_label, want))
    for a in p.api():
        if a in defining or a == "yaep_create_grammar":
            continue
        n += 1
        s = fs.summ[a]
        if s["any"] in ("E", None) and s["throw"] == "E":
            rep.ok("R5-undef", "%s/unchanged" % a, nontrivial=a in fs.maywt)
        else:
            rep.violation("R5-undef", "%s/unchanged" % a, "%s changes whether the object counts as defined" % a, where=p.m.functions[a].where())
    rep.floor("R5-undef", "typestate obligations", n, 10)


def _exit_state(p, fs, f, kind):
    """state at exits of f of the given status kind, refining `return h(..)' through h's per-status summary"""
    st = None
    PRE = fs._pre.get(f.name, {})
    for (k, s, bn) in fs.exit_states.get(f.name, []):
        if s is None:
            continue
        if k == "u":
            # is the returned value the status of a callee?  then split by the callee's summary
            rv = _returned_call(f, bn)
            if rv is not None and rv.callee in fs.summ and rv.id in PRE:
                e = fs.summ[rv.callee][kind]
                if e is None:
                    continue
                st = FieldState.join(st, fs._apply(PRE[rv.id], e))
                continue
        if k == kind or k == "u":
            st = FieldState.join(st, s)
    return st


def _returned_call(f, from_block):
    for b in f.ret_blocks():
        t = b.term
        if not t.ops:
            continue
        v = t.ops[0]
        vi = f.inst(v)
        cands = []
        if vi is not None and vi.op == "phi":
            cands = [iv for (iv, pb) in vi.d["incoming"] if pb == from_block]
        elif b.name == from_block:
            cands = [v]
        for c in cands:
            c = strip_casts(f, c)
            ci = f.inst(c)
            if ci is not None and ci.op == "load":
                rv = alloca_reaching_value(f, ci)
                if rv is not None:
                    ci = f.inst(strip_casts(f, rv))
            if ci is not None and ci.is_call() and ci.callee:
                return ci
    return None


def _undef_witness(p, fs, f, kind, want):
    w = []
    for (k, s, bn) in fs.exit_states.get(f.name, []):
        if (k == kind or k == "u") and s != want:
            t = f.bmap[bn].term
            w.append("exit through block %s (%s) with undefined_p state %s" % (bn, t.where() if t else "?", s))
    return w
