"""R27 -- the structural conditions of `identical sets are found again rather than rebuilt' (C18).

Near-linear work on deterministic grammars rests on four mechanisms, each visible in the shape of
the code: (1) hash-consing -- every lookup-or-insert site takes the element found and discards
its own copy; (2) the hash value of a table's element depends on the whole key, and for the
array-valued keys (the situations of a core, the distances of a set, the words of a terminal set)
on all elements; (3) the goto cache -- a validated cached transition is used instead of building
the set, and every set that was built is recorded in the cache; a set with a known core is not
expanded again; (4) the tables grow geometrically before they fill up.

Breaking one of them leaves every result intact (only equal objects are no longer shared, or
tables degrade into linear lists) -- the existing tests, which compare printed parses of inputs
of at most 13 tokens, cannot see it; the work per token then grows with the input length."""
from ..model import resolve_addr, strip_casts, strip_int_casts, const_int, loaded_from
from ..core import AnalysisBroken
from .. import expr
from .r5 import _controlling_conditions
from .r14 import path_exists

# table global -> what is shared
CONSING = {
    "set_dists_tab": "distance vectors", "set_core_tab": "set cores", "set_tab": "sets", "set_term_lookahead_tab": "cached transitions",
}
# the terminal-set table is reached through a field of the grammar's term_sets object
CONSING_FIELDS = {"term_sets.term_set_tab": "terminal sets"}


def _table_of(f, op):
    lp = loaded_from(f, op)
    if lp is None:
        return None
    if lp.root[0] == "g" and not lp.steps:
        return lp.root[1]
    return lp.last_field()


def _lookup_sites(p):
    out = []
    for f in p.m.defined():
        if f.module and not f.module.startswith("yaep."):
            continue
        for c in f.calls():
            g = p.m.functions.get(c.callee or "")
            sn = (g.d.get("srcname") if g is not None else None) or (c.callee or "")
            if c.callee == "find_hash_table_entry":
                tab, res = _table_of(f, c.args[0]), const_int(c.args[2])
            elif sn == "find_entry" and "hash_table" in (c.callee or ""):
                tab, res = _table_of(f, c.args[0]), const_int(c.args[2])
            else:
                continue
            out.append((f, c, tab, res))
    return out


def rule_consing(ctx, rep, config="c-lib", tag=""):
    rep.rule("R27-consing", "every lookup-or-insert site of the sharing tables (distance vectors, set cores, sets, cached transitions, terminal sets): the entry returned "
                            "by the reserving lookup is tested against empty; in the empty arm the new element is stored into the entry; in the other arm nothing is stored "
                            "into the entry and the element found is read (its members replace the copy just built)")
    p = ctx.prog(config)
    n = 0
    for (f, c, tab, res) in _lookup_sites(p):
        what = CONSING.get(tab) or CONSING_FIELDS.get(tab)
        if what is None:
            continue
        if not res:
            al0 = set([c.id] + [u.id for u in f.uses().get(c.id, []) if u.op == "bitcast"])
            st0 = [s_ for s_ in f.all_insts() if s_.op == "store" and strip_casts(f, s_.ops[1]).get("v") in al0]
            if st0:
                n += 1
                rep.violation("R27-consing", tag + "%s/%s" % (f.name, tab.split(".")[-1]), "an element is stored into an entry of the table of %s that the lookup did not "
                              "reserve: the table does not count it, never grows, and once every entry is taken a lookup that fails does not return" % what,
                              where=c.where(), witness=[c.where(), st0[0].where()])
            continue
        n += 1
        rep.cover(p, [f.name])
        key = tag + "%s/%s" % (f.name, tab.split(".")[-1])
        al = set([c.id] + [u.id for u in f.uses().get(c.id, []) if u.op == "bitcast"])
        loads = [l for l in f.all_insts() if l.op == "load" and strip_casts(f, l.ops[0]).get("v") in al]
        stores = [s_ for s_ in f.all_insts() if s_.op == "store" and strip_casts(f, s_.ops[1]).get("v") in al]
        tests = []
        for l in loads:
            vals = [l] + [u for u in f.uses().get(l.id, []) if u.op == "bitcast"]     # found = (T *) *entry; if (found) ...
            for v_ in vals:
                for u in f.uses().get(v_.id, []):
                    if u.op == "icmp" and u.d["pred"] in ("eq", "ne") and any(strip_casts(f, o).get("k") == "null" for o in u.ops):
                        tests.append((l, u))
        if not tests:
            rep.violation("R27-consing", key, "the entry returned by the reserving lookup in the table of %s is not tested: %s" % (
                what, "the new element always replaces the one found -- equal %s are never shared, memory and work grow with the input" % what if stores
                else "the reserved entry is never filled"), where=c.where(), witness=[c.where()])
            continue

        def arm_of(inst):
            """'empty' / 'found' / None: under which outcome of the test the instruction runs"""
            for (cc, pol) in _controlling_conditions(f, inst.block.name):
                for (l, u) in tests:
                    if cc.id == u.id:
                        is_empty = (u.d["pred"] == "eq") == pol
                        return "empty" if is_empty else "found"
            return None
        st_arms = [(s_, arm_of(s_)) for s_ in stores]
        bad_store = [s_ for (s_, a) in st_arms if a != "empty"]
        rec = [s_ for (s_, a) in st_arms if a == "empty"]
        # reuse: a load through the element found (or the element itself taken over), in the found arm
        reuse = []
        for l in loads:
            work, seen = [(l, 0)], set()
            while work:
                w, d = work.pop()
                if w.id in seen or d > 5:
                    continue
                seen.add(w.id)
                for x in f.uses().get(w.id, []):
                    if x.op in ("bitcast", "getelementptr"):
                        work.append((x, d + 1))
                    elif x.op == "load" and w is not l and arm_of(x) == "found":
                        reuse.append(x)
                    elif x.op == "load" and w is l and x.ops and strip_casts(f, x.ops[0]).get("v") == w.id and arm_of(x) == "found":
                        reuse.append(x)
                    elif x.op == "store" and (strip_casts(f, x.ops[0]).get("v") in (w.id, l.id) or x.ops[0].get("v") == w.id) and arm_of(x) == "found":
                        reuse.append(x)      # the element itself is taken over (new_set = *entry)
        if bad_store:
            rep.violation("R27-consing", key, "the entry of the table of %s is overwritten although an equal element was found (or without looking): the element found is "
                          "dropped and the copy kept -- nothing is shared" % what, where=bad_store[0].where(), witness=[c.where(), bad_store[0].where()])
        elif not rec:
            rep.violation("R27-consing", key, "a new element is never recorded in the entry reserved for it in the table of %s: the next equal element is not found (and the "
                          "reserved entry stays empty: the count of elements no longer matches)" % what, where=c.where(), witness=[c.where()])
        elif not reuse:
            rep.violation("R27-consing", key, "when an equal element is found in the table of %s it is not used: the copy just built is kept, equal %s are not shared" % (what, what),
                          where=c.where(), witness=[c.where()])
        else:
            rep.ok("R27-consing", key, sample={"lookup": c.where(), "recorded_at": rec[0].where(), "reused_at": reuse[0].where()})
    rep.floor("R27-consing", tag + "lookup-or-insert sites of the sharing tables", n, 5)


# hash function -> (fields its value must depend on, directly or through a stored hash field; does it range over an array?)
HASH_KEYS = {
    "set_core_hash": (["set_core.sits", "set_core.n_start_sits", "sit.sit_number"], "the start situations"),
    "dists_hash": (["set.dists", "set_core.n_start_sits"], "the distances"),
    "set_core_dists_hash": (["set_core.sits", "set.dists"], "core and distances"),
    "set_term_lookahead_hash": (["set_term_lookahead.set", "set_term_lookahead.term", "set_term_lookahead.lookahead"], "(set, terminal, lookahead)"),
    "term_set_hash": (["tab_term_set.set", "symbs.n_terms"], "the words of the set"),
    "symb_repr_hash": (["symb.repr"], "the name"),
    "symb_code_hash": (["symb.u.term.code"], "the code"),
    "parse_state_hash": (["parse_state.rule", "parse_state.orig", "parse_state.pl_ind"], "(rule, origin, end)"),
    "transition_els_hash": (["vect.els", "vect.len"], "the elements"),
    "reduce_els_hash": (["vect.els", "vect.len"], "the elements"),
}


EQ_HASH = {"set_core_eq": "set_core_hash", "dists_eq": "dists_hash", "set_core_dists_eq": "set_core_dists_hash", "set_term_lookahead_eq": "set_term_lookahead_hash",
           "term_set_eq": "term_set_hash", "symb_repr_eq": "symb_repr_hash", "symb_code_eq": "symb_code_hash", "parse_state_eq": "parse_state_hash",
           "transition_els_eq": "transition_els_hash", "reduce_els_eq": "reduce_els_hash"}
ARRAY_HASHES = set(["set_core_hash", "dists_hash", "set_core_dists_hash", "term_set_hash", "symb_repr_hash", "transition_els_hash", "reduce_els_hash"])


def _dep_reads(p, fn, seen=None, depth=0):
    """fields the VALUE returned by fn depends on: backward slice of the returned value through arithmetic, phis (with the conditions that control the blocks of
    the slice -- a loop bound decides how many elements enter), loads (the field read, and what its address depends on), calls (the callee's returned value) and -- for
    a load of a stored hash field -- the value stored into that field by its writers"""
    seen = seen if seen is not None else set()
    if fn in seen or depth > 4:
        return set()
    seen.add(fn)
    g = p.m.functions.get(fn)
    if g is None or g.decl:
        return set()
    roots = [r.ops[0] for r in g.all_insts() if r.op == "ret" and r.ops]
    return _slice_fields(p, g, roots, seen, depth)


def _slice_fields(p, g, roots, seen, depth):
    out = set()
    done = set()
    blocks = set()
    work = list(roots)
    while work:
        o = work.pop()
        if o.get("k") != "i" or o["v"] in done:
            continue
        done.add(o["v"])
        i = g.insts.get(o["v"])
        if i is None:
            continue
        if i.block.name not in blocks:
            blocks.add(i.block.name)
            for (cc, _) in _controlling_conditions(g, i.block.name):
                work.extend(cc.ops)
        if i.op == "load":
            lf = resolve_addr(g, i.ops[0]).last_field()
            if lf:
                out.add(lf)
                if "hash" in lf.split(".")[-1]:
                    for w in p.m.defined():
                        sts = [s_ for s_ in w.all_insts() if s_.op == "store" and resolve_addr(w, s_.ops[1]).last_field() == lf]
                        if sts and (w.name, lf) not in seen:
                            seen.add((w.name, lf))
                            out |= _slice_fields(p, w, [s_.ops[0] for s_ in sts], seen, depth + 1)
            work.append(i.ops[0])
        elif i.op == "phi":
            for (v, pb) in i.d["incoming"]:
                work.append(v)
                t = g.bmap[pb].term
                if t is not None and len(t.ops) == 3:
                    work.append(t.ops[0])
            # a header phi: the loop's exit tests decide how often the body runs
            for L in g.loops():
                if L["header"] == i.block.name:
                    for bn in L["body"]:
                        t = g.bmap[bn].term
                        if t is not None and len(t.ops) == 3 and any(s_ not in L["body"] for s_ in g.bmap[bn].succs):
                            work.append(t.ops[0])
        elif i.is_call():
            if i.callee and i.callee in p.m.functions and not p.m.functions[i.callee].decl:
                out |= _dep_reads(p, i.callee, seen, depth + 1)
                # what the callee reads through its parameters comes from the arguments
            for a_ in i.args:
                work.append(a_)
        elif i.op == "getelementptr":
            work.append(i.d["base"])
            for st in i.d["path"]:
                for k_ in ("idx", "ptr"):
                    if k_ in st and isinstance(st[k_], dict):
                        work.append(st[k_])
        else:
            work.extend(x for x in (i.ops or []) if isinstance(x, dict))
    return out


def _value_slice(g, roots):
    """ids of the instructions of g the values `roots' are computed from (data dependence, through phis, the conditions deciding phis and loop exits, loads and
    their addresses, call arguments)"""
    done = set()
    work = list(roots)
    while work:
        o = work.pop()
        if not isinstance(o, dict) or o.get("k") != "i" or o["v"] in done:
            continue
        done.add(o["v"])
        i = g.insts.get(o["v"])
        if i is None:
            continue
        if i.op == "phi":
            for (v, pb) in i.d["incoming"]:
                work.append(v)
                t = g.bmap[pb].term
                if t is not None and len(t.ops) == 3:
                    work.append(t.ops[0])
            for L in g.loops():
                if L["header"] == i.block.name:
                    for bn in L["body"]:
                        t = g.bmap[bn].term
                        if t is not None and len(t.ops) == 3 and any(s_ not in L["body"] for s_ in g.bmap[bn].succs):
                            work.append(t.ops[0])
        elif i.is_call():
            work.extend(i.args)
        elif i.op == "getelementptr":
            work.append(i.d["base"])
            for st in i.d["path"]:
                for k_ in ("idx", "ptr"):
                    if k_ in st and isinstance(st[k_], dict):
                        work.append(st[k_])
        else:
            work.extend(x for x in (i.ops or []) if isinstance(x, dict))
    return done


def _hash_loops(p, fn, seen=None, depth=0, roots=None):
    """(function, loop) pairs of the loops that compute the hash: loops of fn (of a writer of a stored hash field) that hold a part of the computation of the
    returned (stored) value, and the same for the callees whose result enters it"""
    seen = seen if seen is not None else set()
    if (fn, roots is None) in seen or depth > 4:
        return []
    seen.add((fn, roots is None))
    g = p.m.functions.get(fn)
    if g is None or g.decl:
        return []
    if roots is None:
        roots = [r.ops[0] for r in g.all_insts() if r.op == "ret" and r.ops]
    sl = _value_slice(g, roots)
    blocks = set(g.insts[k].block.name for k in sl if k in g.insts)
    out = [(g, L) for L in g.loops() if any(bn in L["body"] for bn in blocks)]
    for k in sl:
        i = g.insts.get(k)
        if i is None:
            continue
        if i.op == "load":
            lf = resolve_addr(g, i.ops[0]).last_field()
            if lf and "hash" in lf.split(".")[-1]:
                for w in p.m.defined():
                    sts = [s_ for s_ in w.all_insts() if s_.op == "store" and resolve_addr(w, s_.ops[1]).last_field() == lf]
                    if sts:
                        out += _hash_loops(p, w.name, seen, depth + 1, roots=[s_.ops[0] for s_ in sts])
        elif i.is_call() and i.callee:
            out += _hash_loops(p, i.callee, seen, depth + 1)
    return out


def rule_hash_covers_key(ctx, rep, config="c-lib"):
    rep.rule("R27-hash", "the hash function of every table of yaep.c depends on the whole key (fields read by the function, its callees and -- for a hash kept in a field "
                         "-- by the function that stores the field): a hash that ignores a component puts all elements that differ only there into one probe sequence; the "
                         "loops that hash an array run to a bound that is not a constant (all elements, not the first k)")
    p = ctx.prog(config)
    seen = {}
    pairs = []
    for f in p.m.defined():
        if f.module and not f.module.startswith("yaep."):
            continue
        for i in f.calls():
            if i.callee == "create_hash_table":
                h, e_ = strip_casts(f, i.args[2]), strip_casts(f, i.args[3])
                if h.get("k") == "f":
                    seen[h["v"]] = i
                    if e_.get("k") == "f":
                        pairs.append((h["v"], e_["v"], i))
    n = 0
    # the hash given to a table covers what the table's equality distinguishes: (hash, equality) pairs as frozen, or a hash that depends on at least the key of the
    # hash that belongs to the equality
    for (hfn, efn, site) in pairs:
        want = EQ_HASH.get(efn)
        if want is None or want == hfn:
            continue
        n += 1
        need = HASH_KEYS.get(want, ([], ""))[0]
        got = _dep_reads(p, hfn)
        missing = [k for k in need if k not in got]
        key = "%s+%s/hash-covers-equality" % (hfn, efn)
        if missing:
            rep.violation("R27-hash", key, "the table created at %s distinguishes its elements by %s (%s) but is hashed by %s, which does not depend on %s: all elements that "
                          "differ only there share one probe sequence -- every lookup walks through them" % (
                              site.where(), efn, HASH_KEYS.get(want, ([], "?"))[1], hfn, ", ".join(missing)), where=site.where(), witness=[site.where()])
        else:
            rep.ok("R27-hash", key, sample={"table_created_at": site.where()})
    for hfn, site in sorted(seen.items()):
        if hfn not in HASH_KEYS:
            if hfn in ("reserv_mem_hash", "trans_visit_node_hash"):
                continue
            raise AnalysisBroken("R27-hash: hash function %s is not in the table of keys" % hfn)
        need, what = HASH_KEYS[hfn]
        n += 1
        rep.cover(p, [hfn])
        got = _dep_reads(p, hfn)
        missing = [k for k in need if k not in got]
        key = hfn + "/depends-on-key"
        if missing:
            rep.violation("R27-hash", key, "%s does not depend on %s of its key (%s): all elements that differ only there collide, the table degrades into a list and every "
                          "lookup costs time proportional to their number" % (hfn, ", ".join(missing), what), where=p.m.functions[hfn].where(), witness=[site.where()])
            continue
        # loops over the key: there is one for an array-valued key, and the bound is not a constant
        if hfn in ARRAY_HASHES and not _hash_loops(p, hfn):
            rep.violation("R27-hash", key, "%s hashes %s without a loop: only a fixed part of the array enters the hash value, elements that agree there collide" % (hfn, what),
                          where=p.m.functions[hfn].where(), witness=[site.where()])
            continue
        # the cached transition's key holds a set: the hash covers what makes the set (core and distances), or uses the pointer itself (sets are shared)
        if hfn == "set_term_lookahead_hash":
            g0 = p.m.functions[hfn]
            by_ptr = any(i.op == "ptrtoint" and loaded_from(g0, i.ops[0]) is not None and loaded_from(g0, i.ops[0]).last_field() == "set_term_lookahead.set"
                         for i in g0.all_insts())
            miss2 = [k for k in ("set_core.sits", "set.dists") if k not in got]
            if miss2 and not by_ptr:
                rep.violation("R27-hash", key, "%s hashes the set of its key without %s: all transitions from sets that differ only there (in a left-recursive grammar the "
                              "same core comes back with other distances at every element of a list) share one probe sequence -- the collisions per token grow with "
                              "the input" % (hfn, ", ".join(miss2)), where=g0.where(), witness=[site.where()])
                continue
        badl = None
        same_el = None
        for (g, L) in _hash_loops(p, hfn):
            # every element read inside the loop is read at an address that moves with the loop
            hphis = set(i.id for i in g.bmap[L["header"]].insts if i.op == "phi")

            def variant(op, depth=0):
                o = strip_casts(g, op)
                if o.get("k") != "i" or depth > 12:
                    return False
                if o["v"] in hphis:
                    return True
                i = g.insts.get(o["v"])
                if i is None or i.block.name not in L["body"]:
                    return False
                if i.op == "getelementptr":
                    return variant(i.d["base"], depth + 1) or any(isinstance(st.get(k_), dict) and variant(st[k_], depth + 1) for st in i.d["path"] for k_ in ("idx", "ptr"))
                if i.op == "phi":
                    return any(variant(v, depth + 1) for (v, _) in i.d["incoming"])
                return any(variant(x, depth + 1) for x in (i.ops or []) if isinstance(x, dict))
            for ph in g.bmap[L["header"]].insts:
                if ph.op != "phi" or not ph.ty.startswith("i") or ph.ty in ("i1", "i8"):
                    continue
                steps = [v for (v, pb) in ph.d["incoming"] if pb in L["body"]]
                # the accumulator: its next value is made from itself and from what is read
                work, seen_, loads, selfdep = list(steps), set(), [], False
                while work:
                    o = strip_casts(g, work.pop())
                    if o.get("k") != "i" or o["v"] in seen_:
                        continue
                    seen_.add(o["v"])
                    if o["v"] == ph.id:
                        selfdep = True
                        continue
                    i = g.insts.get(o["v"])
                    if i is None or i.block.name not in L["body"]:
                        continue
                    if i.op == "load":
                        loads.append(i)
                        continue
                    if i.op == "phi":
                        work.extend(v for (v, _) in i.d["incoming"])
                    elif i.is_call():
                        work.extend(i.args)
                    else:
                        work.extend(x for x in (i.ops or []) if isinstance(x, dict))
                if selfdep and loads:
                    for l_ in loads:
                        if not variant(l_.ops[0]):
                            same_el = (g, l_)
            hdr = g.bmap[L["header"]]
            t = hdr.term
            c = g.inst(t.ops[0]) if (t is not None and len(t.ops) == 3) else None
            if c is None or c.op != "icmp":
                continue
            ph = g.inst(strip_int_casts(g, c.ops[0]))
            if const_int(c.ops[1]) is None or ph is None or ph.op != "phi" or not ph.ty.startswith("i") or ph.ty == "i8":
                continue
            inits = [v for (v, pb) in ph.d["incoming"] if pb not in L["body"]]
            steps = [v for (v, pb) in ph.d["incoming"] if pb in L["body"]]
            if len(inits) != 1 or len(steps) != 1:
                continue
            st = expr.lin(g, steps[0], 0, 0)
            down = st.c < 0
            # counting up to a constant, or down from a constant: a fixed number of elements
            if (not down) or const_int(inits[0]) is not None:
                badl = (g, c)
        if same_el:
            rep.violation("R27-hash", key, "the loop of %s that hashes the key reads the same place on every round (%s does not move with the loop): one element enters the "
                          "hash n times and the others never -- keys that agree there collide" % (same_el[0].name, same_el[1].where()),
                          where=same_el[1].where(), witness=[same_el[1].where()])
        elif badl:
            rep.violation("R27-hash", key, "the loop of %s that hashes the key stops at the constant %d: elements that agree on that prefix collide" % (
                badl[0].name, const_int(badl[1].ops[1])), where=badl[1].where(), witness=[badl[1].where()])
        else:
            rep.ok("R27-hash", key, sample={"table_created_at": site.where(), "depends_on": need})
    rep.floor("R27-hash", "hash functions with a key", n, 9)


def rule_goto_cache(ctx, rep, config="c-lib"):
    rep.rule("R27-goto", "build_pl: build_new_set is called only when no cached transition was validated (new_set == NULL); every set built is recorded in the cache entry "
                         "(result[curr] = new_set, place[curr] = pl_curr, curr advanced); a validated cached set is taken over; build_new_set expands a set only when "
                         "set_insert reported a new core")
    p = ctx.prog(config)
    f = p.fn("build_pl")
    rep.cover(p, [f.name, "build_new_set"])
    b = [c for c in f.calls() if c.callee == "build_new_set"]
    if len(b) != 1:
        raise AnalysisBroken("R27-goto: %d calls of build_new_set in build_pl" % len(b))
    b = b[0]
    hits = [c for c in f.calls() if c.callee == "check_cached_transition_set"]
    if not hits:
        rep.violation("R27-goto", "build_pl/cache-consulted", "build_pl never validates a cached transition: every set is rebuilt for every token", where=b.where())
        return
    # (1) the build is skipped after a hit: it is guarded by `new_set == NULL', new_set is cleared before the lookup and receives the cached set under a successful validation
    guard = None
    for (cc, pol) in _controlling_conditions(f, b.block.name):
        lp = loaded_from(f, cc.ops[0])
        if cc.d["pred"] in ("eq", "ne") and strip_casts(f, cc.ops[1]).get("k") == "null" and (cc.d["pred"] == "eq") == pol and lp is not None \
                and lp.root == ("g", "new_set") and not lp.steps:
            guard = cc
    taken = None

    def from_result(v):
        x = f.inst(strip_casts(f, v))
        k = 0
        while x is not None and x.op == "phi" and k < 4:
            nxt = [f.inst(strip_casts(f, y)) for (y, _) in x.d["incoming"]]
            nxt = [y for y in nxt if y is not None and y.op in ("load", "phi")]
            x = nxt[0] if nxt else None
            k += 1
        return x is not None and x.op == "load" and resolve_addr(f, x.ops[0]).last_field() == "set_term_lookahead.result"

    def validated(conds):
        return any(strip_int_casts(f, cc.ops[0]).get("v") == hits[0].id and const_int(cc.ops[1]) == 0 and (cc.d["pred"] == "ne") == pol for (cc, pol) in conds)
    from .r4 import _edge_conditions
    for s_ in f.all_insts():
        if s_.op != "store" or resolve_addr(f, s_.ops[1]).root != ("g", "new_set") or resolve_addr(f, s_.ops[1]).steps:
            continue
        v = f.inst(strip_casts(f, s_.ops[0]))
        if from_result(s_.ops[0]) and validated(_controlling_conditions(f, s_.block.name)):
            taken = s_
        elif v is not None and v.op == "phi":
            # new_set = <the cached set on the validated edge, NULL otherwise>   (a helper that returns the accepted set, inlined)
            work, seen = [v], set()
            while work:
                ph = work.pop()
                if ph.id in seen:
                    continue
                seen.add(ph.id)
                for (iv, pb) in ph.d["incoming"]:
                    x = f.inst(strip_casts(f, iv))
                    if from_result(iv) and validated(_edge_conditions(f, pb, ph.block.name)):
                        taken = s_
                    elif x is not None and x.op == "phi":
                        work.append(x)
    ok_skip = guard is not None and taken is not None
    if ok_skip:
        rep.ok("R27-goto", "build_pl/build-skipped-after-hit", sample={"build": b.where(), "guard": guard.where(), "cached_set_taken_at": taken.where()})
    else:
        rep.violation("R27-goto", "build_pl/build-skipped-after-hit", "%s: the set is built again although the cache could deliver it" % (
            "build_new_set is not guarded by `new_set == NULL'" if guard is None else "a successfully validated cached set is not taken over into new_set"),
            where=b.where(), witness=[b.where(), hits[0].where()])
    # (2) what was built is recorded
    rec = {}
    for s_ in f.all_insts():
        if s_.op == "store":
            lf = resolve_addr(f, s_.ops[1]).last_field()
            if lf in ("set_term_lookahead.result", "set_term_lookahead.place", "set_term_lookahead.curr") and f.inst_dominates(b, s_):
                lp = loaded_from(f, s_.ops[0])
                if lf == "set_term_lookahead.result" and not (lp is not None and lp.root == ("g", "new_set")):
                    continue
                rec[lf.split(".")[-1]] = s_
    missing = [k for k in ("result", "place", "curr") if k not in rec]
    if "place" in rec:
        lp_ = loaded_from(f, rec["place"].ops[0])
        if not (lp_ is not None and lp_.root == ("g", "pl_curr") and not lp_.steps):
            rep.violation("R27-goto", "build_pl/place-is-parser-list-position", "the cache entry records as the place of the built set a value that is not the parser list "
                          "position pl_curr (the validity test compares pl[pl_curr + 1 - dist] with pl[place + 1 - dist]): after a recovery that ignored other than "
                          "exactly one token the token number and the list position differ, and a cached set with the wrong origins is accepted",
                          where=rec["place"].where(), witness=[rec["place"].where()])
        else:
            rep.ok("R27-goto", "build_pl/place-is-parser-list-position", sample={"store": rec["place"].where()})
    if missing:
        rep.violation("R27-goto", "build_pl/built-set-recorded", "after build_new_set the cache entry does not receive %s: the transition is rebuilt the next time (or the "
                      "cached set is validated against the wrong position)" % ", ".join(missing), where=b.where(), witness=[b.where()])
    else:
        rep.ok("R27-goto", "build_pl/built-set-recorded", sample=dict((k, v.where()) for k, v in rec.items()))
    # (3) expansion only for a new core
    g = p.fn("build_new_set")
    ex = [c for c in g.calls() if c.callee == "expand_new_start_set"]
    si = [c for c in g.calls() if c.callee == "set_insert"]
    if len(ex) != 1 or len(si) != 1:
        raise AnalysisBroken("R27-goto: build_new_set does not call set_insert / expand_new_start_set once")
    okx = any(strip_int_casts(g, cc.ops[0]).get("v") == si[0].id and const_int(cc.ops[1]) == 0 and (cc.d["pred"] == "ne") == pol
              for (cc, pol) in _controlling_conditions(g, ex[0].block.name))
    if okx:
        rep.ok("R27-goto", "build_new_set/expand-only-new-core", sample={"expand": ex[0].where()})
    else:
        rep.violation("R27-goto", "build_new_set/expand-only-new-core", "expand_new_start_set runs although set_insert found the core in the table: the derived situations, "
                      "transition and reduce vectors of a known core are built again for every token (and appended to the shared core a second time)", where=ex[0].where(),
                      witness=[si[0].where(), ex[0].where()])


def rule_growth(ctx, rep, config="c-lib", tag=""):
    rep.rule("R27-growth", "the hash tables grow before they fill up and grow geometrically: the lookup calls the expansion under  size / a <= elements / b  with a > b >= 1 "
                           "(a load threshold below 1), and the expansion creates a table for k * elements entries with k >= 2")
    p = ctx.prog(config)
    find = [f for f in p.m.defined() if f.module and f.module.startswith("hashtab.") and (f.name == "find_hash_table_entry" or f.d.get("srcname") == "find_entry")]
    exp = [f for f in p.m.defined() if f.module and f.module.startswith("hashtab.") and (f.name == "expand_hash_table" or f.d.get("srcname") == "expand_hash_table")]
    if len(find) != 1 or len(exp) != 1:
        raise AnalysisBroken("R27-growth: lookup / expansion functions not found (%d, %d)" % (len(find), len(exp)))
    f, e = find[0], exp[0]
    rep.cover(p, [f.name, e.name])
    calls = [c for c in f.calls() if e.name in p.call_targets(f, c)]
    if not calls:
        rep.violation("R27-growth", tag + "lookup/expands", "the lookup never expands the table: it fills up, the probe loop of a failing lookup does not end", where=f.where())
        return

    def ratio(op):
        """(field, divisor) of  field / divisor  or  field  (divisor 1)"""
        i = f.inst(strip_int_casts(f, op))
        d = 1
        if i is not None and i.op in ("udiv", "sdiv", "lshr") and const_int(i.ops[1]) is not None:
            d = const_int(i.ops[1]) if i.op != "lshr" else 2 ** const_int(i.ops[1])
            i = f.inst(strip_int_casts(f, i.ops[0]))
        m = 1
        if i is not None and i.op in ("mul", "shl") and const_int(i.ops[1]) is not None:
            m = const_int(i.ops[1]) if i.op == "mul" else 2 ** const_int(i.ops[1])
            i = f.inst(strip_int_casts(f, i.ops[0]))
        if i is not None and i.op == "load":
            lf = resolve_addr(f, i.ops[0]).last_field()
            if lf:
                return lf.split(".")[-1].lstrip("_"), d, m
        return None
    good = None
    seen = []
    for (cc, pol) in _controlling_conditions(f, calls[0].block.name):
        a, b = ratio(cc.ops[0]), ratio(cc.ops[1])
        if a is None or b is None:
            continue
        pr = cc.d["pred"]
        if not pol:
            pr = {"ule": "ugt", "ult": "uge", "uge": "ult", "ugt": "ule", "sle": "sgt", "slt": "sge", "sge": "slt", "sgt": "sle"}.get(pr, pr)
        if pr[1:] in ("ge", "gt"):
            a, b, pr = b, a, pr[0] + {"ge": "le", "gt": "lt"}[pr[1:]]
        seen.append("%s*%d/%d %s %s*%d/%d" % (a[0], a[2], a[1], pr, b[0], b[2], b[1]))
        # size * ma / da  <=  elements * mb / db     <=>  expand when elements / size >= (ma * db) / (da * mb)
        if a[0] == "size" and b[0] == "number_of_elements" and pr[1:] in ("le", "lt"):
            num, den = a[2] * b[1], a[1] * b[2]
            if 0 < num < den:
                good = (cc, num, den)
    if good:
        rep.ok("R27-growth", tag + "lookup/expands-below-full", sample={"test": good[0].where(), "load_threshold": "%d/%d" % (good[1], good[2])})
    else:
        rep.violation("R27-growth", tag + "lookup/expands-below-full", "the expansion is not called under a load threshold below 1 (found: %s): the table fills up before it "
                      "grows -- long probe sequences, and with a full table a failing lookup does not end" % (seen or "no comparison of size with the number of elements"),
                      where=calls[0].where(), witness=[calls[0].where()])
    # geometric growth
    cr = [c for c in e.calls() if (c.callee or "") == "create_hash_table" or ((p.m.functions.get(c.callee or "") is not None) and
                                                                             (p.m.functions[c.callee].d.get("srcname") == "hash_table") and "C" in c.callee)]
    if len(cr) != 1:
        raise AnalysisBroken("R27-growth: %d table creations in the expansion" % len(cr))
    sz = None
    for a_ in cr[0].args:
        v = expr.lin(e, a_, 0, 1)
        at = [k for k in v.t if k.endswith("number_of_elements]")]
        if len(at) == 1 and len(v.t) == 1:
            sz = (v.t[at[0]], v.c)
    if sz is not None and sz[0] >= 2 and sz[1] >= 0:
        rep.ok("R27-growth", tag + "expansion/geometric", sample={"create": cr[0].where(), "new_size": "%d * elements" % sz[0]})
    else:
        rep.violation("R27-growth", tag + "expansion/geometric", "the expansion does not create a table for at least twice the number of elements (%s): with additive or no "
                      "growth n insertions cost n expansions of n elements each" % (("%d * elements + %d" % sz) if sz else "size argument not a multiple of the element count"),
                      where=cr[0].where(), witness=[cr[0].where()])
    # the two fit together: right after an expansion the load 1/k is strictly below the threshold, so a number of insertions proportional to the size follows
    # before the next expansion
    if good and sz is not None and sz[0] >= 2:
        k_, num, den = sz[0], good[1], good[2]
        if den < k_ * num:
            rep.ok("R27-growth", tag + "expansion/leaves-room", sample={"load_after_expansion": "1/%d" % k_, "threshold": "%d/%d" % (num, den)})
        else:
            rep.violation("R27-growth", tag + "expansion/leaves-room", "the table is expanded at a load of %d/%d and the expansion makes a table for %d * elements entries: the "
                          "new table is at the threshold again at once, every insertion (or every second one) expands and rehashes the whole table -- n insertions "
                          "cost n expansions" % (num, den, k_), where=good[0].where(), witness=[good[0].where(), cr[0].where()])


def rule_growth_cxx(ctx, rep, config="cxx-lib"):
    rule_growth(ctx, rep, config="cxx-lib", tag="[c++] ")


def rule_consing_cxx(ctx, rep, config="cxx-lib"):
    rule_consing(ctx, rep, config="cxx-lib", tag="[c++] ")


def rule_growth_storage(ctx, rep, config="c-lib", tag=""):
    rep.rule("R27-growth-storage", "_VLO_expand_memory and _OS_expand_memory (C and C++) ask for more than they need by an amount that grows with the length of the object "
                                   "(request - (length + addition) depends on the length): capacities grow geometrically, n appends cost O(n) bytes moved -- a slack "
                                   "that depends on the addition only makes almost every append reallocate")
    from .r4 import _alts
    p = ctx.prog(config)
    n = 0
    for f in p.m.defined():
        if not f.module or not f.module.startswith(("vlobject.", "objstack.")):
            continue
        nm = f.d.get("srcname") or f.name
        if nm not in ("_VLO_expand_memory", "_OS_expand_memory"):
            continue
        rep.cover(p, [f.name])
        for c in f.calls():
            g = p.m.functions.get(c.callee or "")
            cn = (g.d.get("srcname") if g is not None else None) or (c.callee or "")
            if cn not in ("yaep_malloc", "yaep_realloc"):
                continue
            n += 1
            key = tag + "%s/slack-grows-with-length" % nm
            alts = [a for a in _alts(f, c.args[-1]) if not a.is_const()]
            if not alts:
                raise AnalysisBroken("R27-growth-storage: the size requested in %s is a constant" % f.name)
            bad = None
            for a in alts:
                lin_part = [k for k in a.t if (k.endswith("_free]") or k.endswith("_start]")) and not k.startswith("div(")]
                # the length is spelled free - start, or (C++) as the value of the length getter
                slack_part = [k for k in a.t if k.startswith(("div(", "mul(", "lshr(")) and ("_free]" in k or "call#" in k)]
                coef = max([a.t[k] for k in lin_part if k.endswith("_free]")] + [a.t[k] for k in a.t if k.startswith("call#")] or [0])
                if not slack_part and coef < 2:
                    bad = a
            if bad is None:
                rep.ok("R27-growth-storage", key, sample={"request": [repr(a) for a in alts][:2]})
            else:
                rep.violation("R27-growth-storage", key, "the size requested is %r: beyond the bytes needed it does not grow with the length of the object -- the capacity grows "
                              "additively and the bytes requested over n appends grow quadratically" % bad, where=c.where(), witness=[c.where()])
    rep.floor("R27-growth-storage", tag + "storage growth requests", n, 2)


def rule_growth_storage_cxx(ctx, rep, config="cxx-lib"):
    rule_growth_storage(ctx, rep, config="cxx-lib", tag="[c++] ")


def rule_goto_cache_validity(ctx, rep, config="c-lib"):
    rep.rule("R27-goto-valid", "the cache of transitions remembers, for every set it keeps, the position `place' in the parser list at which the set was built, and "
                               "check_cached_transition_set accepts the set when pl[pl_curr + 1 - dist] == pl[place + 1 - dist] -- it reads the parser list as it is NOW.  "
                               "That describes the origins of the cached set only while the list is append-only.  A call made by build_pl that rewrites elements of pl "
                               "or moves pl_curr (error_recovery) is therefore followed, on every path to the next validation of a cached set, by the emptying of the "
                               "cache table: otherwise a set built for origins that were replaced is accepted (a set whose distances point at other sets: wrong parse, "
                               "NULL distance vector in build_new_set), and with pl_curr below the remembered place the index pl_curr + 1 - dist is negative")
    from .r14 import path_exists
    p = ctx.prog(config)
    f = p.fn("build_pl")
    chk = p.fn("check_cached_transition_set")
    rep.cover(p, [f.name, chk.name])
    # premise: the validity test indexes pl with a value made from its `place' argument
    prem = False
    for l_ in chk.all_insts():
        if l_.op != "load":
            continue
        a = resolve_addr(chk, l_.ops[0])
        if a.root[0] == "val":
            base = loaded_from(chk, a.root[1])
            if base is not None and base.root == ("g", "pl") and not base.steps and a.steps:
                for st in a.steps:
                    if st[0] in ("idx", "ptr"):
                        li = expr.lin(chk, st[1], 0, 1)
                        if any(k == "a1" for k in li.t):
                            prem = True
    if not prem:
        raise AnalysisBroken("R27-goto-valid: check_cached_transition_set does not read pl[.. place ..]: the validity test has another structure than the rule knows")
    probes = [c for c in f.calls() if c.callee == "check_cached_transition_set"]
    if not probes:
        raise AnalysisBroken("R27-goto-valid: build_pl does not call check_cached_transition_set")
    memo = {}

    def rewrites(g, depth=0):
        if g.name in memo:
            return memo[g.name]
        memo[g.name] = False
        r = False
        for i in g.all_insts():
            if i.op == "store":
                a = resolve_addr(g, i.ops[1])
                if a.root == ("g", "pl_curr") and not a.steps:
                    r = True
                elif a.root[0] == "val" and a.steps:
                    base = loaded_from(g, a.root[1])
                    if base is not None and base.root == ("g", "pl") and not base.steps:
                        r = True
            elif i.is_call() and depth < 8:
                for t in p.call_targets(g, i):
                    h = p.m.functions.get(t)
                    if h is not None and not h.decl and rewrites(h, depth + 1):
                        r = True
            if r:
                break
        memo[g.name] = r
        return r
    writers = []
    for c in f.calls():
        for t in p.call_targets(f, c):
            h = p.m.functions.get(t)
            if h is not None and not h.decl and rewrites(h):
                writers.append(c)
                break
    flushes = []
    for c in f.calls():
        if c.callee in ("empty_hash_table", "_ZN10hash_table5emptyEv") and c.args:
            lp = loaded_from(f, c.args[0])
            if lp is not None and lp.root == ("g", "set_term_lookahead_tab") and not lp.steps:
                flushes.append(c)
    n = 0
    for w in writers:
        n += 1
        key = "build_pl/cache-emptied-after-%s#%d" % (w.callee, n)
        bad = [q for q in probes if path_exists(f, w, q, flushes)]
        if bad:
            rep.violation("R27-goto-valid", key, "%s rewrites the parser list (elements of pl, pl_curr) and the next validation of a cached transition is reached without the "
                          "cache having been emptied: check_cached_transition_set compares against sets that are no longer the origins of the cached set, and reads "
                          "pl[pl_curr + 1 - dist] with a negative index when pl_curr was moved back below the remembered place" % w.callee,
                          where=w.where(), witness=[w.where(), bad[0].where()])
        else:
            rep.ok("R27-goto-valid", key, sample={"rewriter": w.where(), "emptied_at": [x.where() for x in flushes][:2]})
    rep.floor("R27-goto-valid", "calls of build_pl that rewrite the parser list", n, 1)


def rule_hash_multiplier(ctx, rep, config="c-lib"):
    rep.rule("R27-hash-mult", "the hash functions of yaep.c combine the parts of a key as  h = h * m + part  in 32 bits: the multiplier m is odd (invertible modulo 2^32), so "
                              "that every part still influences the value after any number of steps -- with an even multiplier (a power of two most of all) the parts "
                              "that entered first are shifted out: keys that differ only there collide, and the sets of a long input differ exactly in the parts that "
                              "enter first (core before distances before terminal)")
    p = ctx.prog(config)
    n = 0
    for f in p.m.defined():
        if f.module and not f.module.startswith("yaep."):
            continue
        is_hash = "hash" in f.name or any(s_.op == "store" and "hash" in (resolve_addr(f, s_.ops[1]).last_field() or "").split(".")[-1] for s_ in f.all_insts())
        if not is_hash:
            continue
        roots = [r.ops[0] for r in f.all_insts() if r.op == "ret" and r.ops] + \
                [s_.ops[0] for s_ in f.all_insts() if s_.op == "store" and "hash" in (resolve_addr(f, s_.ops[1]).last_field() or "").split(".")[-1]]
        sl = _value_slice(f, roots)
        for k in sorted(sl):
            i = f.insts.get(k)
            if i is None or i.op not in ("mul", "shl") or i.ty != "i32":
                continue
            c = const_int(i.ops[1]) if const_int(i.ops[1]) is not None else const_int(i.ops[0])
            if c is None:
                continue
            n += 1
            rep.cover(p, [f.name])
            key = "%s/multiplier@%s" % (f.name, i.where().rsplit(":", 2)[-2])
            mult = c if i.op == "mul" else (1 << c)
            if mult % 2 == 1 and mult > 1:
                rep.ok("R27-hash-mult", key, nontrivial=False, sample={"multiplier": mult})
            else:
                rep.violation("R27-hash-mult", key, "%s multiplies the running hash by %d, which is even: after %d steps the parts that entered first have left the 32-bit "
                              "value -- the keys of a long input collide by the thousand, every lookup walks through them" % (
                                  f.name, mult, 32 // max(1, (mult & -mult).bit_length() - 1) if mult > 0 else 1), where=i.where(), witness=[i.where()])
    rep.floor("R27-hash-mult", "multiplications in the hash functions", n, 8)
