"""R4 -- bounded writes and reads."""
import re

from ..model import resolve_addr, strip_casts, strip_int_casts, const_int, loaded_from, alloca_reaching_value
from ..core import AnalysisBroken

FMT_RE = re.compile(r"%([-+ #0]*)(\*|\d+)?(?:\.(\*|\d+))?(hh|h|ll|l|z|j|t|L)?([diouxXcsp%eEfgG])")


def _array_len(ty):
    m = re.match(r"\[(\d+) x i8\]", ty or "")
    return int(m.group(1)) if m else None


def _buffer_size(p, f, op):
    """size in bytes of the char buffer `op' points into (struct field array or local array)"""
    pa = resolve_addr(f, op)
    lf = pa.last_field()
    if lf is not None:
        sname, fname = lf.rsplit(".", 1)
        st = p.m.structs.get(sname)
        if st:
            for fl in st["fields"]:
                if fl["name"] == fname:
                    return _array_len(fl["ty"]), lf
    if pa.root[0] == "alloca":
        a = f.insts[pa.root[1]]
        return _array_len(a.d.get("alloc_ty")), "local " + (a.d.get("var") or a.d.get("name") or "buffer")
    return None, None


def _str_arg_bound(p, f, call, arg):
    """upper bound of strlen(arg) or None (unbounded), with a description of the origin"""
    s = p.m.string_of(arg)
    if s is not None:
        return len(s), "literal"
    a = strip_casts(f, arg)
    pa = resolve_addr(f, a)
    if pa.root[0] == "alloca":
        al = f.insts[pa.root[1]]
        n = _array_len(al.d.get("alloc_ty"))
        if n is not None:
            # bounded copy into the array followed by NUL at the last index, both dominating the call
            cp = [i for i in f.calls() if i.callee in ("strncpy",) and resolve_addr(f, i.args[0]).root == pa.root
                  and const_int(i.args[2]) is not None and const_int(i.args[2]) <= n and f.inst_dominates(i, call)]
            nul = False
            for i in f.all_insts():
                if i.op == "store" and const_int(i.ops[0]) == 0 and f.inst_dominates(i, call):
                    q = resolve_addr(f, i.ops[1])
                    if q.root == pa.root and any(s[0] == "idx" and const_int(s[1]) == n - 1 for s in q.steps):
                        nul = True
            if cp and nul:
                return n - 1, "local char[%d] filled by strncpy + NUL" % n
        return None, "local buffer without a bounded, terminated copy"
    lp = loaded_from(f, a)
    if lp is not None:
        return None, "string loaded from " + (lp.last_field() or str(lp.root))
    if a.get("k") == "a":
        return None, "parameter `%s'" % f.args[a["v"]]["name"]
    ai = f.inst(a)
    if ai is not None and ai.op == "load":
        rv = alloca_reaching_value(f, ai)
        if rv is not None:
            ri = f.inst(strip_casts(f, rv))
            if ri is not None and ri.is_call():
                return None, "string returned by " + (ri.callee or "a user callback")
    if ai is not None and ai.is_call():
        return None, "string returned by " + (ai.callee or "a user callback")
    return None, "unknown string"


def _local_string_terminated(f, call, arg):
    """for a %s argument that is a local char array: (True, how) when a NUL is known to be inside the array when the call reads it, (False, why) when not,
    (None, None) when the argument is not a local array"""
    a = strip_casts(f, arg)
    pa = resolve_addr(f, a)
    if pa.root[0] != "alloca":
        return None, None
    al = f.insts[pa.root[1]]
    n = _array_len(al.d.get("alloc_ty"))
    if n is None:
        return None, None
    copies = [i for i in f.calls() if i.callee in ("strncpy", "memcpy", "llvm.memcpy.p0i8.p0i8.i64") and i.args and resolve_addr(f, i.args[0]).root == pa.root
              and f.inst_dominates(i, call)]
    fills = [i for i in f.calls() if (i.callee or "").startswith("llvm.memset") and resolve_addr(f, i.args[0]).root == pa.root and const_int(i.args[1]) == 0
             and const_int(i.args[2]) is not None and const_int(i.args[2]) >= n and f.inst_dominates(i, call)]
    nuls = []
    for i in f.all_insts():
        if i.op == "store" and const_int(i.ops[0]) == 0 and f.inst_dominates(i, call):
            q = resolve_addr(f, i.ops[1])
            if q.root == pa.root:
                idx = [const_int(s_[1]) for s_ in q.steps if s_[0] in ("idx", "ptr")]
                j = idx[-1] if idx else 0
                if j is not None and 0 <= j <= n - 1:
                    nuls.append((i, j))
    if not copies:
        return None, None
    for c in copies:
        k = const_int(c.args[2])
        if k is None or k > n:
            return False, "the copy into the local array is not bounded by its size"
        ok = False
        for (st, j) in nuls:
            # the terminator is written after the copy, or at a place the copy does not reach
            if f.inst_dominates(c, st) or j >= k:
                ok = True
        if not ok and fills and k <= n - 1 and all(f.inst_dominates(z, c) for z in fills):
            ok = True
        if not ok and c.callee != "strncpy":
            ok = None
        if ok is False:
            return False, "strncpy of up to %d bytes into the local char[%d] and no terminating NUL stored behind it before the use: a source of %d characters or more leaves the array unterminated" % (k, n, k)
    return True, "bounded copy + NUL"


def fmt_expansion(p, f, call, fmt, args):
    """(max length or None, reason)"""
    total = 0
    pos = 0
    k = 0
    for m in FMT_RE.finditer(fmt):
        total += m.start() - pos
        pos = m.end()
        conv = m.group(5)
        if conv == "%":
            total += 1
            continue
        if m.group(2) == "*" or m.group(3) == "*":
            return None, "`*' width/precision"
        width = int(m.group(2)) if m.group(2) else 0
        prec = int(m.group(3)) if m.group(3) else None
        if k >= len(args):
            return None, "missing argument"
        a = args[k]
        k += 1
        if conv in "di":
            n = 20 if m.group(4) in ("l", "ll", "z", "j") else 11
        elif conv in "ouxX":
            n = 22 if m.group(4) in ("l", "ll", "z", "j") else 11
        elif conv == "c":
            n = 1
        elif conv == "p":
            n = 18
        elif conv == "s":
            if prec is not None:
                n = prec
            else:
                n, why = _str_arg_bound(p, f, call, a)
                if n is None:
                    return None, "%%s argument %d: %s" % (k, why)
        else:
            return None, "floating point conversion"
        total += max(n, width)
    total += len(fmt) - pos
    return total, "ok"


def rule_R4a(ctx, rep, config="c-lib"):
    rep.rule("R4a", "every formatted write into a fixed-size char buffer is bounded: the sink is size-limited (vsnprintf/snprintf with a size not above the "
                    "buffer) or the maximal expansion of the format literal (11 per %d, literal length / bounded-copy length per %s, otherwise unbounded) fits")
    p = ctx.prog(config)
    m = p.m
    ye = p.fn("yaep_error")
    # sink inside yaep_error
    sinks = [i for i in ye.calls() if i.callee in ("vsprintf", "vsnprintf")]
    if len(sinks) != 1:
        raise AnalysisBroken("yaep_error: expected exactly one v(s)nprintf sink, found %d" % len(sinks))
    sink = sinks[0]
    bufsize, bufname = _buffer_size(p, ye, sink.args[0])
    if bufsize is None:
        raise AnalysisBroken("yaep_error: cannot size the message buffer")
    bounded_sink = False
    if sink.callee == "vsnprintf":
        n = const_int(sink.args[1])
        bounded_sink = n is not None and 0 < n <= bufsize
        if not bounded_sink:
            rep.violation("R4a", "yaep_error/sink", "vsnprintf is given size %s for a %d byte buffer" % (n, bufsize), where=sink.where())
    sites = [(f, i) for f in m.defined() for i in f.calls() if i.callee == "yaep_error"]
    rep.call_sites += len(sites)
    rep.cover(p, set(f.name for f, _ in sites))
    ordinal = {}
    for (f, i) in sites:
        k = ordinal[f.name] = ordinal.get(f.name, 0) + 1
        code = const_int(i.args[0])
        key = "%s/yaep_error#%d(code %s)" % (f.name, k, code)
        fmt = m.string_of(i.args[1])
        if fmt is None:
            if bounded_sink:
                rep.ok("R4a", key, "non-literal format, bounded sink")
            else:
                rep.violation("R4a", key, "non-literal format string written with an unbounded vsprintf", where=i.where())
            continue
        # a %s argument that is a local array is a string: terminated inside the array
        unterminated = None
        k_ = 0
        for m_ in FMT_RE.finditer(fmt):
            if m_.group(5) == "%":
                continue
            if k_ < len(i.args) - 2 and m_.group(5) == "s":
                t_, how = _local_string_terminated(f, i, i.args[2 + k_])
                if t_ is False:
                    unterminated = how
            k_ += 1
        if unterminated:
            rep.violation("R4a", key + "/terminated", "the %%s argument of the message `%s' is a local buffer that need not hold a NUL: %s -- the formatting reads behind "
                          "the array (stack contents in the error message, or a fault)" % (fmt, unterminated), where=i.where(), witness=[i.where()])
        n, why = fmt_expansion(p, f, i, fmt, i.args[2:])
        if bounded_sink or (n is not None and n < bufsize):
            rep.ok("R4a", key, nontrivial=True, sample={"site": i.where(), "format": fmt, "max_expansion": n if n is not None else "unbounded (" + why + ")",
                                                       "sink": sink.callee, "buffer": bufsize})
        else:
            rep.violation("R4a", key, "the message `%s' can be longer than the %d byte error_message buffer (%s) and is written with %s: heap overflow inside the grammar object" % (
                fmt, bufsize, why if n is None else "up to %d bytes" % n, sink.callee), witness=[i.where(), "sink: " + sink.where()], where=i.where())
    rep.floor("R4a", "yaep_error call sites", len(sites), 18)
    # plain sprintf/strcpy into fixed buffers anywhere in the library
    n2 = 0
    for f in m.defined():
        for i in f.calls():
            if i.callee == "sprintf":
                n2 += 1
                size, name = _buffer_size(p, f, i.args[0])
                fmt = m.string_of(i.args[1])
                key = "%s/sprintf" % f.name
                if size is None or fmt is None:
                    rep.violation("R4a", key, "sprintf into a buffer of unknown size or with a non-literal format", where=i.where())
                    continue
                n, why = fmt_expansion(p, f, i, fmt, i.args[2:])
                if n is not None and n < size:
                    rep.ok("R4a", key, sample={"site": i.where(), "format": fmt, "max_expansion": n, "buffer": size})
                else:
                    rep.violation("R4a", key, "sprintf of `%s' (%s) into %s[%d]" % (fmt, why if n is None else "up to %d bytes" % n, name, size), where=i.where())
            elif i.callee == "strcpy":
                size, name = _buffer_size(p, f, i.args[0])
                if size is None:
                    continue  # heap destination sized by strlen: R7/T1's subject
                n2 += 1
                s = m.string_of(i.args[1])
                key = "%s/strcpy->%s" % (f.name, name)
                if s is not None and len(s) < size:
                    rep.ok("R4a", key, sample={"site": i.where(), "literal_length": len(s), "buffer": size})
                else:
                    rep.violation("R4a", key, "strcpy of an unbounded string into %s[%d]" % (name, size), where=i.where())
    rep.floor("R4a", "sprintf/strcpy into fixed buffers", n2, 1)


# ------------------------------------------------------------------------------------------
# R4c / R4d : guarded table index, initialisation completeness
from ..expr import lin as _lin0, Lin, addr_str as _addr_str0, load_fields_in  # noqa: E402

_LD = [99]


def lin(f, op):
    return _lin0(f, op, 0, _LD[0])


def addr_str(f, op):
    return _addr_str0(f, op, 0, _LD[0])



class InitLoop(object):
    def __init__(self, f, header, base, count, store, value):
        self.f, self.header, self.base, self.count, self.store, self.value = f, header, base, count, store, value

    def __repr__(self):
        return "InitLoop(%s: %r[0..%r) at %s)" % (self.f.name, self.base, self.count, self.store.where())


def init_loops(f):
    """loops of the form  for (i = c0; i </<= B; i++) P[i] = V   and
    for (p = P; p < P + N; p++) *p = V.   Returns InitLoop records with P and the element
    count as linear forms."""
    res = []
    for L in f.loops():
        H = f.bmap[L["header"]]
        body = L["body"]
        # the block that tests the exit condition: header (for/while) or single latch (do-while)
        for tb in [H] + [f.bmap[x] for x in L["latches"]]:
            t = tb.term
            if t is None or t.op != "br" or len(t.ops) != 3:
                continue
            td, fd = t.ops[2]["v"], t.ops[1]["v"]
            if (td in body) == (fd in body):
                continue
            stay_true = td in body
            c = f.inst(t.ops[0])
            if c is None or c.op != "icmp":
                continue
            pred = c.d["pred"]
            if not stay_true:
                pred = {"slt": "sge", "sle": "sgt", "ult": "uge", "ule": "ugt", "sgt": "sle", "sge": "slt", "ugt": "ule", "uge": "ult", "ne": "eq", "eq": "ne"}.get(pred)
            # find induction phi among the operands
            for (xo, yo, pr) in ((c.ops[0], c.ops[1], pred), (c.ops[1], c.ops[0], {"slt": "sgt", "sle": "sge", "ult": "ugt", "ule": "uge", "sgt": "slt", "sge": "sle", "ugt": "ult", "uge": "ule"}.get(pred, pred))):
                if pr not in ("slt", "sle", "ult", "ule", "ne"):
                    continue
                x = _strip_ext(f, xo)
                xi = f.inst(x)
                if xi is None or xi.op != "phi" or xi.block.name != L["header"]:
                    continue
                init = [iv for (iv, pb) in xi.d["incoming"] if pb not in body]
                step = [iv for (iv, pb) in xi.d["incoming"] if pb in body]
                if len(init) != 1 or not step:
                    continue
                st_ok = True
                stride = None
                for sv in step:
                    d = lin(f, sv).add(lin(f, x), -1)
                    if not d.is_const() or d.c <= 0:
                        st_ok = False
                    stride = d.c if d.is_const() else None
                if not st_ok:
                    continue
                init_l = lin(f, init[0])
                bound = lin(f, yo)
                is_ptr = xi.ty.endswith("*")
                # stores executed on every iteration through the induction variable
                for bn in body:
                    for s in f.bmap[bn].insts:
                        if s.op != "store":
                            continue
                        if not all(f.dominates(bn, la) for la in L["latches"]):
                            continue
                        if is_ptr:
                            if _strip_ext(f, s.ops[1]) != x:
                                continue
                            eltsize = stride
                            n = bound.add(init_l, -1).div(eltsize) if eltsize else None
                            if n is None:
                                continue
                            if pr in ("sle", "ule"):
                                n = n.add(Lin(1))
                            base = init_l
                            res.append(InitLoop(f, L["header"], base, n, s, s.ops[0]))
                        else:
                            if stride != 1:
                                continue
                            pa = resolve_addr(f, s.ops[1])
                            if not pa.steps or pa.steps[-1][0] not in ("ptr", "idx"):
                                continue
                            if _strip_ext(f, pa.steps[-1][1]) != x:
                                continue
                            # base pointer = address without the last step
                            base = _base_lin(f, s.ops[1])
                            if base is None:
                                continue
                            n = bound.add(init_l, -1)
                            if pr in ("sle", "ule"):
                                n = n.add(Lin(1))
                            if not init_l.is_const() or init_l.c != 0:
                                continue
                            res.append(InitLoop(f, L["header"], base, n, s, s.ops[0]))
                # the slot base[i] is written through a cursor that starts at it:  p = &base[i]; while (..) { *p = ..; p = &..; }  *p = ..;
                # every position of the cursor is stored through before the cursor advances (body) or dies (exit), so its first one, base[i], is too
                if not is_ptr and stride == 1 and init_l.is_const() and init_l.c == 0:
                    for bn in body:
                        for g in f.bmap[bn].insts:
                            if g.op != "getelementptr" or len(g.d["path"]) != 1 or "ptr" not in g.d["path"][0] or _strip_ext(f, g.d["path"][0]["ptr"]) != x:
                                continue
                            for P in f.uses().get(g.id, []):
                                if P.op != "phi" or P.block.name not in body:
                                    continue
                                inner = [L2 for L2 in f.loops() if L2["header"] == P.block.name and L2["body"] < body]
                                if len(inner) != 1:
                                    continue
                                L2 = inner[0]
                                if [iv for (iv, pb) in P.d["incoming"] if pb not in L2["body"]] != [{"k": "i", "v": g.id}]:
                                    continue
                                if not all(f.dominates(P.block.name, la) for la in L["latches"]):
                                    continue
                                steps2 = [f.inst(_strip_ext(f, iv)) for (iv, pb) in P.d["incoming"] if pb in L2["body"]]
                                through = [s_ for s_ in f.all_insts() if s_.op == "store" and s_.ops[1] == {"k": "i", "v": P.id}]
                                in_body = [s_ for s_ in through if s_.block.name in L2["body"] and all(f.dominates(s_.block.name, la) for la in L2["latches"])]
                                exits2 = set(t_ for b2 in L2["body"] for t_ in f.bmap[b2].succs if t_ not in L2["body"])
                                at_exit = [s_ for s_ in through if s_.block.name in exits2]
                                if in_body and len(exits2) == 1 and at_exit and all(st is not None for st in steps2):
                                    base = lin(f, g.d["base"])
                                    n = bound.add(init_l, -1)
                                    if pr in ("sle", "ule"):
                                        n = n.add(Lin(1))
                                    res.append(InitLoop(f, L["header"], base, n, at_exit[0], at_exit[0].ops[0]))
    return res


def _strip_ext(f, op):
    while op.get("k") == "i":
        i = f.insts.get(op["v"])
        if i is not None and i.op in ("sext", "zext", "trunc", "bitcast"):
            op = i.ops[0]
        else:
            break
    return op


def _base_lin(f, addr):
    """linear form of the pointer that is indexed by the last GEP step"""
    a = _strip_ext(f, addr)
    i = f.inst(a)
    if i is None or i.op != "getelementptr":
        return None
    path = i.d["path"]
    if len(path) == 1 and "ptr" in path[0]:
        return lin(f, i.d["base"])
    return None


class Alloc(object):
    def __init__(self, f, inst, ptr_lin, nbytes, kind):
        self.f, self.inst, self.ptr, self.nbytes, self.kind = f, inst, ptr_lin, nbytes, kind


def allocations(f):
    """array allocations in f: yaep_malloc/realloc results, and OS_TOP_EXPAND'ed top objects"""
    out = []
    for i in f.calls():
        if i.callee in ("yaep_malloc",):
            out.append(Alloc(f, i, Lin(0, {"call#%d" % i.id: 1}), lin(f, i.args[1]), "malloc"))
        elif i.callee == "yaep_calloc":
            out.append(Alloc(f, i, Lin(0, {"call#%d" % i.id: 1}), lin(f, i.args[1]).scale(1) if False else None, "calloc"))
    for i in f.calls():
        if not i.callee:
            lp = loaded_from(f, i.d["callee_op"])
            if lp is not None and lp.root == ("g", "parse_alloc") and i.args:
                out.append(Alloc(f, i, Lin(0, {"call#%d" % i.id: 1}), lin(f, i.args[0]), "parse_alloc"))
    # OS_TOP_EXPAND:  os.os_top_object_free = os.os_top_object_free + LEN
    for s in f.all_insts():
        if s.op != "store":
            continue
        pa = resolve_addr(f, s.ops[1])
        if pa.last_field() != "os_t.os_top_object_free":
            continue
        v = f.inst(_strip_ext(f, s.ops[0]))
        if v is None or v.op != "getelementptr" or len(v.d["path"]) != 1 or "ptr" not in v.d["path"][0]:
            continue
        b = f.inst(_strip_ext(f, v.d["base"]))
        if b is None or b.op != "load" or resolve_addr(f, b.ops[0]).last_field() != "os_t.os_top_object_free":
            continue
        length = lin(f, v.d["path"][0]["ptr"])
        osobj = addr_str(f, s.ops[1]).rsplit(".os_t.os_top_object_free", 1)[0]
        out.append(Alloc(f, s, Lin(0, {"L[" + osobj + ".os_t.os_top_object_start]": 1}), length, "os_top_expand"))
    return out


def rule_R4d(ctx, rep, config="c-lib"):
    rep.rule("R4d", "initialisation completeness of tables that are later read at an index chosen by input or by another phase: the allocation of N elements is "
                    "followed by a loop whose store address is base + i for an induction variable i running over [0, N) -- allocation size and loop bound are compared "
                    "as symbolic linear expressions over the same SSA values / unmodified memory -- or the array is zero-allocated")
    p = ctx.prog(config)
    m = p.m
    TABLE = [
        # (function, how the array is recognised, element size, human name)
        ("symb_finish_adding_terms", ("stored_to_field", "symbs.symb_code_trans_vect"), 8, "terminal code translation vector"),
        ("create_hash_table", ("stored_to_field", "hash_table_t.entries"), 8, "hash table entries (create)"),
        ("make_parse", ("local_var", "term_node_array"), 8, "per-token terminal node array"),
        ("rule_new_stop", ("stored_to_field", "rule.order"), 4, "rule translation order"),
        ("sit_create", ("os_row", "sits_os"), 8, "situation table row"),
        ("core_symb_vect_addr_get", ("os_row", "core_symb_tab_rows"), 8, "(set core, symbol) table row"),
        ("make_parse", ("tree_children", "anode.children"), 8, "child array of a new abstract node (trans_len + 1 slots, NULL-terminated)"),
        ("copy_anode", ("tree_children", "anode.children"), 8, "child array of a copied abstract node"),
    ]
    n = 0
    for (fname, how, elt, human) in TABLE:
        f = p.fn(fname)
        rep.cover(p, [fname])
        key = "%s/%s" % (fname, how[1])
        verdict = None
        for ld in (0, 1, 2, 3, 4, 99):
            _LD[0] = ld
            verdict = _decide_table(p, f, fname, how, elt, human)
            if verdict[0] == "ok":
                break
        _LD[0] = 99
        n += 1
        if verdict[0] == "ok":
            rep.ok("R4d", key, sample=verdict[1])
        elif verdict[0] == "broken":
            raise AnalysisBroken(verdict[1])
        else:
            rep.violation("R4d", key, verdict[1], witness=verdict[2], where=verdict[2][-1])
    rep.floor("R4d", "tables with an initialisation obligation", n, 6)


def _short(l):
    s = repr(l)
    return s if len(s) < 90 else s[:40] + " ... " + s[-40:]


def _decide_table(p, f, fname, how, elt, human):
    m = p.m
    key = None
    als = allocations(f)
    loops = init_loops(f)
    cand = []
    for a in als:
        if how[0] == "stored_to_field":
            # the allocated pointer (possibly via a local) is stored into the field
            if _flows_to_field(f, a, how[1]):
                cand.append(a)
        elif how[0] == "local_var":
            if a.kind in ("malloc", "calloc") and _flows_to_var(f, a, how[1]):
                cand.append(a)
        elif how[0] == "os_row":
            if a.kind == "os_top_expand" and ("@" + how[1]) in repr(a.ptr) and _in_loop(f, a.inst):
                cand.append(a)
        elif how[0] == "tree_children":
            if a.kind == "parse_alloc" and not a.nbytes.is_const() and a.nbytes.add(Lin(-m.structs["yaep_tree_node"]["size"])).div(elt) is not None:
                cand.append(a)
    if len(cand) != 1:
        return ("broken", "%s: expected one allocation of the %s, found %d" % (fname, human, len(cand)))
    a = cand[0]
    if a.kind == "calloc":
        return ("ok", {"array": human, "allocation": a.inst.where(), "zero_allocated": True})
    if how[0] == "tree_children":
        hdr = m.structs["yaep_tree_node"]["size"]
        nel = a.nbytes.add(Lin(-hdr)).div(elt)
    else:
        nel = a.nbytes.div(elt)
    if nel is None:
        return ("broken", "%s: allocation size %r of the %s is not a multiple of the element size %d" % (fname, a.nbytes, human, elt))
    good = None
    near = []
    for L in loops:
        if not f.inst_dominates(a.inst, f.bmap[L.header].insts[0]):
            continue
        if not _same_array(f, a, L, how):
            continue
        near.append(L)
        if L.count == nel and not _stored_between(f, a, L, nel):
            good = L
    if good is not None:
        return ("ok", {"array": human, "allocation": a.inst.where(), "elements": repr(nel), "init_loop": good.store.where(), "loop_count": repr(good.count)})
    elif near:
        return ("viol", "the %s has %s elements but the initialising loop covers %s%s" % (human, _short(nel), _short(near[0].count),
                " (or memory the bound reads is modified in between)" if near[0].count == nel else ""), [a.inst.where(), near[0].store.where()])
    return ("viol", "the %s (%s elements) is not completely initialised after its allocation: slots that no later store reaches hold indeterminate "
                    "values and are read when an index hits them" % (human, _short(nel)), [a.inst.where()])


def _stored_between(f, a, L, nel):
    """is memory read by the compared expressions stored to after the allocation?"""
    import re as _re
    locs = set()
    for atom in nel.atoms() + L.count.atoms():
        for mm in _re.finditer(r"\.([A-Za-z_][\w.]*?\.[A-Za-z_]\w*)\]", atom):
            locs.add(("fld", mm.group(1)))
        for mm in _re.finditer(r"L\[@(\w+)\]", atom):
            locs.add(("g", mm.group(1)))
    if not locs:
        return False
    after = f.reachable_from(a.inst.block.name)
    for s in f.all_insts():
        if s.op != "store" or s.block.name not in after:
            continue
        if s.block is a.inst.block and s.idx < a.inst.idx:
            continue
        pa = resolve_addr(f, s.ops[1])
        lf = pa.last_field()
        if lf and ("fld", lf) in locs:
            return True
        if pa.root[0] == "g" and not pa.steps and ("g", pa.root[1]) in locs:
            return True
    return False


def _in_loop(f, inst):
    return any(inst.block.name in L["body"] for L in f.loops())


def _flows_to_field(f, a, field):
    if a.kind == "os_top_expand":
        # a load of os_top_object_start of the same OS is stored into the field
        for s in f.all_insts():
            if s.op == "store" and resolve_addr(f, s.ops[1]).last_field() == field and f.inst_dominates(a.inst, s):
                if lin(f, s.ops[0]) == a.ptr:
                    return True
        return False
    for s in f.all_insts():
        if s.op == "store" and resolve_addr(f, s.ops[1]).last_field() == field:
            if lin(f, s.ops[0]) == a.ptr:
                return True
    return False


def _flows_to_var(f, a, var):
    i = a.inst
    seen = set()
    work = [i.id]
    while work:
        x = work.pop()
        if x in seen:
            continue
        seen.add(x)
        xi = f.insts[x]
        if xi.d.get("var") == var:
            return True
        for u in f.uses().get(x, []):
            if u.op in ("bitcast", "phi"):
                work.append(u.id)
    return False


def _same_array(f, a, L, how):
    """does the loop's base pointer denote the allocated array?"""
    if L.base == a.ptr:
        return True
    if how[0] == "tree_children":
        # base = load of X->val.anode.children where X is the allocated node and that field
        # was assigned (char *) X + sizeof (struct yaep_tree_node)
        hdr = f.model.structs["yaep_tree_node"]["size"]
        for s in f.all_insts():
            if s.op == "store" and resolve_addr(f, s.ops[1]).last_field() == "yaep_anode.children" and lin(f, s.ops[0]) == a.ptr.add(Lin(hdr)):
                cell = "L[" + addr_str(f, s.ops[1]) + "]"
                if L.base == Lin(0, {cell: 1}):
                    return True
        return False
    # base is a load of the cell the allocation was stored into
    for s in f.all_insts():
        if s.op == "store" and lin(f, s.ops[0]) == a.ptr and f.inst_dominates(a.inst, s):
            cell = "L[" + addr_str(f, s.ops[1]) + "]"
            if L.base == Lin(0, {cell: 1}):
                return True
    return False


def rule_R4c(ctx, rep, config="c-lib"):
    rep.rule("R4c", "every read of an element of the terminal code translation vector is guarded: the index is code - start and the controlling branches imply "
                    "code - start >= 0 and end - code - 1 >= 0 (conditions normalised to linear inequalities); the vector has end - start elements")
    from .r5 import _controlling_conditions
    p = ctx.prog(config)
    m = p.m
    VEC, START, END = "symbs.symb_code_trans_vect", "symbs.symb_code_trans_vect_start", "symbs.symb_code_trans_vect_end"
    nreads = 0
    _LD[0] = 99
    for f in m.defined():
        for i in f.all_insts():
            if i.op != "load":
                continue
            pa = resolve_addr(f, i.ops[0])
            # element read: address = (load of the VEC field) + index
            if not pa.steps or pa.steps[-1][0] not in ("ptr", "idx") or pa.root[0] != "val":
                continue
            lp = loaded_from(f, pa.root[1])
            if lp is None or lp.last_field() != VEC or len(pa.steps) != 1:
                continue
            nreads += 1
            key = "%s/%s[]#%d" % (f.name, VEC, nreads)
            idx = lin(f, pa.steps[-1][1])
            # atoms for start / end as loaded in this function
            cons = []
            for (c, pol) in _controlling_conditions(f, i.block.name):
                a, b = lin(f, c.ops[0]), lin(f, c.ops[1])
                pr = c.d["pred"]
                form = None
                if pr == "slt":
                    form = b.add(a, -1).add(Lin(-1)) if pol else a.add(b, -1)
                elif pr == "sge":
                    form = a.add(b, -1) if pol else b.add(a, -1).add(Lin(-1))
                elif pr == "sgt":
                    form = a.add(b, -1).add(Lin(-1)) if pol else b.add(a, -1)
                elif pr == "sle":
                    form = b.add(a, -1) if pol else a.add(b, -1).add(Lin(-1))
                if form is not None:
                    cons.append(form)
            start_atoms = [a for a in idx.atoms() if a.endswith(START + "]")]
            if len(start_atoms) != 1 or idx.t.get(start_atoms[0]) != -1:
                rep.violation("R4c", key, "the translation vector is indexed by %r, expected code - start" % idx, where=i.where())
                continue
            code = idx.add(Lin(0, {start_atoms[0]: 1}))
            end_atom = start_atoms[0][: -len(START) - 1] + END + "]"
            need_lo = idx
            need_hi = Lin(0, {end_atom: 1}).add(code, -1).add(Lin(-1))
            lo = any(cn == need_lo or (cn.add(need_lo, -1).is_const() and cn.add(need_lo, -1).c <= 0) for cn in cons)
            hi = any(cn == need_hi or (cn.add(need_hi, -1).is_const() and cn.add(need_hi, -1).c <= 0) for cn in cons)
            if lo and hi:
                rep.ok("R4c", key, sample={"read": i.where(), "index": repr(idx), "guards": [repr(c) + " >= 0" for c in cons]})
            else:
                rep.violation("R4c", key, "the read of the translation vector at index %r is not guarded by %s: an out-of-range token code indexes outside the vector" % (
                    idx, " and ".join(x for x, ok in (("code >= start", lo), ("code < end", hi)) if not ok)), witness=[i.where()] + [repr(c) + " >= 0 is established" for c in cons],
                    where=i.where())
    rep.floor("R4c", "guarded reads of the code translation vector", nreads, 1)
    # extent: stored end - stored start == allocated elements
    f = p.fn("symb_finish_adding_terms")
    se = [i for i in f.all_insts() if i.op == "store" and resolve_addr(f, i.ops[1]).last_field() == END]
    ss = [i for i in f.all_insts() if i.op == "store" and resolve_addr(f, i.ops[1]).last_field() == START]
    al = [a for a in allocations(f) if _flows_to_field(f, a, VEC)]
    if len(se) != 1 or len(ss) != 1 or len(al) != 1:
        raise AnalysisBroken("symb_finish_adding_terms: start/end/allocation not found once each")
    nel = al[0].nbytes.div(8)
    ext = lin(f, se[0].ops[0]).add(lin(f, ss[0].ops[0]), -1)
    if nel is not None and ext == nel:
        rep.ok("R4c", "symb_finish_adding_terms/extent", sample={"elements": repr(nel), "end-start": repr(ext)})
    else:
        rep.violation("R4c", "symb_finish_adding_terms/extent", "the vector has %r elements but the accepted code range end - start is %r" % (nel, ext), where=al[0].inst.where())


def _alts(f, op, depth=0):
    """linear forms an operand can take (phis expanded, multiplication of an expanded phi by a constant kept)"""
    from ..expr import lin as _lin2
    from ..model import strip_int_casts as _sic
    i = f.inst(_sic(f, op))
    if i is not None and depth < 4:
        if i.op == "phi":
            out = []
            for (v, _) in i.d["incoming"]:
                if v.get("k") == "undef":
                    continue
                out += _alts(f, v, depth + 1)
            return out
        if i.op == "mul" and const_int(i.ops[1]) is not None:
            return [a.scale(const_int(i.ops[1])) for a in _alts(f, i.ops[0], depth + 1)]
        if i.op == "add" and const_int(i.ops[1]) is not None:
            from ..expr import Lin as _L
            return [a.add(_L(const_int(i.ops[1]))) for a in _alts(f, i.ops[0], depth + 1)]
    return [_lin2(f, op, 0, 1)]


GROW_BY_ONE = {"vlo_array_expand": "the index is the number of elements in use; one element is appended at a time"}


def rule_R4e(ctx, rep, config="c-lib"):
    rep.rule("R4e", "a table that is grown on demand (`if (index is behind the end) VLO_EXPAND (table, amount)') is grown far enough for the index that was asked for: "
                    "every value the amount can take depends on the index of the guard (linear forms over the same entities; phis expanded).  A growth by a fixed chunk "
                    "leaves an index that jumped ahead -- a context, situation or core number kept in the grammar object from an earlier parse -- outside the table")
    from ..expr import lin as _lin2, Lin as _L
    from .r5 import _controlling_conditions
    from .. import expr as _e
    p = ctx.prog(config)
    n = 0
    _e.NAMED[0] = True
    try:
        for f in p.m.defined():
            if f.module and not f.module.startswith("yaep."):
                continue
            for s in f.all_insts():
                if s.op != "store":
                    continue
                pa = resolve_addr(f, s.ops[1])
                if not (pa.last_field() or "").endswith("vlo_t.vlo_free"):
                    continue
                v = f.inst(strip_casts(f, s.ops[0]))
                if v is None or v.op != "getelementptr":
                    continue
                base = _lin2(f, v.d["base"], 0, 1)
                fa = [a for a in base.t if a.endswith("vlo_free]")]
                if len(fa) != 1 or len(base.t) != 1 or len(v.d["path"]) != 1 or "ptr" not in v.d["path"][0]:
                    continue
                amt_op = v.d["path"][0]["ptr"]
                # guard: a controlling condition that mentions this container's extent
                cont = fa[0].split(".vlo_t.")[0]
                guard = None
                for (c, pol) in _controlling_conditions(f, s.block.name):
                    a, b = _lin2(f, c.ops[0], 0, 1), _lin2(f, c.ops[1], 0, 1)
                    atoms = set(a.t) | set(b.t)
                    subs = " ".join(atoms)
                    if cont + ".vlo_t.vlo_free" in subs or cont + ".vlo_t.vlo_start" in subs:
                        guard = (c, pol, a, b)
                        break
                if guard is None:
                    continue
                c, pol, a, b = guard
                idx_atoms = set()
                for side in (a, b):
                    for at in side.t:
                        for piece in _pieces(at):
                            if cont + ".vlo_t" not in piece:
                                idx_atoms.add(piece)
                if not idx_atoms:
                    continue
                n += 1
                rep.cover(p, [f.name])
                key = "%s/grow-%s#%d" % (f.name, cont.split("@")[-1].split("]")[0].replace("L[", ""), n)
                alts = _alts(f, amt_op)
                bad = [al for al in alts if not any(ia in " ".join(al.t) for ia in idx_atoms)]
                stepwise = False
                for L in f.loops():
                    if s.block.name in L["body"]:
                        t_ = f.bmap[L["header"]].term
                        hc = f.inst(t_.ops[0]) if (t_ is not None and len(t_.ops) == 3) else None
                        if hc is not None and hc.op == "icmp":
                            hs = " ".join(list(_lin2(f, hc.ops[0], 0, 1).t) + list(_lin2(f, hc.ops[1], 0, 1).t))
                            if any(ia in hs for ia in idx_atoms):
                                stepwise = True
                if bad and stepwise:
                    rep.ok("R4e", key, sample={"growth": s.where(), "index": sorted(idx_atoms), "how": "element by element in a loop that runs up to the index"})
                elif not bad:
                    rep.ok("R4e", key, sample={"growth": s.where(), "index": sorted(idx_atoms), "amount": [repr(x) for x in alts][:3]})
                elif f.name in GROW_BY_ONE and all(al.is_const() for al in alts):
                    rep.ok("R4e", key, sample={"growth": s.where(), "exception": GROW_BY_ONE[f.name]})
                else:
                    rep.violation("R4e", key, "the table is grown by %s, which does not depend on the index that was found behind its end (%s): an index further ahead than one "
                                  "chunk -- numbers kept from an earlier parse on the same object -- stays outside the table and the element access that follows runs past "
                                  "it" % ([repr(x) for x in bad][:2], ", ".join(sorted(idx_atoms))), where=s.where(), witness=[c.where(), s.where()])
    finally:
        _e.NAMED[0] = False
    rep.floor("R4e", "tables grown on demand", n, 4)


def _pieces(atom):
    """innermost named entities of an atom string such as div(L[x] + -1*L[y],16)"""
    import re
    return re.findall(r"L\[[^\[\]]*(?:\[[^\[\]]*\][^\[\]]*)*\]|\b[A-Za-z_][A-Za-z_0-9]*\b(?!\()", atom)


# ---- R4f: writes into fixed-size character buffers stay inside ---------------------------------------------------------------

def _edge_conditions(f, pb, tb):
    """conditions known on the edge pb -> tb: those controlling pb, plus pb's own branch when tb is one side of it"""
    from .r5 import _controlling_conditions
    out = list(_controlling_conditions(f, pb))
    t = f.bmap[pb].term
    if t is not None and t.op == "br" and len(t.ops) == 3 and t.ops[1]["v"] != t.ops[2]["v"]:
        c = f.inst(t.ops[0])
        pol = (t.ops[2]["v"] == tb)       # ops: cond, false-dest, true-dest
        while c is not None and c.op == "xor" and c.ty == "i1":
            c = f.inst(c.ops[0])
            pol = not pol
        if c is not None and c.op == "icmp" and tb in (t.ops[1]["v"], t.ops[2]["v"]):
            out.append((c, pol))
    return out


def _ub_from_conditions(f, v, conds):
    """smallest upper bound of the (unsigned) value v implied by conditions `v REL constant'"""
    best = None
    vid = strip_int_casts(f, v)
    for (c, pol) in conds:
        for (x, y, flip) in ((0, 1, False), (1, 0, True)):
            if strip_int_casts(f, c.ops[x]) != vid:
                continue
            k = const_int(c.ops[y])
            if k is None:
                continue
            pr = c.d["pred"]
            if pr[0] not in "us" or pr in ("eq", "ne"):
                if pr == "eq" and pol:
                    best = k if best is None else min(best, k)
                continue
            rel = pr[1:]
            if flip:
                rel = {"lt": "gt", "gt": "lt", "le": "ge", "ge": "le"}[rel]
            if not pol:
                rel = {"lt": "ge", "ge": "lt", "gt": "le", "le": "gt"}[rel]
            b = k - 1 if rel == "lt" else (k if rel == "le" else None)
            if b is not None:
                best = b if best is None else min(best, b)
    return best


def upper_bound(f, op, block, conds=None, depth=0):
    """an upper bound of the unsigned value `op' as seen in `block' (None: unknown)"""
    from .r5 import _controlling_conditions
    if conds is None:
        conds = _controlling_conditions(f, block)
    k = const_int(op)
    if k is not None:
        return k
    o = strip_int_casts(f, op)
    i = f.inst(o)
    direct = _ub_from_conditions(f, o, conds)
    if i is None or depth > 6:
        return direct
    res = None
    if i.op == "phi":
        bs = []
        for (v, pb) in i.d["incoming"]:
            if v.get("k") == "undef":
                continue
            bs.append(upper_bound(f, v, pb, _edge_conditions(f, pb, i.block.name), depth + 1))
        res = None if (not bs or any(b is None for b in bs)) else max(bs)
    elif i.op == "select":
        c = f.inst(i.ops[0])
        ca = list(conds) + ([(c, True)] if c is not None and c.op == "icmp" else [])
        cb = list(conds) + ([(c, False)] if c is not None and c.op == "icmp" else [])
        a, b = upper_bound(f, i.ops[1], block, ca, depth + 1), upper_bound(f, i.ops[2], block, cb, depth + 1)
        res = None if (a is None or b is None) else max(a, b)
    elif i.op in ("add", "sub") and const_int(i.ops[1]) is not None:
        a = upper_bound(f, i.ops[0], block, conds, depth + 1)
        k = const_int(i.ops[1])
        if a is not None and (i.op == "add" or a >= k):
            res = a + k if i.op == "add" else a - k
    if res is None:
        return direct
    return res if direct is None else min(res, direct)


WRITERS = {"strncpy": (0, 2), "memcpy": (0, 2), "memmove": (0, 2), "memset": (0, 2), "snprintf": (0, 1), "vsnprintf": (0, 1),
           "llvm.memcpy.p0i8.p0i8.i64": (0, 2), "llvm.memset.p0i8.i64": (0, 2), "llvm.memmove.p0i8.p0i8.i64": (0, 2)}


def rule_R4f(ctx, rep, config="c-lib"):
    rep.rule("R4f", "writes into fixed-size character buffers (local arrays, array members of the grammar object) stay inside: an element store has an index whose upper "
                    "bound -- constants, `?:' and merged values, and the comparisons with constants on the way -- is below the size; strncpy / memcpy / memset / "
                    "(v)snprintf get a length whose upper bound is not above the size (formatted writes without a size are judged by R4a)")
    p = ctx.prog(config)
    n = 0
    for f in p.m.defined():
        for i in f.all_insts():
            if i.op == "store":
                pa = resolve_addr(f, i.ops[1])
                if not pa.steps or pa.steps[-1][0] != "idx":
                    continue
                size, name = _buffer_size(p, f, i.ops[1]) if pa.root[0] == "alloca" or pa.last_field() else (None, None)
                if size is None:
                    continue
                # the index into the array itself (the last step), lower steps are the struct path
                idx = pa.steps[-1][1]
                n += 1
                rep.cover(p, [f.name])
                key = "%s/%s[index]#%d" % (f.name, name, n)
                b = upper_bound(f, idx, i.block.name)
                if b is not None and b < size:
                    rep.ok("R4f", key, sample={"store": i.where(), "index_at_most": b, "size": size})
                else:
                    rep.violation("R4f", key, "%s has %d elements and is written at an index that %s: a write behind the buffer (for a local buffer: into the frame of "
                                  "the function)" % (name, size, ("can be %d" % b) if b is not None else "is not bounded by a comparison with a constant"),
                                  where=i.where(), witness=[i.where()])
            elif i.is_call() and (i.callee in WRITERS):
                d, ln = WRITERS[i.callee]
                if len(i.args) <= ln:
                    continue
                pa = resolve_addr(f, i.args[d])
                if pa.root[0] != "alloca" and not pa.last_field():
                    continue
                size, name = _buffer_size(p, f, i.args[d])
                if size is None:
                    continue
                if any(s[0] == "idx" and const_int(s[1]) != 0 for s in pa.steps):
                    continue    # a write into the middle of the buffer: not judged here
                n += 1
                rep.cover(p, [f.name])
                key = "%s/%s(%s)#%d" % (f.name, i.callee.split(".")[1] if i.callee.startswith("llvm.") else i.callee, name, n)
                b = upper_bound(f, i.args[ln], i.block.name)
                if b is not None and b <= size:
                    rep.ok("R4f", key, sample={"call": i.where(), "length_at_most": b, "size": size})
                else:
                    rep.violation("R4f", key, "%s writes %s bytes into %s of %d bytes" % (i.callee, ("up to %d" % b) if b is not None else "an unbounded number of", name, size),
                                  where=i.where(), witness=[i.where()])
    rep.floor("R4f", "writes into fixed-size character buffers", n, 3)


# ---- R4g: an element access behind a growth-on-demand is inside what the growth ensured ------------------------------------------

def _vlo_growths(f):
    """growth sites `free += (X - len) * S' of a variable length object: (store, container text, ensured element count X as a linear form, S)"""
    from ..expr import lin as _l, Lin as _L
    out = []
    for s in f.all_insts():
        if s.op != "store" or not (resolve_addr(f, s.ops[1]).last_field() or "").endswith("vlo_t.vlo_free"):
            continue
        v = f.inst(strip_casts(f, s.ops[0]))
        if v is None or v.op != "getelementptr" or len(v.d["path"]) != 1 or "ptr" not in v.d["path"][0]:
            continue
        base = _l(f, v.d["base"], 0, 2)
        fa = [a for a in base.t if a.endswith(".vlo_t.vlo_free]")]
        if len(fa) != 1 or len(base.t) != 1 or base.c != 0:
            continue
        cont = fa[0][2:-len(".vlo_t.vlo_free]")]
        amt = _l(f, v.d["path"][0]["ptr"], 0, 2)
        for at, k in amt.t.items():
            m = re.match(r"div\((.*),(\d+)\)$", at)
            if not m or k >= 0:
                continue
            S = int(m.group(2))
            if m.group(1) == "L[%s.vlo_t.vlo_free] + -1*L[%s.vlo_t.vlo_start]" % (cont, cont) and k == -S:
                E = amt.add(_L(0, {at: S})).div(S)
                if E is not None:
                    out.append((s, cont, E, S))
    return out


def _vlo_accesses(f):
    """element accesses BEGIN (vlo)[i]: (instruction, container text, index linear form, element size)"""
    from ..expr import lin as _l
    out = []
    for i in f.all_insts():
        if i.op not in ("load", "store"):
            continue
        pa = resolve_addr(f, i.ops[1] if i.op == "store" else i.ops[0])
        if pa.root[0] != "val" or not pa.steps or pa.steps[-1][0] not in ("ptr", "idx") or pa.fields():
            continue
        rl = _l(f, pa.root[1], 0, 2)
        ri = f.inst(strip_casts(f, pa.root[1]))
        if ri is not None and ri.op == "phi":
            # a cached start pointer merged from several loads of the same object's start
            ins = set(repr(_l(f, v_, 0, 2)) for (v_, _) in ri.d["incoming"] if v_.get("k") != "undef")
            if len(ins) == 1:
                rl = _l(f, [v_ for (v_, _) in ri.d["incoming"] if v_.get("k") != "undef"][0], 0, 2)
        if len(rl.t) != 1 or rl.c != 0 or list(rl.t.values()) != [1]:
            continue
        at = list(rl.t)[0]
        if not at.endswith(".vlo_t.vlo_start]"):
            continue
        cont = at[2:-len(".vlo_t.vlo_start]")]
        es = None
        for st in pa.steps:
            if st[0] == "cast":
                m = re.match(r"(i\d+|.*\*)\*$", st[1])
                if st[1].startswith("i") and st[1].endswith("*") and st[1][1:-1].isdigit():
                    es = int(st[1][1:-1]) // 8
                elif st[1].endswith("**"):
                    es = 8
        out.append((i, cont, _l(f, pa.steps[-1][1], 0, 2), es))
    return out


def rule_R4g(ctx, rep, config="c-lib"):
    rep.rule("R4g", "an element access BEGIN (vlo)[i] that follows a growth-on-demand of the same variable length object -- `free += (X - len) * S', inline or in a helper "
                    "whose ensured element count is a parameter -- has an index inside what the growth ensured: X - i >= 1 as linear forms over the same values (the "
                    "length is a multiple of the element size by construction); helpers are summarised by the count they ensure and instantiated at their call sites")
    from ..expr import lin as _l, Lin as _L
    p = ctx.prog(config)
    n = 0
    summaries = {}
    fs = [f for f in p.m.defined() if not f.module or f.module.startswith("yaep.")]
    for f in fs:
        for (s, cont, E, S) in _vlo_growths(f):
            if cont == "(a0)" and all(re.match(r"a\d+$", a) for a in E.t):
                summaries[f.name] = (E, S)
    for f in fs:
        ens = [(s, cont, E, S, s) for (s, cont, E, S) in _vlo_growths(f)]
        for c in f.calls():
            if c.callee in summaries and c.callee != f.name and c.args:
                E0, S = summaries[c.callee]
                E = _L(E0.c)
                for a, k in E0.t.items():
                    E = E.add(_l(f, c.args[int(a[1:])], 0, 2), k)
                al = _l(f, c.args[0], 0, 2)
                # the container: the object the first argument points to
                from ..expr import addr_str
                cont = "(" + repr(al) + ")" if not (len(al.t) == 1 and al.c == 0) else None
                try:
                    cont = addr_str(f, c.args[0], 0, 2)
                except Exception:
                    pass
                ens.append((c, cont, E, S, c))
        if not ens:
            continue
        acc = _vlo_accesses(f)
        for (g_, cont, E, S, anchor) in ens:
            for (a, acont, I, es) in acc:
                if acont != cont or (es is not None and es != S):
                    continue
                # behind the growth: the test that guards the growth (or the call) dominates the access, and the access is not part of the growth's own block
                if anchor.is_call():
                    if not f.inst_dominates(anchor, a):
                        continue
                else:
                    from .r14 import path_exists
                    if not path_exists(f, anchor, a, []) or path_exists(f, a, anchor, []):
                        continue
                d = E.add(I, -1)
                if not d.is_const():
                    continue
                n += 1
                rep.cover(p, [f.name])
                key = "%s/%s[%r]#%d" % (f.name, cont[-40:], I, n)
                if d.c >= 1:
                    rep.ok("R4g", key, sample={"access": a.where(), "ensured": repr(E), "index": repr(I)})
                else:
                    rep.violation("R4g", key, "the object is grown to hold %r elements (%s) and then accessed at index %r: the element is %d behind the end -- a write "
                                  "behind the block as soon as the length reaches the allocated size" % (E, g_.where(), I, 1 - d.c), where=a.where(),
                                  witness=[g_.where(), a.where()])
    rep.floor("R4g", "element accesses behind a growth-on-demand", n, 2)


# ---- R4h: differences of terminal codes do not overflow int ---------------------------------------------------------------------

def rule_R4h(ctx, rep, config="c-lib"):
    rep.rule("R4h", "terminal codes are the user's: any int >= 0 (and the library's own -1, -2).  The difference of two codes is therefore computed in a type wider "
                    "than int or in unsigned (wrap-around) arithmetic, or in int only under a test that bounds the wide (or unsigned) difference between a code -- the maximum -- and the same subtrahend by a constant -- an int subtraction of two codes "
                    "overflows for a code near INT_MAX (undefined behaviour; in practice a negative `range' that passes the size test and a huge allocation)")
    from .r5 import _controlling_conditions
    p = ctx.prog(config)
    n = 0
    for f in p.m.defined():
        if f.module and not f.module.startswith("yaep."):
            continue
        memo = {}

        def code_derived(op, depth=0):
            o = strip_int_casts(f, op)
            if o.get("k") != "i" or depth > 6:
                return False
            if o["v"] in memo:
                return memo[o["v"]]
            memo[o["v"]] = False
            i = f.insts.get(o["v"])
            r = False
            if i is not None:
                if i.op == "load":
                    r = resolve_addr(f, i.ops[0]).last_field() == "symb.u.term.code"
                elif i.op == "phi":
                    r = any(code_derived(v, depth + 1) for (v, _) in i.d["incoming"])
                elif i.op == "select":
                    r = code_derived(i.ops[1], depth + 1) or code_derived(i.ops[2], depth + 1)
            memo[o["v"]] = r
            return r
        for i in f.all_insts():
            if i.op != "sub" or i.ty != "i32":
                continue
            if not (code_derived(i.ops[0]) and code_derived(i.ops[1])):
                continue
            if not i.d.get("nsw"):
                continue      # unsigned (wrap-around) arithmetic: defined for all values, and exact when the minuend is not smaller
            n += 1
            rep.cover(p, [f.name])
            key = "%s/code-difference#%d" % (f.name, n)
            a, b = strip_int_casts(f, i.ops[0]), strip_int_casts(f, i.ops[1])
            guarded = None
            for (cc, pol) in _controlling_conditions(f, i.block.name):
                for (x, y) in ((0, 1), (1, 0)):
                    w = f.inst(cc.ops[x])
                    if w is not None and w.op == "sub" and (w.ty == "i64" or not w.d.get("nsw")) and const_int(cc.ops[y]) is not None \
                            and (strip_int_casts(f, w.ops[0]) == a or code_derived(w.ops[0])) and strip_int_casts(f, w.ops[1]) == b \
                            and ((cc.d["pred"] in ("ult", "ule", "slt", "sle")) == (pol if x == 0 else not pol) or cc.d["pred"] in ("ult", "slt", "ule", "sle", "ugt", "uge", "sgt", "sge")):
                        guarded = cc
            if guarded is not None:
                rep.ok("R4h", key, sample={"difference": i.where(), "bounded_by": guarded.where()})
            else:
                rep.violation("R4h", key, "the difference of two terminal codes is computed in int without a bound on it: with a code near INT_MAX (the library's own "
                              "`error' terminal has code -2) the subtraction overflows -- a well-formed grammar fails with YAEP_NO_MEMORY or the code table is "
                              "allocated with a garbage size", where=i.where(), witness=[i.where()])
    rep.floor("R4h", "int differences of two terminal codes", n, 1)


def rule_R4i(ctx, rep, config="c-lib"):
    rep.rule("R4i", "a shift is done in a type at least as wide as its amount can get: `1 << (n % 64)' computed in int is undefined for amounts of 32 and more (in practice "
                    "the bit lands in the lower half or is lost: terminals with numbers 32..63 mod 64 vanish from the lookahead / FIRST / FOLLOW sets).  Decided for "
                    "every shift whose amount is reduced by a constant modulus or mask; other amounts are not judged here")
    p = ctx.prog(config)
    n = 0
    bits = {"i8": 8, "i16": 16, "i32": 32, "i64": 64}
    for f in p.m.defined():
        for i in f.all_insts():
            if i.op not in ("shl", "lshr", "ashr") or i.ty not in bits:
                continue
            a = f.inst(strip_int_casts(f, i.ops[1]))
            bound = None
            if a is not None and a.op in ("urem", "srem") and const_int(a.ops[1]) is not None and const_int(a.ops[1]) > 0:
                bound = const_int(a.ops[1]) - 1
            elif a is not None and a.op == "and" and any(const_int(o) is not None and const_int(o) >= 0 for o in a.ops):
                bound = min(const_int(o) for o in a.ops if const_int(o) is not None and const_int(o) >= 0)
            if bound is None:
                continue
            n += 1
            rep.cover(p, [f.name])
            key = "%s/shift#%s" % (f.name, i.where().rsplit(":", 2)[-2] if i.where() else n)
            if bound >= bits[i.ty]:
                rep.violation("R4i", key, "%s shifts a %d-bit value by an amount that reaches %d: undefined behaviour, and the bits meant for the upper part of the word "
                              "are lost or land elsewhere" % (f.name, bits[i.ty], bound), where=i.where(), witness=[i.where()])
            else:
                rep.ok("R4i", key, sample={"shift": i.where(), "width": bits[i.ty], "amount <=": bound})
    rep.floor("R4i", "shifts by a reduced amount", n, 2)


def rule_R4j(ctx, rep, config="c-lib"):
    rep.rule("R4j", "when a table kept in a variable length object is lengthened by A bytes and a loop then walks a pointer up to the new end to initialise the elements, the "
                    "walk starts at the old end (new end - A): every element added is initialised.  A start made from the index that was asked for leaves the elements "
                    "between the old end and that index as realloc delivered them -- a later request for one of them dereferences garbage (the order of requests can "
                    "differ between parses on one grammar object)")
    from ..expr import lin as _l
    p = ctx.prog(config)
    n = 0
    for f in p.m.defined():
        if f.module and not f.module.startswith("yaep."):
            continue
        grows = []
        for s in f.all_insts():
            if s.op != "store":
                continue
            lf = resolve_addr(f, s.ops[1]).last_field() or ""
            if not lf.endswith("vlo_t.vlo_free"):
                continue
            v = _l(f, s.ops[0], 0, 2)
            fa = [a for a in v.t if a.endswith(".vlo_t.vlo_free]") and v.t[a] == 1]
            if len(fa) != 1 or len(v.t) < 2:
                continue
            amt = v.add(type(v)(0, {fa[0]: 1}), -1)
            if amt.is_const():
                continue
            grows.append((s, fa[0], amt))
        if not grows:
            continue
        for L in f.loops():
            hdr = f.bmap[L["header"]]
            t = hdr.term
            c = f.inst(t.ops[0]) if (t is not None and len(t.ops) == 3) else None
            if c is None or c.op != "icmp":
                continue
            for (x, y) in ((0, 1), (1, 0)):
                ph = f.inst(strip_casts(f, c.ops[x]))
                if ph is None or ph.op != "phi" or ph.block.name != L["header"] or ph.ty.startswith("i"):
                    continue
                bnd = _l(f, c.ops[y], 0, 2)
                for (g, cell, amt) in grows:
                    if not (len(bnd.t) == 1 and bnd.t.get(cell) == 1 and bnd.c == 0 and f.dominates(g.block.name, L["header"])):
                        continue
                    # the loop writes through the pointer
                    if not any(s_.op == "store" and s_.block.name in L["body"] and strip_casts(f, s_.ops[1]) == {"k": "i", "v": ph.id} for s_ in f.all_insts()):
                        continue
                    inits = [v for (v, pb) in ph.d["incoming"] if pb not in L["body"]]
                    steps = [v for (v, pb) in ph.d["incoming"] if pb in L["body"]]
                    if len(inits) != 1 or len(steps) != 1:
                        continue
                    st = _l(f, steps[0], 0, 2)
                    S = st.c
                    n += 1
                    rep.cover(p, [f.name])
                    key = "%s/new-elements-initialised#%d" % (f.name, n)
                    iv = _l(f, inits[0], 0, 2)
                    start = iv.add(type(iv)(0, {cell: 1}), -1)      # start - new end
                    ok = repr(start.add(amt)) == "0"
                    if not ok and S > 1 and len(amt.t) == 1 and amt.c == 0:
                        a0, k0 = list(amt.t.items())[0]
                        if k0 == 1:
                            ok = repr(start) == repr(type(iv)(0, {"div(%s,%d)" % (a0, S): -S}))
                    if ok:
                        rep.ok("R4j", key, sample={"growth": g.where(), "walk_from": repr(iv)})
                    else:
                        rep.violation("R4j", key, "%s lengthens the table by %r bytes and initialises the elements from %r up to the new end: that is not the old end -- "
                                      "elements between the old end and the start of the walk stay uninitialised and are dereferenced when they are asked for later" % (
                                          f.name, amt, iv), where=c.where(), witness=[g.where(), c.where()])
    rep.floor("R4j", "initialising walks over the elements added to a table", n, 1)


def rule_R4k(ctx, rep, config="c-lib"):
    rep.rule("R4k", "a value that a loop multiplies by a constant >= 2 on every round (in signed arithmetic) and carries into the next round -- through a variable in memory "
                    "or in a register -- grows geometrically: it overflows after at most 31 rounds, and the number of rounds of the loops of the description scanner is "
                    "chosen by the text.  The multiplication is therefore controlled, inside the loop, by a comparison that bounds the carried value (decided for "
                    "every such accumulation; sums with a constant step are not judged: they need 2^31 rounds)")
    from .r5 import _controlling_conditions
    p = ctx.prog(config)
    n = 0
    for f in p.m.defined():
        loops = f.loops()
        if not loops:
            continue
        for m_ in f.all_insts():
            if not (m_.op in ("mul", "shl") and m_.d.get("nsw") and m_.ty in ("i32", "i64")):
                continue
            k = const_int(m_.ops[1]) if const_int(m_.ops[1]) is not None else const_int(m_.ops[0])
            if k is None or (m_.op == "mul" and abs(k) < 2) or (m_.op == "shl" and k < 1):
                continue
            x = m_.ops[0] if const_int(m_.ops[1]) is not None else m_.ops[1]
            Ls = [L for L in loops if m_.block.name in L["body"]]
            if not Ls:
                continue
            L = min(Ls, key=lambda l_: len(l_["body"]))
            # what the multiplied value is made from (inside the loop)
            srcs, work, seen = [], [x], set()
            while work:
                o = strip_int_casts(f, work.pop())
                if o.get("k") != "i" or o["v"] in seen:
                    continue
                seen.add(o["v"])
                i = f.insts.get(o["v"])
                if i is None:
                    continue
                if i.op == "load" or (i.op == "phi" and i.block.name == L["header"]):
                    srcs.append(i)
                elif i.op in ("add", "sub") and i.block.name in L["body"]:
                    work.extend(i.ops)
            # what the product flows into (inside the loop)
            flows, work, seen = set([m_.id]), [m_], set()
            while work:
                i = work.pop()
                for u in f.all_insts():
                    if u.id in flows or u.block.name not in L["body"]:
                        continue
                    if u.op in ("add", "sub", "sext", "zext", "trunc", "phi", "select") and any(isinstance(o, dict) and o.get("k") == "i" and o.get("v") == i.id for o in (
                            [v for (v, _) in u.d["incoming"]] if u.op == "phi" else u.ops)):
                        flows.add(u.id)
                        work.append(u)
            carried = None
            for s_ in srcs:
                if s_.op == "phi":
                    if any(strip_int_casts(f, v).get("v") in flows for (v, pb) in s_.d["incoming"] if pb in L["body"]):
                        carried = ("phi", s_)
                else:
                    a = resolve_addr(f, s_.ops[0])
                    for st in f.all_insts():
                        if st.op == "store" and st.block.name in L["body"] and strip_int_casts(f, st.ops[0]).get("v") in flows:
                            b = resolve_addr(f, st.ops[1])
                            if a.root == b.root and [x_[:2] for x_ in a.steps if x_[0] == "f"] == [x_[:2] for x_ in b.steps if x_[0] == "f"] and a.root[0] in ("g", "alloca", "a"):
                                carried = ("mem", s_)
            if carried is None:
                continue
            n += 1
            rep.cover(p, [f.name])
            key = "%s/geometric-accumulation#%d" % (f.name, n)
            guard = None
            for (cc, pol) in _controlling_conditions(f, m_.block.name):
                if cc.block.name not in L["body"] or cc.d["pred"] in ("eq", "ne"):
                    continue
                for o in cc.ops:
                    v = f.inst(strip_int_casts(f, o))
                    if v is None:
                        continue
                    if carried[0] == "phi" and v.id == carried[1].id:
                        guard = cc
                    elif carried[0] == "mem" and v.op == "load" and resolve_addr(f, v.ops[0]).root == resolve_addr(f, carried[1].ops[0]).root \
                            and resolve_addr(f, v.ops[0]).steps == resolve_addr(f, carried[1].ops[0]).steps:
                        guard = cc
            if guard is None:
                # a bound spelled as a compound test (`a >= M / 10 && (a > M / 10 || d > M % 10)'): a comparison of the carried value inside the loop one of whose
                # outcomes cannot reach the multiplication in this round
                def is_acc(o):
                    v = f.inst(strip_int_casts(f, o))
                    if v is None:
                        return False
                    if carried[0] == "phi":
                        return v.id == carried[1].id
                    return v.op == "load" and resolve_addr(f, v.ops[0]).root == resolve_addr(f, carried[1].ops[0]).root \
                        and resolve_addr(f, v.ops[0]).steps == resolve_addr(f, carried[1].ops[0]).steps
                for cc in f.all_insts():
                    if cc.op != "icmp" or cc.block.name not in L["body"] or cc.d["pred"] in ("eq", "ne") or not any(is_acc(o) for o in cc.ops):
                        continue
                    t = cc.block.term
                    if t is None or len(t.ops) != 3 or strip_int_casts(f, t.ops[0]).get("v") != cc.id:
                        continue
                    if not f.dominates(cc.block.name, m_.block.name) and m_.block.name not in f.reachable_from(cc.block.name, avoid=[L["header"]]):
                        continue
                    outs = [o["v"] for o in t.ops[1:]]
                    if any(m_.block.name not in f.reachable_from(o, avoid=[L["header"]]) for o in outs) and \
                            any(m_.block.name in f.reachable_from(o, avoid=[L["header"]]) for o in outs):
                        guard = cc
            if guard is not None:
                rep.ok("R4k", key, sample={"multiplication": m_.where(), "bounded_by": guard.where()})
            else:
                rep.violation("R4k", key, "%s multiplies a value by %d on every round of a loop and carries it on, and no comparison inside the loop bounds it: signed "
                              "overflow (undefined behaviour) after a few rounds -- in the scanner a number of more than nine digits in the description" % (
                                  f.name, k if m_.op == "mul" else 2 ** k), where=m_.where(), witness=[m_.where()])
    if n == 0:
        rep.ok("R4k", "no-unbounded-geometric-accumulation", nontrivial=False)


def rule_R4m(ctx, rep, config="c-lib"):
    rep.rule("R4m", "a value that is narrowed (trunc) when it is stored into a member of a structure, and that comes back from that member as an index or a position, "
                    "fits into the member: it is a constant, a truth value, a widened narrow value, or bounded by a comparison with a constant on the way to the store.  "
                    "The dot position of a situation runs up to the length of the rule, which the caller chooses: kept in a `short' it wraps at 32768 and the "
                    "right hand side is read at a negative index")
    p = ctx.prog(config)
    n = 0
    # members whose loaded value is widened and used as an index / in address arithmetic somewhere in the library
    indexed = set()
    for f in p.m.defined():
        if f.module and not f.module.startswith("yaep."):
            continue
        for g_ in f.all_insts():
            if g_.op != "getelementptr":
                continue
            for st in g_.d["path"]:
                for k_ in ("idx", "ptr"):
                    o = st.get(k_)
                    if not isinstance(o, dict):
                        continue
                    work, seen = [o], set()
                    while work:
                        x = work.pop()
                        if x.get("k") != "i" or x["v"] in seen:
                            continue
                        seen.add(x["v"])
                        i = f.insts.get(x["v"])
                        if i is None:
                            continue
                        if i.op in ("sext", "zext") and i.ty in ("i32", "i64"):
                            l_ = f.inst(i.ops[0])
                            if l_ is not None and l_.op == "load" and l_.ty in ("i8", "i16"):
                                lf = resolve_addr(f, l_.ops[0]).last_field()
                                if lf:
                                    indexed.add(lf)
                            work.append(i.ops[0])
                        elif i.op in ("add", "sub", "mul", "sext", "zext", "trunc"):
                            work.extend(x_ for x_ in i.ops if isinstance(x_, dict))
    for f in p.m.defined():
        if f.module and not f.module.startswith("yaep."):
            continue
        for s_ in f.all_insts():
            if s_.op != "store":
                continue
            v = f.inst(s_.ops[0])
            if v is None or v.op != "trunc" or v.ty not in ("i8", "i16"):
                continue
            lf = resolve_addr(f, s_.ops[1]).last_field()
            if not lf or lf not in indexed:
                continue
            n += 1
            rep.cover(p, [f.name])
            key = "%s/narrowed-into-%s" % (f.name, lf)
            mx = (1 << (int(v.ty[1:]) - 1)) - 1
            src = f.inst(strip_int_casts(f, v.ops[0]))
            ok = const_int(v.ops[0]) is not None
            if not ok and src is not None and src.op in ("icmp",):
                ok = True
            if not ok and src is not None and src.op in ("zext", "sext") and f.inst(src.ops[0]) is not None and f.inst(src.ops[0]).ty in ("i1", "i8", "i16"):
                ok = True
            if not ok:
                ub = upper_bound(f, v.ops[0], s_.block.name)
                ok = ub is not None and ub <= mx
            if ok:
                rep.ok("R4m", key, sample={"store": s_.where()})
            else:
                rep.violation("R4m", key, "%s stores a value without a known bound into the %d-bit member %s, which is read back as an index: beyond %d the value wraps to "
                              "a negative number and the array is read before its start" % (f.name, int(v.ty[1:]), lf, mx), where=s_.where(), witness=[s_.where()])
    if n == 0:
        rep.ok("R4m", "no-narrowed-index-member", nontrivial=False)


def rule_R4o(ctx, rep, config="c-lib"):
    rep.rule("R4o", "an index is tested before it is used: when a function compares a value with 0 to find out whether it is negative (`if (pos < 0)'), no array element "
                    "has been read or written with that same value as the index on the way to the test, unless an earlier test already excluded the negative values "
                    "-- `disp = order[pos]; ... if (pos < 0)' reads order[-1] every time the test succeeds")
    from .r5 import _controlling_conditions
    p = ctx.prog(config)
    n = 0
    for f in p.m.defined():
        tests = {}
        for c in f.all_insts():
            if c.op != "icmp":
                continue
            k = const_int(c.ops[1])
            if (c.d["pred"], k) not in (("slt", 0), ("sle", -1), ("sgt", -1), ("sge", 0)):
                continue
            v = strip_int_casts(f, c.ops[0])
            if v.get("k") == "i":
                tests.setdefault(v["v"], []).append(c)
        if not tests:
            continue
        for g_ in f.all_insts():
            if g_.op != "getelementptr":
                continue
            for st in g_.d["path"]:
                for k_ in ("idx", "ptr"):
                    o = st.get(k_)
                    if not isinstance(o, dict):
                        continue
                    v = strip_int_casts(f, o)
                    if v.get("k") != "i" or v["v"] not in tests:
                        continue
                    # the element is accessed
                    acc = [u for u in f.all_insts() if u.op in ("load", "store") and strip_casts(f, u.ops[1] if u.op == "store" else u.ops[0]) == {"k": "i", "v": g_.id}]
                    if not acc:
                        continue
                    for c in tests[v["v"]]:
                        for u in acc:
                            if not f.inst_dominates(u, c):
                                continue
                            # an earlier test of the same value that controls the access
                            pre = any(strip_int_casts(f, cc.ops[0]) == v and cc.id != c.id for (cc, _) in _controlling_conditions(f, u.block.name))
                            n += 1
                            rep.cover(p, [f.name])
                            key = "%s/index-tested-after-use@%s" % (f.name, u.where().rsplit("/", 1)[-1])
                            if pre:
                                rep.ok("R4o", key, nontrivial=False)
                            else:
                                rep.violation("R4o", key, "%s accesses an array element with an index that it tests for being negative only afterwards (%s): when the test "
                                              "succeeds the element before the start of the array has been read (written) already" % (f.name, c.where()),
                                              where=u.where(), witness=[u.where(), c.where()])
    if n == 0:
        rep.ok("R4o", "no-index-used-before-its-sign-test", nontrivial=False)


def rule_R4n(ctx, rep, config="c-lib"):
    rep.rule("R4n", "the costs of abstract nodes are the user's (any int >= 0, one per rule) and the cost pass adds them up over the whole tree: every int addition of "
                    "a node's cost and another value that is not a constant is controlled by a comparison against INT_MAX minus one of the operands (or done in a "
                    "wider type) -- two nested nodes of cost INT_MAX, or a long input with moderate costs, overflow the sum (undefined behaviour; in practice a "
                    "negative total that the visit mark -cost - 1 turns into a wrong positive one)")
    from .r5 import _controlling_conditions
    p = ctx.prog(config)
    n = 0
    for f in p.m.defined():
        if f.module and not f.module.startswith("yaep."):
            continue
        for a_ in f.all_insts():
            if a_.op != "add" or a_.ty != "i32" or not a_.d.get("nsw"):
                continue
            if const_int(a_.ops[0]) is not None or const_int(a_.ops[1]) is not None:
                continue
            costs = []
            for o in a_.ops:
                l_ = f.inst(strip_int_casts(f, o))
                if l_ is not None and l_.op == "load" and (resolve_addr(f, l_.ops[0]).last_field() or "").endswith("anode.cost"):
                    costs.append(l_)
            if not costs:
                continue
            n += 1
            rep.cover(p, [f.name])
            key = "%s/cost-sum#%d" % (f.name, n)
            guard = None
            for (cc, pol) in _controlling_conditions(f, a_.block.name):
                if cc.d["pred"] in ("eq", "ne"):
                    continue
                for o in cc.ops:
                    v = f.inst(strip_int_casts(f, o))
                    if v is not None and v.op == "sub" and const_int(v.ops[0]) is not None and const_int(v.ops[0]) >= (1 << 30):
                        guard = cc
            if guard is not None:
                rep.ok("R4n", key, sample={"sum": a_.where(), "guard": guard.where()})
            else:
                rep.violation("R4n", key, "%s adds a node's cost and another cost in int without an overflow test: the total cost of a translation can exceed INT_MAX "
                              "(signed overflow, a negative or wrapped total decides which alternatives are `minimal')" % f.name, where=a_.where(), witness=[a_.where()])
    # the visit mark -cost - 1 of a cost INT_MAX is INT_MIN: the mark is not negated as it stands (only where the value is known to be >= 0)
    m_ = 0
    for f in p.m.defined():
        if f.module and not f.module.startswith("yaep."):
            continue
        for a_ in f.all_insts():
            if a_.op != "sub" or a_.ty != "i32" or not a_.d.get("nsw") or const_int(a_.ops[0]) != 0:
                continue
            l_ = f.inst(strip_int_casts(f, a_.ops[1]))
            if l_ is None or l_.op != "load" or not (resolve_addr(f, l_.ops[0]).last_field() or "").endswith("anode.cost"):
                continue
            m_ += 1
            rep.cover(p, [f.name])
            key = "%s/cost-negated#%d" % (f.name, m_)
            nonneg = False
            for (cc, pol) in _controlling_conditions(f, a_.block.name):
                v = f.inst(strip_int_casts(f, cc.ops[0]))
                if v is None or v.op != "load" or not (resolve_addr(f, v.ops[0]).last_field() or "").endswith("anode.cost"):
                    continue
                k = const_int(cc.ops[1])
                pr = cc.d["pred"]
                if not pol:
                    pr = {"slt": "sge", "sge": "slt", "sle": "sgt", "sgt": "sle"}.get(pr, pr)
                if (pr, k) in (("sge", 0), ("sgt", -1)):
                    nonneg = True
            if nonneg:
                rep.ok("R4n", key, sample={"negation": a_.where()})
            else:
                rep.violation("R4n", key, "%s negates the cost member as it stands where it may hold the visit mark of a cost INT_MAX (INT_MIN): -INT_MIN overflows -- "
                              "decode the mark as -(mark + 1)" % f.name, where=a_.where(), witness=[a_.where()])
    rep.floor("R4n", "sums of abstract node costs", n, 1)
