"""R25 -- a container created under a condition on the grammar's settings is released under the same condition.

parse_state_init creates the table of abstract nodes only when all parses are built; parse_state_fin
must release it exactly then: the file-scope pointer is not reset, so an unconditional release
after a one-parse run deletes the table of an earlier run again."""
from ..model import resolve_addr, strip_casts, const_int, loaded_from
from ..core import AnalysisBroken
from .c10 import site_conditions

CREATORS = ("create_hash_table", "_Znwm")
RELEASERS = ("delete_hash_table", "_ZdlPv")


def _persistent(conds):
    """conditions that only mention file-scope / object state"""
    return set(c for c in conds if ("L[" in c and "@" in c) and "alloca#" not in c and "&" not in c)


def rule_R25(ctx, rep, config="c-lib", tag=""):
    rep.rule("R25", "for every file-scope hash table pointer of yaep.c: each release (delete_hash_table / delete) is controlled by all the conditions on persistent state "
                    "(grammar settings, file-scope variables) that control its creation; the pointer is never reset, so a release without the creation's condition "
                    "releases the table of an earlier parse again")
    p = ctx.prog(config)
    created = {}
    for f in p.m.defined():
        if f.module and not f.module.startswith("yaep."):
            continue
        for s in f.all_insts():
            if s.op != "store":
                continue
            pa = resolve_addr(f, s.ops[1])
            if pa.root[0] != "g" or pa.steps:
                continue
            v = f.inst(strip_casts(f, s.ops[0]))
            if v is None or not v.is_call() or v.callee not in CREATORS:
                continue
            created.setdefault(pa.root[1], []).append((f, s, _persistent(site_conditions(p, f, s))))
    n = 0
    for f in p.m.defined():
        if f.module and not f.module.startswith("yaep."):
            continue
        for c in f.calls():
            if c.callee not in RELEASERS or not c.args:
                continue
            lp = loaded_from(f, c.args[0])
            if lp is None or lp.root[0] != "g" or lp.steps or lp.root[1] not in created:
                continue
            g = lp.root[1]
            n += 1
            rep.cover(p, [f.name])
            key = tag + "%s/release-%s" % (f.name, g)
            kr = _persistent(site_conditions(p, f, c))
            # the release matches one creation site whose conditions it repeats
            best = None
            for (cf, cs, kc) in created[g]:
                missing = kc - kr
                if best is None or len(missing) < len(best[2]):
                    best = (cf, cs, missing)
            if not best[2]:
                rep.ok("R25", key, sample={"release": c.where(), "creation": best[1].where(), "conditions": sorted(kr)})
            else:
                rep.violation("R25", key, "`%s' is created in %s only when %s, but released here without that condition: the pointer keeps the value of an earlier parse, so after a "
                              "parse that did not create the table the old one is released a second time" % (g, best[0].name, " and ".join(sorted(best[2]))),
                              where=c.where(), witness=[best[1].where(), c.where()])
    rep.floor("R25", tag + "releases of file-scope tables", n, 5)


def rule_R25_cxx(ctx, rep, config="cxx-lib"):
    rule_R25(ctx, rep, config="cxx-lib", tag="[c++] ")


def rule_R25_use(ctx, rep, config="c-lib", tag=""):
    rep.rule("R25-use", "a file-scope variable length object / object stack of yaep.c that is created only under a condition on persistent state (the caller's release "
                        "function, grammar settings) is touched only under that condition: every access to its members outside the creating function is controlled by "
                        "the creation's persistent conditions (otherwise the object of an earlier parse -- released memory -- or an object that never existed is written)")
    p = ctx.prog(config)
    created = {}
    for f in p.m.defined():
        if f.module and not f.module.startswith("yaep."):
            continue
        for s in f.all_insts():
            if s.op != "store":
                continue
            pa = resolve_addr(f, s.ops[1])
            if pa.root[0] != "g":
                continue
            v = f.inst(strip_casts(f, s.ops[0]))
            if v is None or not v.is_call():
                continue
            g_ = p.m.functions.get(v.callee or "")
            nm = (g_.d.get("srcname") if g_ is not None else None) or (v.callee or "")
            is_field = bool(pa.steps) and (pa.last_field() or "").endswith(("vlo_t.vlo_start", "os_t.os_current_segment"))
            is_obj = (not pa.steps) and v.callee == "_Znwm"
            if not ((is_field and nm == "yaep_malloc") or is_obj):
                continue
            kc = _persistent(site_conditions(p, f, s))
            if kc:
                created.setdefault(pa.root[1], []).append((f, s, kc))
    n = 0
    for g, sites in sorted(created.items()):
        cf, cs, kc = sites[0]
        for f in p.m.defined():
            if (f.module and not f.module.startswith("yaep.")) or f is cf:
                continue
            seen_blocks = set()
            for i in f.all_insts():
                ops = [i.ops[0]] if i.op == "load" else ([i.ops[1]] if i.op == "store" else (i.args if i.is_call() else []))
                hit = False
                for o in ops:
                    if not isinstance(o, dict):
                        continue
                    pa = resolve_addr(f, o) if o.get("k") in ("i", "g") else None
                    if pa is not None and pa.root == ("g", g):
                        hit = True
                if not hit or i.block.name in seen_blocks:
                    continue
                seen_blocks.add(i.block.name)
                n += 1
                rep.cover(p, [f.name])
                key = tag + "%s/use-of-%s#%d" % (f.name, g, n)
                ku = _persistent(site_conditions(p, f, i))
                missing = kc - ku
                if missing:
                    # one level up: every caller calls f under the condition
                    sites_ = [(h, c_) for h in p.m.defined() for c_ in h.calls() if f.name in p.call_targets(h, c_)]
                    if sites_ and all(not (missing - _persistent(site_conditions(p, h, c_))) for (h, c_) in sites_):
                        missing = set()
                if not missing:
                    rep.ok("R25-use", key, sample={"use": i.where(), "creation": cs.where(), "conditions": sorted(kc)})
                else:
                    rep.violation("R25-use", key, "`%s' is created in %s only when %s, but %s touches it without that condition: in a parse where it was not created the "
                                  "object of an earlier parse (released memory) or an object that never existed is written" % (g, cf.name, " and ".join(sorted(missing)), f.name),
                                  where=i.where(), witness=[cs.where(), i.where()])
    rep.floor("R25-use", tag + "uses of conditionally created file-scope containers", n, 3)


def rule_R25_use_cxx(ctx, rep, config="cxx-lib"):
    rule_R25_use(ctx, rep, config="cxx-lib", tag="[c++] ")
