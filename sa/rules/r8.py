"""R8 -- sibling agreement between the C containers and their C++ twins.

For both members of a pair an *effect signature* is computed from SSA IR and the
signatures must be equal (modulo the frozen correspondence of names):
  store  (field written | slot, class of the stored value)
  cmp    normalised comparison (linear form over field names / parameters)
  call   callee with the classes of its arguments
Arithmetic that only feeds sizes (growth policy) is not part of the signature."""
import re
from collections import Counter

from ..model import resolve_addr, strip_casts, strip_int_casts, const_int, loaded_from
from ..core import AnalysisBroken
from .. import expr

PAIRS = [
    # (C function, C++ module, C++ source name, human)
    ("create_hash_table", "hashtab.cpp", "hash_table", "hash table constructor"),
    ("delete_hash_table", "hashtab.cpp", "~hash_table", "hash table destructor"),
    ("empty_hash_table", "hashtab.cpp", "empty", "hash table empty"),
    ("expand_hash_table", "hashtab.cpp", "expand_hash_table", "hash table rehash on growth"),
    ("find_hash_table_entry", "hashtab.cpp", "find_entry", "hash table lookup / reservation"),
    ("remove_element_from_hash_table_entry", "hashtab.cpp", "remove_element_from_entry", "hash table removal"),
    ("higher_prime_number", "hashtab.cpp", "higher_prime_number", "table size selection"),
    ("_OS_create_function", "objstack.cpp", "os", "object stack constructor"),
    ("_OS_delete_function", "objstack.cpp", "~os", "object stack destructor"),
    ("_OS_empty_function", "objstack.cpp", "empty", "object stack empty"),
    ("_OS_add_string_function", "objstack.cpp", "top_add_string", "object stack add string"),
    ("_OS_expand_memory", "objstack.cpp", "_OS_expand_memory", "object stack new segment"),
    ("_VLO_tailor_function", "vlobject.cpp", "tailor", "VLO tailor"),
    ("_VLO_add_string_function", "vlobject.cpp", "add_string", "VLO add string"),
    ("_VLO_expand_memory", "vlobject.cpp", "_VLO_expand_memory", "VLO growth"),
]

# callee names that correspond (C -> canonical), C++ -> canonical
CALLEE_CANON = {
    "find_hash_table_entry": "find", "find_entry": "find",
    "create_hash_table": "create_table", "hash_table": "create_table",
    "expand_hash_table": "expand_table",
    "_OS_expand_memory": "os_expand", "_VLO_expand_memory": "vlo_expand",
    "llvm.memcpy.p0i8.p0i8.i64": "memcpy", "llvm.memset.p0i8.i64": "memset",
    "top_length": "os_top_length", "top_shorten": "os_top_shorten", "length": "vlo_length", "shorten": "vlo_shorten",
    "hash_table_elements_number": "elements_number", "hash_table_size": "table_size", "size": "table_size",
    "hash_table_collisions": "collisions", "get_collisions": "collisions",
}


def _canon_atoms(s):
    # L[(obj).Struct.field]  ->  field ;  parameters keep their names
    prev = None
    while prev != s:
        prev = s
        s = re.sub(r"L\[\((?:[^()\[\]]|\([^()]*\))*\)\.(?:[A-Za-z_0-9]+\.)*([A-Za-z_0-9]+)\]", r"\1", s)
        s = re.sub(r"L\[[A-Za-z_][A-Za-z_0-9]*\.(?:[A-Za-z_0-9]+\.)*([A-Za-z_0-9]+)\]", r"\1", s)
    s = re.sub(r"\b(this|htab|os|vlo)\b", "obj", s)
    s = re.sub(r"_Z[A-Za-z0-9_]*?(\d+)([a-z_]+)[A-Za-z]*\(", lambda m_: m_.group(2)[: int(m_.group(1))] + "(", s)
    s = s.replace("_size", "size")
    return s


GETTERS = {}   # canonical text of a pure getter call -> its returned expression (filled per model)


def _resort(s):
    """re-sort the top-level terms of a printed linear form"""
    parts, depth, cur = [], 0, ""
    i = 0
    while i < len(s):
        ch = s[i]
        if ch in "([":
            depth += 1
        elif ch in ")]":
            depth -= 1
        if depth == 0 and s.startswith(" + ", i):
            parts.append(cur)
            cur = ""
            i += 3
            continue
        cur += ch
        i += 1
    parts.append(cur)
    return " + ".join(sorted(parts))


WALKS = [None]   # the array walks of the function whose signature is being built (see _walks)


def _walks(f):
    """loops that visit the elements of an array one by one, in pointer form (p = base; p < base + n; p++) or index form (i = 0; i < n; i++ with base[i]):
    {"exit": id of the exit comparison, "count": canonical text of n, "ptr": name of the running pointer or None, "idx": name of the index or None, "base": text}"""
    out = []
    for L in f.loops():
        hdr = f.bmap[L["header"]]
        t = hdr.term
        c = f.inst(t.ops[0]) if (t is not None and t.op == "br" and len(t.ops) == 3) else None
        if c is None or c.op != "icmp" or c.d["pred"] not in ("ult", "slt", "ne"):
            continue
        ph = f.inst(strip_int_casts(f, c.ops[0]))
        if ph is None or ph.op != "phi" or ph.block is not hdr:
            continue
        inits = [v for (v, pb) in ph.d["incoming"] if pb not in L["body"]]
        steps = [v for (v, pb) in ph.d["incoming"] if pb in L["body"]]
        if len(inits) != 1 or len(steps) != 1:
            continue
        expr.NAMED[0] = True
        try:
            name = repr(expr.lin(f, {"k": "i", "v": ph.id}, 0, 0))
            if ph.ty.endswith("*"):
                st = f.inst(strip_casts(f, steps[0]))
                if st is None or st.op != "getelementptr" or len(st.d["path"]) != 1 or "ptr" not in st.d["path"][0] or const_int(st.d["path"][0]["ptr"]) != 1 \
                        or strip_casts(f, st.d["base"]).get("v") != ph.id:
                    continue
                es = st.d["path"][0].get("eltsize") or 1
                base = expr.lin(f, inits[0], 0, 3)
                cnt = expr.lin(f, c.ops[1], 0, 3).add(base, -1).div(es)
                if cnt is None:
                    continue
                out.append({"exit": c.id, "count": _canon_atoms(repr(cnt)), "ptr": name, "idx": None, "base": _canon_atoms(repr(base))})
            else:
                if const_int(inits[0]) != 0:
                    continue
                stl = expr.lin(f, steps[0], 0, 0)
                if stl.c != 1 or len(stl.t) != 1 or list(stl.t.values()) != [1]:
                    continue
                out.append({"exit": c.id, "count": _canon_atoms(repr(expr.lin(f, c.ops[1], 0, 3))), "ptr": None, "idx": name, "base": None})
        finally:
            expr.NAMED[0] = False
    return out


def _walk_canon(s):
    """element of a walked array, whatever the form of the walk:  L[(p)] / L[(base)[i]]  ->  L[(base)[@]]"""
    for w in (WALKS[0] or []):
        if w["ptr"]:
            s = re.sub(r"L\[\(%s\)\]" % re.escape(w["ptr"]), "L[(%s)[@]]" % w["base"], s)
        elif w["idx"]:
            s = re.sub(r"\[%s\]" % re.escape(w["idx"]), "[@]", s)
    return s


def _cls(f, op):
    expr.NAMED[0] = True
    try:
        l = expr.lin(f, op, 0, 3)
    finally:
        expr.NAMED[0] = False
    s = _walk_canon(_canon_atoms(repr(l)))
    for k, v in GETTERS.items():
        s = s.replace(k, v)
    s = re.sub(r"#\d+", "#", s)
    # a computed address (alignment arithmetic) is written inline in one twin and behind a helper in the other: both are one opaque value
    s = re.sub(r"\b(?!div\b|mul\b)[A-Za-z_][A-Za-z_0-9]*\((?:[^()]|\([^()]*\))*\)", "opaque", s)
    s = re.sub(r"\b(?:and|or|xor|shl|lshr|ashr)#", "opaque", s)
    # sort inside div(...) arguments and at top level
    s = re.sub(r"div\(([^(),]*(?:\([^()]*\)[^(),]*)*),", lambda m_: "div(" + _resort(m_.group(1)) + ",", s)
    return _resort(s)


def _prepare_getters(px):
    GETTERS.clear()
    for f in px.m.defined():
        if f.d.get("srcname") in ("top_length", "length") and f.module in ("objstack.cpp", "vlobject.cpp"):
            rb = f.ret_blocks()
            if len(rb) == 1 and rb[0].term.ops:
                expr.NAMED[0] = True
                try:
                    r = _canon_atoms(repr(expr.lin(f, rb[0].term.ops[0], 0, 3)))
                finally:
                    expr.NAMED[0] = False
                GETTERS["%s(obj)" % f.d["srcname"]] = r


def _demangle_last(n):
    m_ = re.match(r"_ZN(\d+)", n)
    if not m_:
        return n
    pos = 3
    last = n
    while pos < len(n) and n[pos].isdigit():
        j = pos
        while n[j].isdigit():
            j += 1
        ln = int(n[pos:j])
        last = n[j:j + ln]
        pos = j + ln
    return last


def _callee_name(p, f, i):
    if i.callee:
        g = p.m.functions.get(i.callee)
        n = (g.d.get("srcname") if g is not None and g.d.get("srcname") else _demangle_last(i.callee))
        if n in ("operator new", "_Znwm"):
            return "alloc_object"
        if n in ("operator delete", "_ZdlPv"):
            return "free_object"
        return CALLEE_CANON.get(n, CALLEE_CANON.get(i.callee, n))
    lp = loaded_from(f, i.d["callee_op"])
    if lp is not None and lp.last_field():
        return "via:" + lp.last_field().split(".")[-1]
    return "indirect"


def _ctl(f, inst):
    """canonical controlling conditions of an instruction (dominating single-edge branches)"""
    from .r5 import _controlling_conditions
    out = []
    for (c, pol) in _controlling_conditions(f, inst.block.name):
        wk = [w for w in (WALKS[0] or []) if w["exit"] == c.id]
        if wk and pol:
            out.append("%s ugt @" % wk[0]["count"])      # inside the walk over `count' elements
            continue
        a, b = _cls(f, c.ops[0]), _cls(f, c.ops[1])
        pr = c.d["pred"]
        if not pol:
            pr = {"eq": "ne", "ne": "eq", "slt": "sge", "sge": "slt", "sgt": "sle", "sle": "sgt", "ult": "uge", "uge": "ult", "ugt": "ule", "ule": "ugt"}[pr]
        flip = {"slt": "sgt", "sle": "sge", "ult": "ugt", "ule": "uge"}
        if pr in flip:
            pr, a, b = flip[pr], b, a
        if pr in ("eq", "ne"):
            a, b = sorted([a, b])
        out.append("%s %s %s" % (a, pr, b))
    return tuple(sorted(out))


def _init_loop_events(f):
    """recognised initialisation loops (index or pointer-walk form) as canonical events; returns
    (events, ids of the instructions they replace)"""
    from .r4 import init_loops
    expr.NAMED[0] = True
    try:
        loops = init_loops(f)
    finally:
        expr.NAMED[0] = False
    ev, skip = [], set()
    for L in loops:
        v = L.value
        vc = "null" if v.get("k") == "null" else ("const:%s" % const_int(v) if const_int(v) is not None else "value")
        base = re.sub(r"#\d+", "#", _canon_atoms(repr(L.base)))
        cnt = _resort(re.sub(r"#\d+", "#", _canon_atoms(repr(L.count))))
        ev.append(("initloop", base, cnt, vc))
        skip.add(L.store.id)
        # the loop's exit comparison
        H = f.bmap[L.header]
        for b_ in [H] + [f.bmap[x] for x in next(l_ for l_ in f.loops() if l_["header"] == L.header)["latches"]]:
            t = b_.term
            if t is not None and t.op == "br" and len(t.ops) == 3:
                c = f.inst(t.ops[0])
                if c is not None and c.op == "icmp":
                    skip.add(c.id)
    return ev, skip


def signature(p, f, with_control=True):
    sig = Counter()
    saved_walks = WALKS[0]
    WALKS[0] = _walks(f)
    try:
        return _signature(p, f, with_control, sig)
    finally:
        WALKS[0] = saved_walks


def _signature(p, f, with_control, sig):
    loop_ev, skip = _init_loop_events(f)
    for e in loop_ev:
        sig[e] += 1
    for i in f.all_insts():
        if i.id in skip:
            continue
        if i.op == "store":
            pa = resolve_addr(f, i.ops[1])
            if pa.root[0] == "alloca":
                continue
            fld = pa.last_field()
            if pa.steps and pa.steps[-1][0] in ("idx", "ptr"):
                tgt = (fld.split(".")[-1] if fld else "") + "[]"
            elif fld:
                tgt = fld.split(".")[-1].replace("_size", "size")
            elif pa.root[0] == "g":
                g_ = p.m.globals.get(pa.root[1], {})
                tgt = "@" + (g_.get("srcname") or pa.root[1])
            else:
                tgt = "*ptr"
            v = i.ops[0]
            if v.get("k") == "null":
                vc = "null"
            elif const_int(v) is not None:
                vc = "const:%d" % const_int(v)
            elif v.get("k") == "ce" and v.get("op") == "inttoptr" and const_int(v["ops"][0]) is not None:
                vc = "const:%d" % const_int(v["ops"][0])
            else:
                vi = f.inst(strip_casts(f, v))
                if vi is not None and vi.op == "inttoptr" and const_int(vi.ops[0]) is not None:
                    vc = "const:%s" % const_int(vi.ops[0])
                else:
                    vc = "value"
            sig[("store", tgt, vc) + ((_ctl(f, i),) if with_control else ())] += 1
        elif i.op == "icmp":
            wk = [w for w in (WALKS[0] or []) if w["exit"] == i.id]
            if wk:
                sig[("cmp", "ult", "@", wk[0]["count"])] += 1
                continue
            if i.d["pred"] in ("eq", "ne") and const_int(i.ops[1]) == 0:
                x_ = f.inst(strip_int_casts(f, i.ops[0]))
                if x_ is not None and (x_.ty == "i1" or (x_.op == "phi" and all(const_int(v_) is not None for (v_, _) in x_.d["incoming"]))):
                    continue      # a truth value kept in an integer (a flag local, an inlined predicate) and tested again: no new comparison
            a, b = _cls(f, i.ops[0]), _cls(f, i.ops[1])
            pr = i.d["pred"]
            # a bare comparison is compared without its polarity (which branch is `then' is a matter of style; what runs under which
            # outcome is in the control conditions of the stores):  == / !=  -> eq ;  a < b / a >= b -> lt (a, b) ;  a > b / a <= b -> lt (b, a)
            if pr in ("eq", "ne"):
                x, y = sorted([a, b])
                sig[("cmp", "eq", x, y)] += 1
            else:
                uns = "u" if pr[0] == "u" else "s"
                kind = pr[1:]
                if kind in ("gt", "le"):
                    a, b = b, a
                sig[("cmp", uns + "lt", a, b)] += 1
        elif i.is_call():
            n = _callee_name(p, f, i)
            if n.startswith("llvm.dbg") or n in ("__clang_call_terminate", "llvm.trap", "os_top_length", "vlo_length"):
                continue     # pure getters are inlined into the comparisons
            g = p.m.functions.get(i.callee) if i.callee else None
            if g is not None and not g.decl and g.module == f.module and _is_private_helper(g) and _depth[0] < 3 and g.name != f.name:
                # a helper of this file that is not one of the paired operations: its effects belong to the caller
                _depth[0] += 1
                try:
                    sub = signature(p, g, with_control)
                finally:
                    _depth[0] -= 1
                for e, k in sub.items():
                    sig[e] += k
                continue
            sig[("call", n)] += 1
    # a bare comparison counts once: how often a test is spelled (loop condition and the same test after the loop, or a flag instead) is a matter of form;
    # what runs under which outcome is in the control conditions of the stores and in the calls
    for e in list(sig):
        if e[0] == "cmp":
            sig[e] = 1
    return _merge_arms(sig) if with_control else sig


def _merge_arms(sig):
    """`if (c) x = a; else x = b;' and `x = c ? a : b;' are one assignment of x: two stores to the same target whose control conditions differ in one
    complementary condition only are counted as one store under the common conditions"""
    neg = {"eq": "ne", "ne": "eq", "sgt": "sle", "sle": "sgt", "sge": "slt", "slt": "sge", "ugt": "ule", "ule": "ugt", "uge": "ult", "ult": "uge"}

    def complement(c1, c2):
        m1 = re.match(r"^(.*) (eq|ne|sgt|sge|slt|sle|ugt|uge|ult|ule) (.*)$", c1)
        m2 = re.match(r"^(.*) (eq|ne|sgt|sge|slt|sle|ugt|uge|ult|ule) (.*)$", c2)
        p1, p2 = (m1.groups() if m1 else ()), (m2.groups() if m2 else ())
        if len(p1) == 3 and len(p2) == 3:
            if p1[0] == p2[0] and p1[2] == p2[2] and neg.get(p1[1]) == p2[1]:
                return True
            # a < b  vs  b <= a  written with swapped operands after normalisation
            if p1[0] == p2[2] and p1[2] == p2[0] and {p1[1], p2[1]} in ({"sgt", "sge"}, {"ugt", "uge"}):
                return True
        return False
    changed = True
    while changed:
        changed = False
        stores = [e for e in sig if e[0] == "store" and len(e) == 4 and sig[e] > 0]
        for i_, e1 in enumerate(stores):
            for e2 in stores[i_ + 1:]:
                if e1[1] != e2[1] or sig[e1] <= 0 or sig[e2] <= 0:
                    continue
                s1, s2 = set(e1[3]), set(e2[3])
                d1, d2 = s1 - s2, s2 - s1
                if len(d1) == 1 and len(d2) == 1 and complement(list(d1)[0], list(d2)[0]):
                    vc = e1[2] if e1[2] == e2[2] else "value"
                    merged = ("store", e1[1], vc, tuple(sorted(s1 & s2)))
                    sig[e1] -= 1
                    sig[e2] -= 1
                    sig[merged] += 1
                    changed = True
                    break
            if changed:
                break
    for e in [e for e in sig if sig[e] <= 0]:
        del sig[e]
    return sig


_depth = [0]
_PAIRED = set()


def _is_private_helper(g):
    src = g.d.get("srcname") or g.name
    if not _PAIRED:
        for t in PAIRS:
            _PAIRED.add(t[0])
            _PAIRED.add(t[2])
    if src in _PAIRED or g.name in _PAIRED or src in CALLEE_CANON or g.name in CALLEE_CANON:
        return False
    if g.name.startswith(("_OS_", "_VLO_", "yaep_")):
        return False
    return True


def _find_cxx(m, module, srcname):
    c = [f for f in m.defined() if f.module == module and f.d.get("srcname") == srcname]
    # constructors/destructors are emitted as C1/C2 (D1/D2) variants: take the base-object variant
    c2 = [f for f in c if "C2" in f.name or "D2" in f.name]
    if c2:
        c = c2
    return c


def rule_R8(ctx, rep, only_modules=None):
    rep.rule("R8", "each function of the C containers and its C++ twin have equal effect signatures: the multiset of (field or slot written, class of the stored value), of "
                   "normalised comparisons over field names / parameters / sentinel constants, and of callees (C++ new/delete of a table object corresponds to the C "
                   "create/free); documented, frozen differences carry a reason each")
    pc = ctx.prog("c-lib")
    px = ctx.prog("cxx-lib")
    _prepare_getters(px)
    n = 0
    for (cfn, module, xname, human) in PAIRS:
        if only_modules and module not in only_modules:
            continue
        cf = pc.fn(cfn)
        xs = _find_cxx(px.m, module, xname)
        if len(xs) != 1:
            raise AnalysisBroken("C++ twin %s::%s of %s not found (candidates %d)" % (module, xname, cfn, len(xs)))
        xf = xs[0]
        rep.cover(pc, [cfn])
        rep.cover(px, [xf.name])
        n += 1
        sc, sx = signature(pc, cf), signature(px, xf)
        only_c = sc - sx
        only_x = sx - sc
        for ev in list(only_c):
            k = EXPECTED.get((cfn, "c", ev[:3] if ev[0] == "store" else ev))
            if k:
                del only_c[ev]
        for ev in list(only_x):
            k = EXPECTED.get((cfn, "x", ev[:3] if ev[0] == "store" else ev))
            if k:
                del only_x[ev]
        key = "%s~%s::%s" % (cfn, module, xname)
        if not only_c and not only_x:
            rep.ok("R8", key, sample={"pair": human, "c_events": sum(sc.values()), "cxx_events": sum(sx.values())})
        else:
            rep.violation("R8", key, "the C and C++ implementations of the %s differ: only in C %s; only in C++ %s" % (
                human, [_fmt(e, c) for e, c in sorted(only_c.items(), key=str)], [_fmt(e, c) for e, c in sorted(only_x.items(), key=str)]),
                where=xf.where(), witness=[cf.where(), xf.where()])
    rep.floor("R8", "C/C++ function pairs", n, 5 if only_modules else 15)


def _fmt(e, c):
    return "%s%s" % (" ".join(str(x) for x in e), " x%d" % c if c > 1 else "")


# frozen, documented differences: (C function, side, event) -> reason
EXPECTED = {
    ("create_hash_table", "c", ("call", "yaep_malloc")): "C allocates the table object itself; in C++ the caller's operator new does",
    ("delete_hash_table", "c", ("call", "yaep_free")): "C frees the table object itself; in C++ operator delete does",
    ("expand_hash_table", "c", ("call", "create_table")): "C: create_hash_table  ==  C++: operator new + constructor",
    ("expand_hash_table", "x", ("call", "alloc_object")): "C: create_hash_table  ==  C++: operator new + constructor",
    ("expand_hash_table", "x", ("call", "create_table")): "C: create_hash_table  ==  C++: operator new + constructor",
    ("expand_hash_table", "x", ("call", "free_object")): "C++: the temporary table object is returned to operator delete (C: yaep_free), plus the cleanup of a throwing constructor",
    ("expand_hash_table", "c", ("call", "yaep_free")): "C releases the temporary table object with yaep_free; C++ with operator delete",
    ("_OS_create_function", "x", ("store", "os_alloc", "value")): "the C macro OS_CREATE stores the allocator before calling the function",
    ("_OS_add_string_function", "c", ("cmp", "ult", "-1*os_top_object_start + os_top_object_free", "1")): "C expands OS_TOP_SHORTEN inline; C++ calls top_shorten (compared by the probe pair)",
    ("_OS_add_string_function", "c", ("store", "os_top_object_free", "value")): "C expands OS_TOP_SHORTEN inline; C++ calls top_shorten",
    ("_OS_add_string_function", "x", ("call", "os_top_shorten")): "C expands OS_TOP_SHORTEN inline; C++ calls top_shorten",
    ("_VLO_add_string_function", "c", ("cmp", "ult", "-1*vlo_start + vlo_free", "1")): "C expands VLO_SHORTEN inline; C++ calls shorten",
    ("_VLO_add_string_function", "c", ("store", "vlo_free", "value")): "C expands VLO_SHORTEN inline; C++ calls shorten",
    ("_VLO_add_string_function", "x", ("call", "vlo_shorten")): "C expands VLO_SHORTEN inline; C++ calls shorten",
}


def rule_R2f(ctx, rep):
    rep.rule("R2f", "allocator-family agreement in the C++ units: a pointer obtained from operator new is never handed to yaep_free / free, a pointer obtained from "
                    "yaep_malloc / yaep_realloc is never handed to operator delete (label propagation through casts and phis inside each function)")
    px = ctx.prog("cxx-lib")
    m = px.m
    n = 0
    for f in m.defined():
        if not f.module or not f.module.endswith(".cpp"):
            continue
        for i in f.calls():
            fam = None
            if i.callee in ("_Znwm", "_Znam"):
                fam = "new"
            elif i.callee in ("yaep_malloc", "yaep_realloc", "yaep_calloc"):
                fam = "yaep"
            if fam is None:
                continue
            n += 1
            ids = set([i.id])
            work = [i.id]
            while work:
                x = work.pop()
                for u in f.uses().get(x, []):
                    if u.op in ("bitcast", "phi", "getelementptr") and u.id not in ids:
                        if u.op == "getelementptr" and any("f" in s_ or "idx" in s_ for s_ in u.d["path"]):
                            continue
                        ids.add(u.id)
                        work.append(u.id)
            bad = []
            for x in ids:
                for u in f.uses().get(x, []):
                    if not u.is_call():
                        continue
                    if fam == "new" and u.callee in ("yaep_free", "free") and any(a.get("k") == "i" and a["v"] == x for a in u.args[-1:]):
                        bad.append(u)
                    if fam == "yaep" and u.callee in ("_ZdlPv", "_ZdaPv"):
                        bad.append(u)
            key = "%s/%s@%d" % (f.d.get("srcname") or f.name, "new" if fam == "new" else i.callee, n)
            if bad:
                rep.violation("R2f", key, "memory obtained from %s is released with %s (allocation / deallocation family mismatch)" % (
                    "operator new" if fam == "new" else i.callee, bad[0].callee), where=bad[0].where(), witness=[i.where(), bad[0].where()])
            else:
                rep.ok("R2f", key, nontrivial=fam == "new", sample={"allocation": i.where(), "family": fam})
    rep.floor("R2f", "allocation sites in the C++ units", n, 20)


PROBE_PAIRS = [
    # (C probe function, C++ class, C++ method source name)
    ("p_OS_TOP_NULLIFY", "os", "top_nullify"), ("p_OS_TOP_FINISH", "os", "top_finish"), ("p_OS_TOP_LENGTH", "os", "top_length"),
    ("p_OS_TOP_BEGIN", "os", "top_begin"), ("p_OS_TOP_END", "os", "top_end"), ("p_OS_TOP_BOUND", "os", "top_bound"),
    ("p_OS_TOP_SHORTEN", "os", "top_shorten"), ("p_OS_TOP_EXPAND", "os", "top_expand"), ("p_OS_TOP_ADD_BYTE", "os", "top_add_byte"),
    ("p_OS_TOP_ADD_MEMORY", "os", "top_add_memory"),
    ("p_VLO_CREATE", "vlo", "vlo"), ("p_VLO_DELETE", "vlo", "~vlo"), ("p_VLO_NULLIFY", "vlo", "nullify"), ("p_VLO_LENGTH", "vlo", "length"),
    ("p_VLO_BEGIN", "vlo", "begin"), ("p_VLO_END", "vlo", "end"), ("p_VLO_BOUND", "vlo", "bound"), ("p_VLO_SHORTEN", "vlo", "shorten"),
    ("p_VLO_EXPAND", "vlo", "expand"), ("p_VLO_ADD_BYTE", "vlo", "add_byte"), ("p_VLO_ADD_MEMORY", "vlo", "add_memory"),
]

PROBE_EXPECTED = {
    ("p_VLO_CREATE", "c", ("cmp", "eq", "0", "initial_length")): "identical test; the C++ constructor spells the parameter differently",
}


def rule_R8_probes(ctx, rep):
    rep.rule("R8-macros", "each container macro of objstack.h / vlobject.h (instantiated once, unmodified, in a probe function) and the C++ inline member function of "
                          "the same operation have equal effect signatures (stores, normalised comparisons, callees)")
    import os as _os
    from ..core import Prog, VERIF
    from ..build import REPO
    fx = _os.path.join(VERIF, "fixtures")
    mc = ctx.memo(("probe", "c"), lambda: Prog(ctx.ws.model_of_files("probes-c", [_os.path.join(fx, "probe_containers.c")])))
    mx = ctx.memo(("probe", "x"), lambda: Prog(ctx.ws.model_of_files("probes-cxx", [_os.path.join(fx, "probe_containers.cpp")])))
    _prepare_getters_from(mx)
    n = 0
    for (cfn, cls, meth) in PROBE_PAIRS:
        cf = mc.fn(cfn)
        xs = [f for f in mx.m.defined() if f.d.get("srcname") == meth and ("N%d%s" % (len(cls), cls)) in f.name]
        xs2 = [f for f in xs if "C2" in f.name or "D2" in f.name] or xs
        if len(xs2) != 1:
            raise AnalysisBroken("C++ method %s::%s not found (%d candidates)" % (cls, meth, len(xs2)))
        xf = xs2[0]
        n += 1
        sc, sx = signature(mc, cf), signature(mx, xf)
        only_c, only_x = sc - sx, sx - sc
        for ev in list(only_c):
            if (cfn, "c", ev) in PROBE_EXPECTED:
                del only_c[ev]
        for ev in list(only_x):
            if (cfn, "x", ev) in PROBE_EXPECTED:
                del only_x[ev]
        key = "%s~%s::%s" % (cfn[2:], cls, meth)
        if not only_c and not only_x:
            rep.ok("R8-macros", key, sample={"macro": cfn[2:], "method": cls + "::" + meth, "events": sum(sc.values())})
        else:
            rep.violation("R8-macros", key, "the macro %s and the C++ member %s::%s differ: only in the macro %s; only in the member %s" % (
                cfn[2:], cls, meth, [_fmt(e, c) for e, c in sorted(only_c.items(), key=str)], [_fmt(e, c) for e, c in sorted(only_x.items(), key=str)]),
                where=xf.where(), witness=[xf.where()])
    rep.floor("R8-macros", "macro / inline-method pairs", n, 21)


def _prepare_getters_from(px):
    GETTERS.clear()
    for f in px.m.defined():
        if f.d.get("srcname") in ("top_length", "length"):
            rb = f.ret_blocks()
            if len(rb) == 1 and rb[0].term.ops:
                expr.NAMED[0] = True
                try:
                    r = _canon_atoms(repr(expr.lin(f, rb[0].term.ops[0], 0, 3)))
                finally:
                    expr.NAMED[0] = False
                GETTERS["%s(obj)" % f.d["srcname"]] = r


FORWARD = {  # yaep:: member -> C function, grammar argument passed first?
    "error_code": ("yaep_error_code", True), "error_message": ("yaep_error_message", True), "read_grammar": ("yaep_read_grammar", True),
    "parse_grammar": ("yaep_parse_grammar", True), "set_lookahead_level": ("yaep_set_lookahead_level", True),
    "set_debug_level": ("yaep_set_debug_level", True), "set_one_parse_flag": ("yaep_set_one_parse_flag", True),
    "set_cost_flag": ("yaep_set_cost_flag", True), "set_error_recovery_flag": ("yaep_set_error_recovery_flag", True),
    "set_recovery_match": ("yaep_set_recovery_match", True), "parse": ("yaep_parse", True), "free_tree": ("yaep_free_tree", False),
    "yaep": ("yaep_create_grammar", None), "~yaep": ("yaep_free_grammar", True),
}


def rule_forwarding(ctx, rep):
    rep.rule("R8-forward", "every member function of class yaep is a single forwarding call of the C function of the same name -- straight-line code, no other call, "
                           "no branch -- passing this->grammar first and its parameters in order and returning the callee's result; both libraries compile the same yaep.c")
    px = ctx.prog("cxx-lib")
    m = px.m
    n = 0
    for f in m.defined():
        nm = f.name
        if not nm.startswith("_ZN4yaep"):
            continue
        src = f.d.get("srcname")
        if src not in FORWARD:
            rep.violation("R8-forward", "yaep::%s" % src, "class yaep has a member the table does not know", where=f.where())
            continue
        if ("C1" in nm or "D1" in nm) and not f.rblocks():
            continue
        cname, gfirst = FORWARD[src]
        n += 1
        key = "yaep::%s" % src
        calls = [i for i in f.calls() if not (i.callee or "").startswith("llvm.")]
        def cfun(i):
            g = m.functions.get(i.callee) if i.callee else None
            return (g.d.get("srcname") if g is not None and g.d.get("srcname") else i.callee)
        bad = None
        if any(len(set(b_.succs)) > 1 for b_ in f.rblocks()):
            bad = "the member is not straight-line code (it branches): it does more than forwarding"
        elif len(calls) != 1 or cfun(calls[0]) != cname:
            bad = "expected exactly one call, of %s; found %s" % (cname, [cfun(c) for c in calls])
        else:
            c = calls[0]
            args = list(c.args)
            want = []
            if gfirst:
                want.append("grammar")
            has_this = bool(f.args) and f.args[0]["name"] == "this"
            params = [k for k in range(1 if has_this else 0, len(f.args))]
            ok = True
            pos = 0
            if gfirst:
                lp = loaded_from(f, args[0]) if args else None
                if not (lp is not None and lp.last_field() and lp.last_field().endswith(".grammar") and lp.root == ("a", 0)):
                    ok = False
                pos = 1
            rest = [strip_casts(f, a) for a in args[pos:]]
            if gfirst is None:
                # constructor: result stored into this->grammar
                st = [s_ for s_ in f.all_insts() if s_.op == "store" and resolve_addr(f, s_.ops[1]).last_field() and resolve_addr(f, s_.ops[1]).last_field().endswith(".grammar")]
                ok = len(st) == 1 and strip_casts(f, st[0].ops[0]) == {"k": "i", "v": c.id}
            elif rest != [{"k": "a", "v": k} for k in params]:
                ok = False
            if ok and f.ret not in ("void",) and gfirst is not None:
                rb = f.ret_blocks()
                ok = len(rb) == 1 and rb[0].term.ops and strip_casts(f, rb[0].term.ops[0]) == {"k": "i", "v": c.id}
            if not ok:
                bad = "the arguments / result are not forwarded unchanged and in order"
        if bad:
            rep.violation("R8-forward", key, "yaep::%s does not simply forward to %s: %s" % (src, cname, bad), where=f.where(), witness=[f.where()])
        else:
            rep.ok("R8-forward", key, sample={"member": src, "forwards_to": cname})
    rep.floor("R8-forward", "members of class yaep", n, 14)
