"""R9 -- out-parameter definite assignment."""
from ..model import resolve_addr, strip_casts, const_int
from ..core import AnalysisBroken
from .r5 import status_kind

# function -> list of (parameter name, exits on which it must be assigned: 'all' | 'zero')
OUT_PARAMS = {
    "prune_to_minimal": [("cost", "all")],
    "find_error_pl_set": [("cost", "all")],
    "error_recovery": [("start", "all"), ("stop", "all")],
    "parse_state_insert": [("new_p", "all")],
    "yaep_parse": [("root", "zero"), ("ambiguous_p", "zero")],
}


def must_store(p, f, argno, assume=None):
    """per block: is *param definitely stored at block exit (on every path from entry)?"""
    assume = assume or {}
    IN = {}
    OUT = {}

    def stores(i):
        if i.op == "store":
            pa = resolve_addr(f, i.ops[1])
            return pa.root == ("a", argno) and not pa.steps
        if i.is_call():
            for t in p.call_targets(f, i):
                g = p.m.functions.get(t)
                if g is None or g.decl:
                    continue
                for k, a in enumerate(i.args):
                    if strip_casts(f, a) == {"k": "a", "v": argno} and assume.get((t, k)):
                        return True
        return False

    blocks = f.rblocks()
    for b in blocks:
        OUT[b.name] = True   # optimistic start (greatest fixpoint over the CFG)
    changed = True
    while changed:
        changed = False
        for b in blocks:
            if b is f.entry:
                s = False
            else:
                s = all(OUT[pn] for pn in b.preds if pn in OUT) if b.preds else False
            for i in b.insts:
                if not s and stores(i):
                    s = True
            if OUT[b.name] != s:
                OUT[b.name] = s
                changed = True
            IN[b.name] = s
    return OUT, stores


def store_free_path(f, stores, target):
    """a path entry -> target block on which no instruction stores (witness)"""
    prev = {f.entry.name: None}
    work = [f.entry.name]
    blocked = set(b.name for b in f.rblocks() if any(stores(i) for i in b.insts))
    if f.entry.name in blocked:
        return None
    while work:
        n = work.pop(0)
        if n == target:
            path = []
            while n is not None:
                path.append(n)
                n = prev[n]
            return list(reversed(path))
        for s in f.bmap[n].succs:
            if s not in prev and s not in blocked:
                prev[s] = n
                work.append(s)
            elif s not in prev and s == target and s in blocked:
                pass
    return None


def rule_R9(ctx, rep, config="c-lib", only=None):
    rep.rule("R9", "out-parameters are assigned on every path: for the frozen list of pointer parameters through which callers read a result without initialising "
                   "their variable, every path from the function entry to a return (for yaep_parse: to a return of 0) stores through the parameter; recursive calls "
                   "count as a store only if the callee's own summary does (greatest fixpoint)")
    p = ctx.prog(config)
    n = 0
    # summaries: (fn, argno) -> stored on all exits
    assume = {}
    for fn, plist in OUT_PARAMS.items():
        f = p.fn(fn)
        for (pname, _) in plist:
            idx = [k for k, a in enumerate(f.args) if a["name"] == pname]
            if not idx:
                raise AnalysisBroken("%s has no parameter `%s'" % (fn, pname))
            assume[(fn, idx[0])] = True
    for _ in range(4):
        for (fn, k) in list(assume):
            f = p.fn(fn)
            OUT, _s = must_store(p, f, k, assume)
            assume[(fn, k)] = all(OUT[b.name] for b in f.ret_blocks())
    for fn, plist in sorted(OUT_PARAMS.items()):
        if only and fn not in only:
            continue
        f = p.fn(fn)
        rep.cover(p, [fn])
        for (pname, mode) in plist:
            k = [j for j, a in enumerate(f.args) if a["name"] == pname][0]
            OUT, stores = must_store(p, f, k, assume)
            n += 1
            key = "%s/*%s" % (fn, pname)
            bad = []
            for b in f.ret_blocks():
                t = b.term
                exits = []
                v = t.ops[0] if t.ops else None
                vi = f.inst(v) if v is not None else None
                if vi is not None and vi.op == "phi" and vi.block is b and all(x.op in ("phi", "ret") for x in b.insts):
                    for (iv, pb) in vi.d["incoming"]:
                        if f.reachable(pb):
                            exits.append((iv, pb, OUT[pb]))
                else:
                    exits.append((v, b.name, OUT[b.name]))
                for (iv, bn, st) in exits:
                    if mode == "zero" and iv is not None and status_kind(f, iv, bn) == "n":
                        continue
                    if not st:
                        bad.append((bn, t))
            if bad:
                bn, t = bad[0]
                path = store_free_path(f, stores, bn) or [bn]
                wit = []
                for x in path:
                    ti = f.bmap[x].insts[0]
                    wit.append("block %s (%s)" % (x, ti.where()))
                rep.violation("R9", key, "%s can return without assigning *%s: the caller then uses an indeterminate or stale value" % (fn, pname),
                              witness=wit[:1] + wit[-6:] + ["return at " + t.where()], where=f.bmap[path[-1]].insts[0].where())
            else:
                rep.ok("R9", key, sample={"function": fn, "out_parameter": pname, "exits": len(f.ret_blocks()), "mode": mode})
    rep.floor("R9", "out-parameters", n, 7 if not only else 1)


def rule_ambiguity_writers(ctx, rep, config="c-lib"):
    rep.rule("C05-writers", "the ambiguity flag has two writers: yaep_parse resets it to 0 before any callback or allocation, make_parse sets it to the constant 1 and only "
                            "when a second candidate derivation is found (the store is control dependent on the candidate counter being non-zero)")
    from .r5 import _controlling_conditions
    p = ctx.prog(config)
    n = 0
    for f in p.m.defined():
        for k, a in enumerate(f.args):
            if a["name"] != "ambiguous_p":
                continue
            for s in f.all_insts():
                if s.op != "store":
                    continue
                pa = resolve_addr(f, s.ops[1])
                if pa.root != ("a", k) or pa.steps:
                    continue
                n += 1
                key = "%s/store-ambiguous#%d" % (f.name, n)
                c = const_int(s.ops[0])
                if f.name == "yaep_parse":
                    pre = [i for i in f.calls() if f.inst_dominates(i, s) and not (i.callee or "x").startswith("llvm.")]
                    if c == 0 and not pre:
                        rep.ok("C05-writers", key, sample={"store": s.where(), "value": 0})
                    else:
                        rep.violation("C05-writers", key, "yaep_parse does not reset *ambiguous_p to 0 first thing", where=s.where())
                elif f.name == "make_parse":
                    conds = _controlling_conditions(f, s.block.name)
                    dep = False
                    for (cc, pol) in conds:
                        v = f.inst(strip_casts(f, cc.ops[0]))
                        if v is not None and (v.d.get("var") == "n_candidates" or (v.op == "phi" and v.d.get("var") == "n_candidates")) and const_int(cc.ops[1]) == 0:
                            if (cc.d["pred"] == "ne") == pol:
                                dep = True
                    # ... and on EVERY path from that test (no further condition, e.g. on the translation)
                    every = False
                    for (cc, pol) in conds:
                        v = f.inst(strip_casts(f, cc.ops[0]))
                        if v is not None and v.d.get("var") == "n_candidates" and const_int(cc.ops[1]) == 0 and (cc.d["pred"] == "ne") == pol:
                            for br in f.uses().get(cc.id, []):
                                if br.op == "br" and len(br.ops) == 3:
                                    tsucc = br.ops[2]["v"] if cc.d["pred"] == "ne" else br.ops[1]["v"]
                                    if tsucc == s.block.name:
                                        every = True
                    if c == 1 and dep and not every:
                        rep.violation("C05-writers", key, "the ambiguity flag is set only under a further condition after a second candidate derivation was found: some ambiguities "
                                                          "(e.g. of untranslated symbols) are not reported", where=s.where(), witness=[s.where()])
                    elif c == 1 and dep:
                        rep.ok("C05-writers", key, sample={"store": s.where(), "value": 1, "under": "n_candidates != 0"})
                    else:
                        rep.violation("C05-writers", key, "make_parse sets the ambiguity flag to %s / not exactly when a second candidate is found" % c, where=s.where())
                else:
                    rep.violation("C05-writers", key, "%s writes the ambiguity flag" % f.name, where=s.where())
    rep.floor("C05-writers", "writers of *ambiguous_p", n, 2)
