"""R20 -- the equality functions of the hash tables compare the whole key.

Hash-consing decides which objects are shared: symbols by name / code, sets by core and
distances, cached transitions by (set, terminal, lookahead), abstract nodes of the all-parses DAG
by (rule, origin, end).  An equality function that no longer looks at a component of the key makes
two different objects one: a cached transition of another lookahead is reused, an abstract node of
another span is shared.  For the symbol tables the hash function may read nothing that the
equality does not compare (an element equal to a stored one would not be found)."""
from ..model import resolve_addr, strip_casts
from ..core import AnalysisBroken

# equality function -> (key fields confirmed by reading, what is identified)
KEYS = {
    "symb_repr_eq": (["symb.repr"], "symbols by name"),
    "symb_code_eq": (["symb.u.term.code"], "terminals by code"),
    "term_set_eq": (["tab_term_set.set", "symbs.n_terms"], "terminal sets by all their words"),
    "set_core_eq": (["set.core", "set_core.n_start_sits", "set_core.sits"], "set cores by their start situations"),
    "dists_eq": (["set.dists", "set.core", "set_core.n_start_sits"], "distance vectors by all their elements"),
    "set_core_dists_eq": (["set.core", "set.dists"], "sets by (core, distances)"),
    "set_term_lookahead_eq": (["set_term_lookahead.set", "set_term_lookahead.term", "set_term_lookahead.lookahead"], "cached transitions by (set, terminal, lookahead)"),
    "transition_els_eq": (["vect.els", "vect.len"], "transition vectors"),
    "reduce_els_eq": (["vect.els", "vect.len"], "reduce vectors"),
    "parse_state_eq": (["parse_state.rule", "parse_state.orig", "parse_state.pl_ind"], "abstract nodes of the DAG by (rule, origin, end)"),
}
STRICT_HASH = set(["symb_repr_eq", "symb_code_eq"])
ONLY = {
    "C03": ["parse_state_eq"],
    "C10": ["symb_repr_eq", "symb_code_eq"],
}


def _reads(p, fn):
    flds = set()
    for r in p.reach(fn):
        g = p.m.functions.get(r)
        if g is None or g.decl:
            continue
        for l in g.all_insts():
            if l.op == "load":
                lf = resolve_addr(g, l.ops[0]).last_field()
                if lf:
                    flds.add(lf)
    return flds


def rule_R20(ctx, rep, config="c-lib", only=None):
    rep.rule("R20", "every hash table's equality function reads all components of the key it is documented to identify (table frozen from reading the sources; reading more "
                    "is allowed); the hash functions of the symbol tables read only what the equality compares")
    p = ctx.prog(config)
    seen = {}
    for f in p.m.defined():
        if f.module and not f.module.startswith("yaep."):
            continue
        for i in f.calls():
            if i.callee == "create_hash_table" or (i.d.get("srcname") == "hash_table" and False):
                h, e = strip_casts(f, i.args[2]), strip_casts(f, i.args[3])
                if h.get("k") == "f" and e.get("k") == "f":
                    seen[e["v"]] = (h["v"], i)
    n = 0
    for eq, (hfn, site) in sorted(seen.items()):
        if only and eq not in only:
            continue
        if eq not in KEYS:
            if eq in ("reserv_mem_eq", "trans_visit_node_eq"):
                continue   # pointer identity tables
            raise AnalysisBroken("R20: hash table with equality function %s is not in the table of keys" % eq)
        key, what = KEYS[eq]
        n += 1
        rep.cover(p, [eq, hfn])
        er = _reads(p, eq)
        missing = [k for k in key if k not in er]
        if missing:
            rep.violation("R20", eq + "/compares-key", "%s identifies %s but does not look at %s: different objects become equal and one is used for the other" % (
                eq, what, ", ".join(missing)), where=p.m.functions[eq].where(), witness=[site.where()])
        else:
            rep.ok("R20", eq + "/compares-key", sample={"table_created_at": site.where(), "key": key})
        if eq in STRICT_HASH:
            hr = _reads(p, hfn)
            extra = sorted(hr - er)
            if extra:
                rep.violation("R20", hfn + "/hashes-key-only", "%s depends on %s, which %s does not compare: an element equal to a stored one is looked for in another slot "
                              "and not found" % (hfn, ", ".join(extra), eq), where=p.m.functions[hfn].where())
            else:
                rep.ok("R20", hfn + "/hashes-key-only")
    missing_tabs = [e for e in KEYS if e not in seen and (not only or e in only)]
    if missing_tabs:
        raise AnalysisBroken("R20: hash tables not found any more: %s" % missing_tabs)
    rep.floor("R20", "hash tables with a key", n, len(only) if only else 10)


def rule_R20_dag(ctx, rep, config="c-lib"):
    rule_R20(ctx, rep, config, only=ONLY["C03"])


def rule_R20_symbols(ctx, rep, config="c-lib"):
    rule_R20(ctx, rep, config, only=ONLY["C10"])
