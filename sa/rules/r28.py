"""R28 -- the capacity a container records is the capacity it allocated.

Each container keeps what it was given in a field: the hash table its number of entries (`size`),
the variable length object and the object stack the end of the block (`boundary`).  Every later
decision -- the probe arithmetic modulo size, the room tests `free + n > boundary` -- trusts that
field.  After every (re)allocation inside the container modules, on every path to the return:

  hash table   the value stored into `size' times the entry size is the size of the request for
               the entries array;
  VLO          `boundary' is stored, as start + the size of the request;
  object stack `boundary' is stored, as top_object_start + L with  request - L  a constant >= 0
               (the segment header).

A boundary that is too small makes every later addition reallocate (quadratic bytes); one that
is too large, or a size that is not the allocated (prime) count, makes writes and probes leave
the block or cycle."""
from ..model import resolve_addr, strip_casts, const_int, loaded_from
from ..core import AnalysisBroken
from .. import expr
from .r14 import path_exists

ALLOCS = ("yaep_malloc", "yaep_realloc", "yaep_calloc")
KINDS = {"hashtab.": ("size", "entries"), "vlobject.": ("vlo_boundary", "vlo_start"), "objstack.": ("os_boundary", "os_top_object_start")}


def rule_R28(ctx, rep, config="c-lib", tag=""):
    rep.rule("R28", "container modules (C and C++): after every allocation or reallocation of a container's storage the capacity field is stored on every path to the "
                    "return, with a value that matches the size of the request as linear forms: hash table  8 * size == request;  VLO  boundary == start + request;  "
                    "object stack  boundary == top_object_start + L, request - L a constant >= 15 (the link to the previous segment and the alignment slack)")
    p = ctx.prog(config)
    n = 0
    for f in p.m.defined():
        if not f.module:
            continue
        kind = [k for k in KINDS if f.module.startswith(k)]
        if not kind:
            continue
        capf, startf = KINDS[kind[0]]
        for a in f.calls():
            g = p.m.functions.get(a.callee or "")
            nm = (g.d.get("srcname") if g is not None else None) or (a.callee or "")
            if nm not in ALLOCS:
                continue
            req = a.args[-1]
            # is this the container's storage?  the result reaches the start-like field (entries / vlo_start / os_current_segment)
            al = set([a.id])
            work = [a.id]
            while work:
                x = work.pop()
                for u in f.uses().get(x, []):
                    if u.op in ("bitcast", "phi", "select") and u.id not in al:
                        al.add(u.id)
                        work.append(u.id)
            target = None
            for s_ in f.all_insts():
                if s_.op == "store" and strip_casts(f, s_.ops[0]).get("v") in al:
                    lf = (resolve_addr(f, s_.ops[1]).last_field() or "").split(".")[-1]
                    if lf in ("entries", "vlo_start", "os_current_segment"):
                        target = s_
            if target is None:
                continue
            caps = [s_ for s_ in f.all_insts() if s_.op == "store" and (resolve_addr(f, s_.ops[1]).last_field() or "").split(".")[-1].lstrip("_") == capf.lstrip("_")]
            n += 1
            rep.cover(p, [f.name])
            key = tag + "%s/%s-after-%s" % (f.name, capf, nm)
            rets = [r for r in f.all_insts() if r.op == "ret"]
            if not caps or any(path_exists(f, a, r, caps) for r in rets):
                rep.violation("R28", key, "after %s the field `%s' is not stored on every path to the return: it keeps describing the old block (too small: every later addition "
                              "allocates again -- quadratic work; too large: writes behind the new block)" % (nm, capf), where=a.where(), witness=[a.where()] + [c.where() for c in caps])
                continue
            rl = expr.lin(f, req, 0, 2)
            bad = None
            for c in caps:
                if not path_exists(f, a, c, []):
                    continue
                v = expr.lin(f, c.ops[0], 0, 2)
                if capf == "size":
                    if v.scale(8) != rl:
                        bad = (c, "the table records %r entries but asked for %r bytes (8 per entry)" % (v, rl))
                else:
                    d = v.add(rl, -1)
                    # the start may be written as the local value that was (or will be) stored into the start field
                    for ss in f.all_insts():
                        if ss.op == "store" and (resolve_addr(f, ss.ops[1]).last_field() or "").split(".")[-1] == startf:
                            sv = expr.lin(f, ss.ops[0], 0, 2)
                            d2 = d.add(sv, -1)
                            if d2.is_const() and not (len(sv.t) == 1 and list(sv.t)[0].endswith(startf + "]")):
                                d = d2.add(expr.Lin(0, {"L[.%s]" % startf: 1}))
                                break
                    starts = [at for at in d.t if at.endswith(startf + "]") or at.startswith("call#") or at == "call#%d" % a.id]
                    rest = dict((k_, c_) for k_, c_ in d.t.items() if k_ not in starts)
                    if capf == "vlo_boundary":
                        okv = len(starts) == 1 and d.t[starts[0]] == 1 and not rest and d.c == 0
                        if not okv:
                            bad = (c, "the boundary is stored as %r for a request of %r bytes (expected: start + request)" % (v, rl))
                    else:
                        # the contents start behind the link to the previous segment (8 bytes), rounded up to the alignment (at most 7 more)
                        okv = len(starts) == 1 and d.t[starts[0]] == 1 and not rest and d.c <= -15
                        if not okv:
                            bad = (c, "the boundary is stored as %r for a segment request of %r bytes (expected: top_object_start + request - header)" % (v, rl))
            if bad:
                rep.violation("R28", key, "%s: the recorded capacity is not the allocated one -- room tests and probe arithmetic work with a wrong size (a smaller one: "
                              "reallocation on every addition, work quadratic in the length; a larger or non-matching one: accesses outside the block, probe cycles that "
                              "miss free entries)" % bad[1], where=bad[0].where(), witness=[a.where(), bad[0].where()])
            else:
                rep.ok("R28", key, sample={"allocation": a.where(), "capacity_stores": [c.where() for c in caps][:3]})
    rep.floor("R28", tag + "allocations of container storage", n, 5)


def rule_R28_cxx(ctx, rep, config="cxx-lib"):
    rule_R28(ctx, rep, config="cxx-lib", tag="[c++] ")
