"""R1c -- grammar-persistent heap fields written while parsing;
R12 -- call-site agreement on term_set_insert's encoded result."""
from ..model import resolve_addr, strip_casts, strip_int_casts, const_int, loaded_from
from ..core import AnalysisBroken

PERSIST_PREFIX = ("grammar.", "symb.", "rule.", "symbs.", "rules.", "term_sets.", "tab_term_set.")

ALLOWED_PERSISTENT = {
    "grammar.error_code": "the object's error record (C15: last failing call)",
    "grammar.error_message": "the object's error record",
    "term_sets.": "the terminal-set table of the grammar grows across parses by design (dynamic-lookahead contexts are numbered in it); its consumers must "
                  "normalise term_set_insert's encoded result -- rule R12",
    "tab_term_set.": "entries of the persistent terminal-set table",
}


def _allowed(fld):
    for k in ALLOWED_PERSISTENT:
        if fld == k or (k.endswith(".") and fld.startswith(k)):
            return True
    return False


def rule_R1c(ctx, rep, config="c-lib"):
    rep.rule("R1c", "a field of the grammar object / its symbols / rules that yaep_parse writes must not carry state into the next parse: it is either re-initialised "
                    "for all objects at the start of every parse (a constant store inside a loop in a function whose call dominates every other access in yaep_parse), "
                    "or saved and restored inside the function that changes it, or belongs to the frozen list of intended persistent state")
    p = ctx.prog(config)
    m = p.m
    yp = p.fn("yaep_parse")
    R = p.reach("yaep_parse")
    writes = {}
    for fn in sorted(R):
        f = m.functions.get(fn)
        if f is None or f.decl:
            continue
        for i in f.all_insts():
            if i.op != "store":
                continue
            pa = resolve_addr(f, i.ops[1])
            if pa.root[0] == "alloca":
                continue
            fl = pa.last_field()
            if fl and fl.startswith(PERSIST_PREFIX):
                writes.setdefault(fl, []).append((f, i))
    n = 0
    for fld, sts in sorted(writes.items()):
        n += 1
        key = "yaep_parse/writes/" + fld
        if _allowed(fld):
            rep.ok("R1c", key, "frozen list", nontrivial=False, sample={"field": fld, "class": "intended persistent state"})
            continue
        # (ii) save / restore: every function that stores the field either saves and restores it itself
        #      on all normal paths, or restores -- in a setjmp handler -- a value saved before the setjmp
        from .r3 import armed_info
        by_fn = {}
        for (f, s_) in sts:
            by_fn.setdefault(f.name, (f, []))[1].append(s_)
        kinds = {}
        for fname, (f, stores) in by_fn.items():
            loads = [i for i in f.all_insts() if i.op == "load" and resolve_addr(f, i.ops[0]).last_field() == fld]
            saved = [l for l in loads if all(f.inst_dominates(l, s_) for s_ in stores)]
            restored = [s_ for s_ in stores if any(strip_casts(f, s_.ops[0]) == {"k": "i", "v": l.id} for l in saved)
                        and all(f.inst_postdominates(s_, o) for o in stores if o is not s_)]
            if saved and restored and len(stores) > 1:
                kinds[fname] = ("self", saved[0], restored[0])
                continue
            hk = None
            for (sj, h, nn) in armed_info(p, f):
                if all(f.dominates(h, s_.block.name) for s_ in stores):
                    pre = [l for l in loads if f.inst_dominates(l, sj)]
                    if all(any(strip_casts(f, s_.ops[0]) == {"k": "i", "v": l.id} for l in pre) for s_ in stores):
                        hk = ("handler", pre[0] if pre else None, stores[0])
            if hk:
                kinds[fname] = hk
        if len(kinds) == len(by_fn) and any(k[0] == "self" for k in kinds.values()):
            # the error exit of the API function restores it too
            hres = [k for k in kinds.values() if k[0] == "handler"]
            if hres:
                rep.ok("R1c", key, sample={"field": fld, "class": "saved and restored (also by the error exit)",
                                           "functions": dict((fn, k[0]) for fn, k in kinds.items())})
            else:
                selff = [fn for fn, k in kinds.items() if k[0] == "self"][0]
                rep.violation("R1c", key, "`%s' is changed temporarily by %s and restored only on its normal path: when the parse fails in between (longjmp to the error "
                                          "exit of yaep_parse) the object keeps the changed setting" % (fld, selff), where=kinds[selff][2].where(),
                              witness=[kinds[selff][1].where(), kinds[selff][2].where()])
            continue
        # (i) re-initialised at parse start
        ok = False
        why = "no store of a constant to it inside a loop over all objects"
        for (f, s) in sts:
            if not (const_int(s.ops[0]) is not None or s.ops[0].get("k") == "null"):
                continue
            if not any(s.block.name in L["body"] for L in f.loops()):
                continue
            # call sites in yaep_parse that reach f
            c0 = [c for c in yp.calls() if any(f.name in p.reach(t) for t in p.call_targets(yp, c))]
            if len(c0) != 1:
                continue
            others = []
            for (g, t) in sts:
                if t is s:
                    continue
                others.append(g.name)
            for g in m.defined():
                if g.name in R and any(i.op == "load" and resolve_addr(g, i.ops[0]).last_field() == fld for i in g.all_insts()):
                    others.append(g.name)
            bad = None
            # accesses in the resetting function itself must come after the reset (a reset at the end is skipped when the parse fails in between)
            own = [t for (g, t) in sts if g is f and t is not s] + \
                  [i for i in f.all_insts() if i.op == "load" and resolve_addr(f, i.ops[0]).last_field() == fld]
            late = [t for t in own if not f.inst_dominates(s, t)]
            if late:
                why = "the reset in %s does not precede the accesses in the same function (%s): a parse that fails in between skips it" % (f.name, late[0].where())
                continue
            for c in yp.calls():
                if c is c0[0]:
                    continue
                if any(o in p.reach(t) for t in p.call_targets(yp, c) for o in others):
                    if not yp.inst_dominates(c0[0], c):
                        bad = c
            if bad is None:
                ok = True
                rep.ok("R1c", key, sample={"field": fld, "class": "re-initialised per parse", "reset": s.where(), "reset_called_at": c0[0].where()})
                break
            why = "the reset in %s does not precede the use reached through %s" % (f.name, bad.where())
        if not ok:
            rep.violation("R1c", key, "yaep_parse writes `%s' of the grammar's persistent data and nothing resets it for the next parse (%s): the next parse on this object starts "
                                      "from the previous parse's value" % (fld, why), where=sts[0][1].where(), witness=[s.where() for _, s in sts])
    rep.floor("R1c", "persistent fields written during a parse", n, 4)


def _nonneg_edge_dominates(f, v, bname, edge_to=None):
    """is block bname dominated by the `v >= 0' edge of a branch testing v?  With edge_to: is the
    CFG edge bname -> edge_to itself that edge (or dominated by it)?"""
    for u in f.uses().get(v["v"], []) if v.get("k") == "i" else []:
        cands = [u]
        if u.op in ("sext", "zext"):
            cands = f.uses().get(u.id, [])
        for c in cands:
            if c.op != "icmp" or const_int(c.ops[1]) is None:
                continue
            k = const_int(c.ops[1])
            pr = c.d["pred"]
            for b in f.uses().get(c.id, []):
                if b.op != "br" or len(b.ops) != 3:
                    continue
                td, fd = b.ops[2]["v"], b.ops[1]["v"]
                nonneg = None
                if (pr, k) in (("sge", 0), ("sgt", -1)):
                    nonneg = td
                elif (pr, k) in (("slt", 0), ("sle", -1)):
                    nonneg = fd
                if nonneg is not None and td != fd:
                    if f.dominates(nonneg, bname):
                        return True
                    if edge_to is not None and b.block.name == bname and nonneg == edge_to:
                        return True
    return False


def rule_R12(ctx, rep, config="c-lib"):
    rep.rule("R12", "term_set_insert returns -num-1 for a set that is already in the (persistent) table: at every call site the raw result reaches a use as a context / "
                    "table index only on the `result >= 0' side of a test; the other side uses the normalised value")
    p = ctx.prog(config)
    m = p.m
    n = 0
    for f in m.defined():
        for c in f.calls():
            if c.callee != "term_set_insert":
                continue
            n += 1
            key = "%s/term_set_insert#%d" % (f.name, n)
            raw = {"k": "i", "v": c.id}
            bad = []
            work = [(c.id, None)]
            seen = set()
            while work:
                vid, _ = work.pop()
                if vid in seen:
                    continue
                seen.add(vid)
                for u in f.uses().get(vid, []):
                    if u.op in ("sext", "zext", "trunc"):
                        work.append((u.id, None))
                    elif u.op == "phi":
                        for (iv, pb) in u.d["incoming"]:
                            if strip_int_casts(f, iv) == raw and not _nonneg_edge_dominates(f, raw, pb, u.block.name):
                                bad.append((u, "merged into `%s' from block %s without a sign test" % (u.d.get("var") or "a variable", pb)))
                    elif u.is_call() and not (u.callee or "").startswith("llvm."):
                        if not _nonneg_edge_dominates(f, raw, u.block.name):
                            bad.append((u, "passed to %s" % u.callee))
                    elif u.op == "getelementptr":
                        if not _nonneg_edge_dominates(f, raw, u.block.name):
                            bad.append((u, "used as an index"))
                    elif u.op == "store":
                        if not _nonneg_edge_dominates(f, raw, u.block.name):
                            bad.append((u, "stored"))
            if bad:
                rep.violation("R12", key, "the result of term_set_insert is used unnormalised (%s): for a set already in the table (every parse after the first with dynamic "
                                          "lookahead) it is negative and indexes the situation table out of bounds" % bad[0][1], where=c.where(),
                              witness=[c.where()] + [b.where() + " " + w for b, w in bad])
            else:
                rep.ok("R12", key, sample={"call": c.where()})
    rep.floor("R12", "call sites of term_set_insert", n, 2)


def rule_term_set_numbers(ctx, rep, config="c-lib"):
    rep.rule("R12-num", "the number given to a new terminal set is its index in the vector term_set_from_table reads: the value stored into tab_term_set.num is the "
                        "current length of term_sets.tab_term_set_vlo (in elements), taken before the set is appended to that vector -- not a count kept elsewhere "
                        "(the hash table counts an entry that was reserved and never filled when an allocation failed in between)")
    from .. import expr
    p = ctx.prog(config)
    f = p.fn("term_set_insert")
    rep.cover(p, [f.name, "term_set_from_table"])
    sts = [s for s in f.all_insts() if s.op == "store" and resolve_addr(f, s.ops[1]).last_field() == "tab_term_set.num"]
    if len(sts) != 1:
        raise AnalysisBroken("R12-num: %d stores to tab_term_set.num in term_set_insert" % len(sts))
    st = sts[0]
    expr.NAMED[0] = True
    try:
        v = repr(expr.lin(f, st.ops[0], 0, 2))
    finally:
        expr.NAMED[0] = False
    cxx = any(c_.is_call() and (c_.d.get("srcname") == "length" or "6lengthEv" in (c_.callee or "")) for c_ in f.all_insts() if c_.is_call())
    good = ("tab_term_set_vlo" in v and "vlo_free" in v and "vlo_start" in v) or (cxx and "length" in v and "tab_term_set_vlo" in v)
    if not good:
        # C++: vlo::length() of the vector
        vi = f.inst(strip_int_casts(f, st.ops[0]))
        while vi is not None and vi.op in ("udiv", "sdiv", "lshr", "trunc", "zext", "sext"):
            vi = f.inst(strip_int_casts(f, vi.ops[0]))
        if vi is not None and vi.is_call() and vi.args:
            lp = loaded_from(f, vi.args[0])
            if lp is not None and lp.last_field() == "term_sets.tab_term_set_vlo" and ("length" in (vi.d.get("srcname") or "") or "6lengthEv" in (vi.callee or "")):
                good = True
    if good:
        rep.ok("R12-num", "term_set_insert/number-is-vector-index", sample={"store": st.where(), "value": v})
    else:
        rep.violation("R12-num", "term_set_insert/number-is-vector-index", "a new terminal set is numbered with `%s', not with the length of the vector it is appended to: when the "
                      "two counts differ (an entry reserved before a failed allocation) later parses look the set up at a slot it does not occupy" % v,
                      where=st.where(), witness=[st.where()])


def rule_term_set_publish(ctx, rep, config="c-lib"):
    rep.rule("R12-publish", "the table of terminal sets lives in the grammar object and is filled during parses (dynamic lookahead), so it must be consistent after a failed "
                            "parse: term_set_insert publishes a new element in the hash table (the store through the reserved entry) only after every step of the "
                            "insertion that may fail -- no call that may fail is reachable from the publishing store inside the function (otherwise the table keeps an "
                            "element whose number is not in the vector, and the next parse reads behind it)")
    from .r14 import path_exists
    p = ctx.prog(config)
    f = p.fn("term_set_insert")
    rep.cover(p, [f.name])
    lookups = [c for c in f.calls() if c.callee == "find_hash_table_entry" or ((p.m.functions.get(c.callee or "") is not None) and
                                                                              p.m.functions[c.callee].d.get("srcname") == "find_entry")]
    if len(lookups) != 1:
        raise AnalysisBroken("R12-publish: %d lookups in term_set_insert" % len(lookups))
    al = set([lookups[0].id] + [u.id for u in f.uses().get(lookups[0].id, []) if u.op == "bitcast"])
    pubs = [s for s in f.all_insts() if s.op == "store" and strip_casts(f, s.ops[1]).get("v") in al]
    if not pubs:
        raise AnalysisBroken("R12-publish: the store through the reserved entry was not found")
    bad = None
    for s in pubs:
        for c in f.calls():
            if c is lookups[0] or not p.call_may_throw(f, c):
                continue
            if path_exists(f, s, c, []):
                bad = (s, c)
    if bad:
        rep.violation("R12-publish", "term_set_insert/published-after-last-failing-step", "the new terminal set is entered into the hash table at %s, and %s -- which may "
                      "fail (growth of the vector of sets) -- is called afterwards: after YAEP_NO_MEMORY the grammar keeps a set whose number is the index of a slot the "
                      "vector does not have; the next parse of the same grammar finds the set and term_set_from_table reads behind the vector" % (
                          bad[0].where(), bad[1].callee or "a function"), where=bad[0].where(), witness=[bad[0].where(), bad[1].where()])
    else:
        rep.ok("R12-publish", "term_set_insert/published-after-last-failing-step", sample={"published_at": pubs[0].where()})
