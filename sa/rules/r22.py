"""R22 -- construction of Earley situations in the recogniser (agreement between sibling sites).

  context     a situation made by moving the dot of situation S (sit_create (S->rule, S->pos + k, c))
              keeps S's context: c is S->context.  A constant context is legitimate only for the
              initial situations (set_new_add_initial_sit), whose contexts the fixpoint of
              expand_new_start_set recomputes; derived and shifted situations are never revisited.
  lookahead   the two lookahead tests of one transition -- the next token and `error' -- are made
              on the lookahead set of the same situation (the one just created).
  boundaries  the index classes of a set core are half-open: an index is compared with
              n_start_sits / n_all_dists / n_sits only as `<' or `>='."""
from ..model import resolve_addr, strip_casts, strip_int_casts, const_int, loaded_from
from ..core import AnalysisBroken
from .. import expr
from .r5 import _controlling_conditions


def _sit_of_field(f, op, field):
    """the situation value S such that op == load S.<field> (+ const for pos)"""
    o = strip_int_casts(f, op)
    i = f.inst(o)
    while i is not None and i.op in ("add", "sub") and const_int(i.ops[1]) is not None:
        i = f.inst(strip_int_casts(f, i.ops[0]))
    if i is None or i.op != "load":
        # a local copy `rule = sit->rule' is an SSA copy already; phi: give up
        return None
    pa = resolve_addr(f, i.ops[0])
    if pa.last_field() != field or pa.root[0] not in ("val", "a"):
        return None
    return pa.root if pa.root[0] == "a" else ("val", strip_casts(f, pa.root[1]).get("v"))


def rule_R22_context(ctx, rep, config="c-lib"):
    rep.rule("R22-context", "sit_create (S->rule, .., c): c is S->context, or the result is an initial situation (handed to set_new_add_initial_sit, or stored back into the "
                            "situation array by the context fixpoint) whose context is recomputed")
    p = ctx.prog(config)
    n = 0
    for f in p.m.defined():
        if f.module and not f.module.startswith("yaep."):
            continue
        for c in f.calls():
            if c.callee != "sit_create" or len(c.args) < 3:
                continue
            S = _sit_of_field(f, c.args[0], "sit.rule")
            if S is None:
                continue
            n += 1
            rep.cover(p, [f.name])
            key = "%s/sit_create#%d" % (f.name, n)
            C = _sit_of_field(f, c.args[2], "sit.context")
            if C is not None and C == S:
                rep.ok("R22-context", key, sample={"call": c.where(), "context": "of the same situation"})
                continue
            # initial situation?
            initial = False
            for u in f.uses().get(c.id, []):
                if u.is_call() and u.callee == "set_new_add_initial_sit":
                    initial = True
                if u.op == "store":
                    pa = resolve_addr(f, u.ops[1])
                    b = loaded_from(f, pa.root[1]) if pa.root[0] == "val" else None
                    if b is not None and b.root == ("g", "new_sits"):
                        initial = True
                if u.op == "icmp":
                    initial = initial or any(w.op == "br" for w in f.uses().get(u.id, []))
            if initial and C is None:
                rep.ok("R22-context", key, sample={"call": c.where(), "context": "initial situation, recomputed by the fixpoint"})
            else:
                rep.violation("R22-context", key, "a situation derived from another one by moving the dot is created with %s instead of the context of the situation it comes "
                              "from: with dynamic lookahead its lookahead set is computed from the wrong context and the item is pruned (sentences rejected at level 2 "
                              "only)" % ("the constant context %s" % const_int(c.args[2]) if const_int(c.args[2]) is not None else "another situation's context"),
                              where=c.where(), witness=[c.where()])
    rep.floor("R22-context", "sit_create calls that move the dot of a situation", n, 5)


def rule_R22_lookahead(ctx, rep, config="c-lib"):
    rep.rule("R22-lookahead", "in build_new_set every test of `error' in a lookahead set (term_set_test (X->lookahead, grammar->term_error_num)) stands behind the test of the "
                              "next token in the lookahead set of the same situation X, and X is the situation created for this transition")
    p = ctx.prog(config)
    f = p.fn("build_new_set")
    rep.cover(p, [f.name])
    n = 0
    for c in f.calls():
        if c.callee != "term_set_test" or len(c.args) < 2:
            continue
        ap = loaded_from(f, c.args[1])
        if ap is None or ap.last_field() != "grammar.term_error_num":
            continue
        n += 1
        key = "build_new_set/error-lookahead#%d" % n
        X = _sit_of_field(f, c.args[0], "sit.lookahead")
        # the sibling test on the path
        sib = None
        for (cc, pol) in _controlling_conditions(f, c.block.name):
            t = f.inst(strip_int_casts(f, cc.ops[0]))
            if t is not None and t.is_call() and t.callee == "term_set_test":
                sib = t
                break
        Y = _sit_of_field(f, sib.args[0], "sit.lookahead") if sib is not None else None
        xi = f.insts.get(X[1]) if (X is not None and X[0] == "val") else None
        created = xi is not None and xi.is_call() and xi.callee == "sit_create"
        if X is not None and Y is not None and X == Y and created:
            rep.ok("R22-lookahead", key, sample={"test": c.where(), "sibling": sib.where()})
        else:
            rep.violation("R22-lookahead", key, "the `error' exception of the lookahead pruning looks into the lookahead set of another situation than the token test beside it "
                          "(%s): the set where a syntax error is detected keeps or loses its `error' transition depending on the lookahead level" % (
                              "not the situation created for the transition" if not created else "different situations"), where=c.where(), witness=[c.where()] + ([sib.where()] if sib else []))
    rep.floor("R22-lookahead", "`error' lookahead tests in build_new_set", n, 2)


BOUNDS = ("set_core.n_start_sits", "set_core.n_all_dists", "set_core.n_sits")


def rule_R22_boundaries(ctx, rep, config="c-lib"):
    rep.rule("R22-bounds", "an index is compared with n_start_sits / n_all_dists / n_sits of a set core (or the file-scope new_n_start_sits) only as index < bound or "
                           "index >= bound: the classes start situations / derived situations with a parent / zero-distance situations are half-open intervals")
    p = ctx.prog(config)
    n = 0
    for f in p.m.defined():
        if f.module and not f.module.startswith("yaep."):
            continue
        for c in f.all_insts():
            if c.op != "icmp" or c.d["pred"] in ("eq", "ne"):
                continue
            isb = []
            for o in c.ops:
                lp = loaded_from(f, o)
                isb.append(lp is not None and (lp.last_field() in BOUNDS or (lp.root == ("g", "new_n_start_sits") and not lp.steps)))
            if isb[0] == isb[1]:
                continue
            n += 1
            pr = c.d["pred"][1:]     # lt le gt ge
            if isb[0]:              # bound REL index  ->  index REL' bound
                pr = {"lt": "gt", "gt": "lt", "le": "ge", "ge": "le"}[pr]
            key = "%s/bound-compare#%d" % (f.name, n)
            if pr in ("lt", "ge"):
                rep.ok("R22-bounds", key, nontrivial=False)
            else:
                rep.violation("R22-bounds", key, "an index is compared with a class boundary of the set core as `%s': the first (or last) situation of a class is treated as "
                              "a member of the neighbouring class" % {"le": "<=", "gt": ">"}[pr], where=c.where(), witness=[c.where()])
            rep.cover(p, [f.name])
    rep.floor("R22-bounds", "comparisons of an index with a class boundary", n, 15)


def rule_R22_cache_key(ctx, rep, config="c-lib"):
    rep.rule("R22-key", "build_pl looks a transition up in the goto cache under the lookahead terminal it builds the set with: the value stored into the key's `lookahead' "
                        "member and the third argument of build_new_set are the same value (a key filled before the lookahead of the current token is computed carries "
                        "the previous token's lookahead)")
    p = ctx.prog(config)
    f = p.fn("build_pl")
    rep.cover(p, [f.name])
    keys = []
    for s_ in f.all_insts():
        if s_.op == "store" and resolve_addr(f, s_.ops[1]).last_field() == "set_term_lookahead.lookahead":
            pa = resolve_addr(f, s_.ops[1])
            h = f.inst(strip_casts(f, pa.root[1])) if pa.root[0] == "val" else None
            # the key object being looked up (top of the object stack), not the table entry found
            if h is not None and not (h.op == "load" and resolve_addr(f, h.ops[0]).root[0] == "val"):
                keys.append(s_)
    builds = [c for c in f.calls() if c.callee == "build_new_set"]
    if not keys or len(builds) != 1:
        raise AnalysisBroken("R22-key: key store / build_new_set call of build_pl not found (%d, %d)" % (len(keys), len(builds)))
    b = builds[0]
    bv = strip_int_casts(f, b.args[2])
    bad = [k for k in keys if strip_int_casts(f, k.ops[0]) != bv]
    good = [k for k in keys if strip_int_casts(f, k.ops[0]) == bv]
    if good:
        rep.ok("R22-key", "build_pl/key-lookahead-is-build-lookahead", sample={"key": good[0].where(), "build": b.where()})
    else:
        rep.violation("R22-key", "build_pl/key-lookahead-is-build-lookahead", "the goto cache is searched (and filled) under another lookahead value than the one the set is built "
                      "with: a set pruned for one following token is reused before another one -- sentences rejected at lookahead >= 1", where=bad[0].where(), witness=[bad[0].where(), b.where()])


def rule_R22_bit_tests(ctx, rep, config="c-lib"):
    rep.rule("R22-bits", "a test of a bit in a terminal set word yields 0 / 1 from the whole word: no 64-bit `word & mask' is narrowed to int (terminals whose bit lies in the "
                         "upper half would always test as absent)")
    p = ctx.prog(config)
    n = 0
    for f in p.m.defined():
        if f.module and not f.module.startswith("yaep."):
            continue
        if not f.name.startswith("term_set_"):
            continue
        rep.cover(p, [f.name])
        for i in f.all_insts():
            if i.op != "trunc":
                continue
            v = f.inst(strip_casts(f, i.ops[0]))
            if v is not None and v.op == "and" and v.ty == "i64" and not any(const_int(o) is not None for o in v.ops):
                n += 1
                rep.violation("R22-bits", "%s/narrowed-bit-test" % f.name, "%s narrows `word & mask' from 64 to %s bits: for a terminal number >= 32 (mod 64) the bit is lost and the "
                              "terminal is reported absent from every lookahead / FIRST / FOLLOW set" % (f.name, i.ty), where=i.where(), witness=[i.where()])
    t = p.fn("term_set_test")
    rets = [r for r in t.all_insts() if r.op == "ret" and r.ops]
    okr = False
    for r in rets:
        v = t.inst(strip_int_casts(t, r.ops[0]))
        if v is not None and v.op == "icmp":
            okr = True
        elif v is not None and v.op == "select" and const_int(v.ops[1]) is not None and const_int(v.ops[2]) is not None:
            okr = True      # cond ? 1 : 0
        elif v is not None and v.op == "phi" and all(const_int(x) is not None for (x, _) in v.d["incoming"]):
            okr = True      # the same through branches
    if n == 0:
        if okr:
            rep.ok("R22-bits", "term_set_test/truth-value", sample={"function": "term_set_test"})
        else:
            raise AnalysisBroken("R22-bits: term_set_test does not return a comparison result")


def rule_R22_phases(ctx, rep, config="c-lib"):
    rep.rule("R22-phases", "expand_new_start_set: (1) the reduce vectors of the completed situations are formed in a loop of their own, after the loop that predicts "
                           "situations (the vector of a (core, symbol) pair doubles as the `symbol already predicted' mark, so a reduce entry made early suppresses the "
                           "prediction); (2) the situation behind a nullable symbol is added for every initial situation before such a symbol -- the addition is not "
                           "conditioned on the length of the rule")
    p = ctx.prog(config)
    f = p.fn("expand_new_start_set")
    rep.cover(p, [f.name])
    adds = [c for c in f.calls() if c.callee == "set_new_add_initial_sit"]
    reds = [c for c in f.calls() if c.callee and "reduce" in c.callee and "add" in c.callee]
    if not adds or not reds:
        raise AnalysisBroken("R22-phases: prediction / reduce-vector calls of expand_new_start_set not found (%d, %d)" % (len(adds), len(reds)))
    pred_loops = [L for L in f.loops() if any(a.block.name in L["body"] for a in adds)]
    mixed = [r for r in reds if any(r.block.name in L["body"] for L in pred_loops)]
    if mixed:
        rep.violation("R22-phases", "expand_new_start_set/reduce-vectors-after-prediction", "reduce vectors are formed inside the loop that predicts situations: a completed "
                      "situation met before the first situation with the dot before the same nonterminal creates the pair's vector first, and the nonterminal is then "
                      "taken for already predicted -- its initial situations are never added", where=mixed[0].where(), witness=[mixed[0].where()])
    else:
        rep.ok("R22-phases", "expand_new_start_set/reduce-vectors-after-prediction", sample={"reduce_entries": [r.where() for r in reds][:2]})
    # the nullable skip
    skip = None
    for a in adds:
        ai = f.inst(strip_casts(f, a.args[0]))
        if ai is not None and ai.is_call() and ai.callee == "sit_create" and const_int(ai.args[1]) is None:
            skip = a
    if skip is None:
        raise AnalysisBroken("R22-phases: the addition of the situation behind a nullable symbol was not found")
    extra = []
    for (c, pol) in _controlling_conditions(f, skip.block.name):
        for o in c.ops:
            lp = loaded_from(f, o)
            if lp is not None and lp.last_field() == "rule.rhs_len" and c.block.name in [bn for L in pred_loops for bn in L["body"]]:
                # the loop's own structure `pos == rhs_len' (completed situation: nothing behind the dot) is a different test: it excludes pos itself, not pos + 1
                other = c.ops[0] if o is c.ops[1] else c.ops[1]
                from ..expr import lin as _lin
                ol = _lin(f, other, 0, 1)
                if ol.c != 0:
                    extra.append(c)
    if extra:
        rep.violation("R22-phases", "expand_new_start_set/nullable-skip-unconditional", "the situation behind a nullable symbol is added only when the rule has more symbols "
                      "behind it: a completed situation reached by skipping the nullable symbol is missing from the reduce vectors, so the translation pass sees one "
                      "derivation where there are two (ambiguity flag not set)", where=extra[0].where(), witness=[extra[0].where(), skip.where()])
    else:
        rep.ok("R22-phases", "expand_new_start_set/nullable-skip-unconditional", sample={"addition": skip.where()})


def rule_R22_dedupe_pair(ctx, rep, config="c-lib"):
    rep.rule("R22-dedupe-pair", "build_new_set adds a start situation under the (situation, distance) filter: at every call sit_dist_insert (X, d) whose result controls a "
                                "call set_new_add_start_sit (Y, e), X is Y and d is e -- the filter is asked about the pair that is then added (scanner and completer "
                                "loops are siblings)")
    p = ctx.prog(config)
    f = p.fn("build_new_set")
    rep.cover(p, [f.name])
    n = 0
    for a in f.calls():
        if a.callee != "set_new_add_start_sit":
            continue
        filt = None
        for (c, pol) in _controlling_conditions(f, a.block.name):
            for o in c.ops:
                ci = f.inst(strip_int_casts(f, o))
                if ci is not None and ci.is_call() and ci.callee == "sit_dist_insert":
                    filt = ci
        n += 1
        key = "build_new_set/filtered-add#%d" % n
        if filt is None:
            rep.violation("R22-dedupe-pair", key, "a start situation is added without asking the (situation, distance) filter: duplicates enter the set (the size of a set "
                          "is no longer bounded by the grammar)", where=a.where(), witness=[a.where()])
            continue
        same_sit = strip_casts(f, filt.args[0]) == strip_casts(f, a.args[0])
        same_dist = strip_int_casts(f, filt.args[1]) == strip_int_casts(f, a.args[1])
        if same_sit and same_dist:
            rep.ok("R22-dedupe-pair", key, sample={"filter": filt.where(), "add": a.where()})
        else:
            rep.violation("R22-dedupe-pair", key, "the filter is asked about another %s than the one that is added: a situation is dropped because a different one was "
                          "seen before (sentences rejected), or added twice" % ("situation" if not same_sit else "distance"), where=filt.where(),
                          witness=[filt.where(), a.where()])
    rep.floor("R22-dedupe-pair", "filtered additions of start situations", n, 2)


def rule_R22_distance_class(ctx, rep, config="c-lib"):
    rep.rule("R22-class", "expand_new_start_set: a situation obtained by moving the dot of new_sits[i] over a nullable symbol is added as an *initial* (zero-distance) "
                          "situation only when new_sits[i] is itself in the zero-distance class, i >= n_all_dists of the new core (situations with a distance are advanced "
                          "by add_derived_nonstart_sits, which keeps the parent's distance)")
    from .r21 import _rel
    p = ctx.prog(config)
    f = p.fn("expand_new_start_set")
    rep.cover(p, [f.name])
    n = 0
    for a in f.calls():
        if a.callee != "set_new_add_initial_sit":
            continue
        c = f.inst(strip_casts(f, a.args[0]))
        if c is None or not c.is_call() or c.callee != "sit_create":
            continue
        S = _sit_of_field(f, c.args[0], "sit.rule")
        P = _sit_of_field(f, c.args[1], "sit.pos")
        if S is None or P is None or S != P or const_int(c.args[1]) is not None:
            continue       # a predicted rule (pos 0), not a dot move
        # the index of the source situation
        src = f.insts.get(S[1]) if S[0] == "val" else None
        idx = None
        if src is not None and src.op == "load":
            pa = resolve_addr(f, src.ops[0])
            b = loaded_from(f, pa.root[1]) if pa.root[0] == "val" else None
            if b is not None and b.root == ("g", "new_sits") and pa.steps:
                idx = strip_int_casts(f, pa.steps[-1][1])
        if idx is None:
            raise AnalysisBroken("R22-class: the situation whose dot is moved at %s is not an element of new_sits" % c.where())
        n += 1
        key = "expand_new_start_set/nullable-skip-class#%d" % n
        found = None
        allc = []
        for (cc, pol) in _controlling_conditions(f, a.block.name):
            r = _rel(cc, pol)
            if r is None:
                continue
            if strip_int_casts(f, cc.ops[0]) == idx:
                b = loaded_from(f, cc.ops[1])
                allc.append((r, (b.last_field() if b is not None and b.steps else (b.root[1] if b is not None and b.root[0] == "g" else None)), cc))
        good = [x for x in allc if x[0] == "ge" and x[1] == "set_core.n_all_dists"]
        lower = [x for x in allc if x[0] in ("ge", "gt")]
        found = good[0] if good else (lower[0] if lower else None)
        # ... and under nothing else: every situation with a nullable symbol behind the dot is advanced, not only the first one that mentions the symbol
        other = None
        for (cc, pol) in _controlling_conditions(f, a.block.name):
            flds = []
            for o in cc.ops:
                lp = loaded_from(f, o)
                flds.append(lp.last_field() if lp is not None and lp.steps else (lp.root[1] if lp is not None and lp.root[0] == "g" else None))
            known = [x for x in flds if x in ("symb.empty_p", "symb.term_p", "set_core.n_all_dists", "set_core.n_sits", "rule.rhs_len", "sit.pos", "new_n_start_sits", "set_core.n_start_sits")]
            if known:
                continue
            ci = [f.inst(strip_casts(f, o)) for o in cc.ops]
            if any(x is not None and x.is_call() for x in ci):
                other = (cc, [x.callee for x in ci if x is not None and x.is_call()][0])
        if good and other is not None:
            rep.violation("R22-class", key, "the dot is moved over a nullable symbol only under a test of the result of %s (%s): the situations that mention the symbol after "
                          "the first one are not advanced -- derivations through the empty alternative at their place are lost (a real ambiguity is not reported, "
                          "sentences can be rejected)" % (other[1], other[0].where()), where=a.where(), witness=[other[0].where(), a.where()])
        elif good:
            rep.ok("R22-class", key, sample={"call": a.where(), "guard": found[2].where()})
        else:
            rep.violation("R22-class", key, "the dot of new_sits[i] is moved over a nullable symbol into an initial (zero-distance) situation %s: a situation that carries "
                          "its parent's distance also yields a zero-distance copy -- a completed item with the wrong origin (a second, spurious derivation: the "
                          "ambiguity flag is set for unambiguous input)" % (
                              ("under `i %s %s' instead of `i >= n_all_dists'" % ({"ge": ">=", "lt": "<", "gt": ">", "le": "<="}[found[0]], found[1])) if found
                              else "without a test of the class of i"), where=a.where(), witness=[a.where()])
    rep.floor("R22-class", "nullable skips into an initial situation", n, 1)


def rule_R22_replacement(ctx, rep, config="c-lib"):
    rep.rule("R22-replace", "a situation of the set being built is replaced (a store of sit_create (..) into new_sits[i]) only by the same dotted rule with another "
                            "context: the rule and the position given to sit_create are S->rule and S->pos of the situation S = new_sits[i] that is replaced (the "
                            "transition and reduce vectors already refer to slot i)")
    p = ctx.prog(config)
    n = 0
    for f in p.m.defined():
        if f.module and not f.module.startswith("yaep."):
            continue
        for c in f.calls():
            if c.callee != "sit_create" or len(c.args) < 3:
                continue
            # stored into new_sits[idx]?
            slot = None
            al = set([c.id])
            for u in f.uses().get(c.id, []):
                if u.op == "phi":
                    al.add(u.id)
            for s_ in f.all_insts():
                if s_.op == "store" and strip_casts(f, s_.ops[0]).get("v") in al:
                    pa = resolve_addr(f, s_.ops[1])
                    b = loaded_from(f, pa.root[1]) if pa.root[0] == "val" else None
                    if b is not None and b.root == ("g", "new_sits") and not b.steps and pa.steps:
                        slot = (s_, strip_int_casts(f, pa.steps[-1][1]))
            if slot is None:
                continue
            n += 1
            rep.cover(p, [f.name])
            key = "%s/replacement#%d" % (f.name, n)
            S_rule = _sit_of_field(f, c.args[0], "sit.rule")
            S_pos = _sit_of_field(f, c.args[1], "sit.pos")
            same_slot = False
            if S_rule is not None and S_rule[0] == "val":
                src = f.insts.get(S_rule[1])
                if src is not None and src.op == "load":
                    qa = resolve_addr(f, src.ops[0])
                    qb = loaded_from(f, qa.root[1]) if qa.root[0] == "val" else None
                    same_slot = qb is not None and qb.root == ("g", "new_sits") and qa.steps and strip_int_casts(f, qa.steps[-1][1]) == slot[1]
            if S_rule is not None and S_pos == S_rule and same_slot and const_int(c.args[1]) is None:
                rep.ok("R22-replace", key, sample={"call": c.where(), "store": slot[0].where()})
            else:
                why = "another rule" if S_rule is None or not same_slot else ("the constant position %s" % const_int(c.args[1]) if const_int(c.args[1]) is not None else "another position")
                rep.violation("R22-replace", key, "the situation in new_sits[i] is replaced by one with %s than the situation it replaces: the vectors of the core that were "
                              "formed before still refer to slot i -- an item advanced over a nullable prefix is put back to the start of its rule (valid input "
                              "rejected, or a wrong tree, at lookahead 2 only)" % why, where=c.where(), witness=[c.where(), slot[0].where()])
    rep.floor("R22-replace", "replacements of a situation in new_sits", n, 1)


def _set_writer_kind(p, g, memo, depth=0):
    """how a function treats the set passed as its first argument: 'read', 'accumulate' (every store through it writes old | something) or 'overwrite'"""
    if g.name in memo:
        return memo[g.name]
    memo[g.name] = "read"
    kind = "read"
    def from_param0(op, depth=0, seen=None):
        seen = seen if seen is not None else set()
        o = strip_casts(g, op)
        if o == {"k": "a", "v": 0}:
            return True
        if o.get("k") != "i" or o["v"] in seen or depth > 8:
            return False
        seen.add(o["v"])
        i = g.insts.get(o["v"])
        if i is None:
            return False
        if i.op == "getelementptr":
            return from_param0(i.d["base"], depth + 1, seen)
        if i.op == "phi":
            return any(from_param0(v, depth + 1, seen) for (v, _) in i.d["incoming"])
        return False
    for s_ in g.all_insts():
        if s_.op == "store":
            if not from_param0(s_.ops[1]):
                continue
            v = g.inst(strip_int_casts(g, s_.ops[0]))
            acc = False
            if v is not None and v.op == "or":
                for o in v.ops:
                    l_ = g.inst(strip_int_casts(g, o))
                    if l_ is not None and l_.op == "load" and (strip_casts(g, l_.ops[0]) == strip_casts(g, s_.ops[1]) or
                                                                  expr.addr_str(g, l_.ops[0], 0, 3) == expr.addr_str(g, s_.ops[1], 0, 3)):
                        acc = True
            if acc and kind == "read":
                kind = "accumulate"
            elif not acc:
                kind = "overwrite"
        elif s_.is_call():
            cal = s_.callee or ""
            if cal.startswith(("llvm.memcpy", "llvm.memset", "llvm.memmove")) or cal in ("memcpy", "memset", "memmove"):
                if s_.args and from_param0(s_.args[0]):
                    kind = "overwrite"
            elif depth < 4 and s_.args and strip_casts(g, s_.args[0]) == {"k": "a", "v": 0}:
                h = p.m.functions.get(cal)
                if h is not None and not h.decl:
                    k2 = _set_writer_kind(p, h, memo, depth + 1)
                    if k2 == "overwrite" or (k2 == "accumulate" and kind == "read"):
                        kind = k2
    memo[g.name] = kind
    return kind


def rule_lookahead_accumulated(ctx, rep, config="c-lib"):
    rep.rule("R22-accumulate", "the lookahead set of a situation is FIRST (tail) united with FOLLOW (lhs) or with the context when the tail can be empty: sit_set_lookahead "
                               "builds it by accumulation -- once an operation has added terminals to the set, no later operation on the same set overwrites it "
                               "(functions are classed by what they do with the set they get: read it, write old | new into it, or write something else)")
    from .r14 import path_exists
    p = ctx.prog(config)
    f = p.fn("sit_set_lookahead")
    rep.cover(p, [f.name])
    memo = {}
    # the set: what is read from sit->lookahead, or the value that is stored there (the set kept in a local until then)
    set_vals = set()
    for s_ in f.all_insts():
        if s_.op == "store" and resolve_addr(f, s_.ops[1]).last_field() == "sit.lookahead":
            o_ = strip_casts(f, s_.ops[0])
            if o_.get("k") == "i":
                set_vals.add(o_["v"])
                ph_ = f.insts.get(o_["v"])
                if ph_ is not None and ph_.op == "phi":
                    set_vals.update(strip_casts(f, v_).get("v") for (v_, _) in ph_.d["incoming"] if strip_casts(f, v_).get("k") == "i")

    def is_set(op):
        lp_ = loaded_from(f, op)
        if lp_ is not None and lp_.last_field() == "sit.lookahead":
            return True
        o_ = strip_casts(f, op)
        return o_.get("k") == "i" and o_["v"] in set_vals
    ops = []
    for c in f.all_insts():
        if not c.is_call() or not c.args or not c.callee:
            continue
        if not is_set(c.args[0]):
            continue
        if c.callee.startswith(("llvm.memcpy", "llvm.memmove", "llvm.memset")) or c.callee in ("memcpy", "memmove", "memset"):
            ops.append((c, "overwrite"))      # a helper written out (or inlined) here
            continue
        g = p.m.functions.get(c.callee)
        if g is None or g.decl:
            continue
        ops.append((c, _set_writer_kind(p, g, memo)))
    # writes made here directly (a helper inlined into this function): stores through a pointer made from the loaded set pointer
    def from_set(op, depth=0, seen=None):
        seen = seen if seen is not None else set()
        o = strip_casts(f, op)
        if o.get("k") != "i" or o["v"] in seen or depth > 8:
            return False
        seen.add(o["v"])
        i = f.insts.get(o["v"])
        if i is None:
            return False
        if o["v"] in set_vals:
            return True
        if i.op == "load":
            return resolve_addr(f, i.ops[0]).last_field() == "sit.lookahead"
        if i.op == "getelementptr":
            return from_set(i.d["base"], depth + 1, seen)
        if i.op == "phi":
            return any(from_set(v, depth + 1, seen) for (v, _) in i.d["incoming"])
        return False
    for s_ in f.all_insts():
        if s_.op != "store" or not from_set(s_.ops[1]):
            continue
        v = f.inst(strip_int_casts(f, s_.ops[0]))
        acc = v is not None and v.op == "or" and any((lambda l_: l_ is not None and l_.op == "load" and (strip_casts(f, l_.ops[0]) == strip_casts(f, s_.ops[1]) or expr.addr_str(f, l_.ops[0], 0, 3) == expr.addr_str(f, s_.ops[1], 0, 3)))(
            f.inst(strip_int_casts(f, o))) for o in v.ops)
        ops.append((s_, "accumulate" if acc else "overwrite"))
    accs = [c for (c, k) in ops if k == "accumulate"]
    if len(accs) < 2:
        raise AnalysisBroken("R22-accumulate: sit_set_lookahead does not accumulate its lookahead set through at least two operations (%d found)" % len(accs))
    n = 0
    for (c, k) in ops:
        if k != "overwrite":
            continue
        n += 1
        nm = (c.callee if c.is_call() else "a store")
        key = "sit_set_lookahead/%s@%s" % (nm, c.where().rsplit(":", 2)[-2])
        before = [a for a in accs if path_exists(f, a, c, [])]
        if before:
            rep.violation("R22-accumulate", key, "%s overwrites the lookahead set after %s has added terminals to it: what the tail of the rule can start with is lost, "
                          "the set keeps only the context (FOLLOW) part -- with lookahead the situation is pruned although the next token begins its tail, a "
                          "sentence is refused" % (nm, (before[0].callee if before[0].is_call() else "an earlier operation")), where=c.where(), witness=[before[0].where(), c.where()])
        else:
            rep.ok("R22-accumulate", key, sample={"initialisation": c.where()})
    rep.ok("R22-accumulate", "sit_set_lookahead/accumulating-operations", sample={"operations": [a.where() for a in accs]})
