"""R11 -- exhaustive node-kind dispatch and the release discipline of yaep_free_tree."""
from ..model import resolve_addr, strip_casts, const_int, loaded_from
from ..core import AnalysisBroken
from .r13 import via_param, chain_types, NODE_T

KINDS = {0: "YAEP_NIL", 1: "YAEP_ERROR", 2: "YAEP_TERM", 3: "YAEP_ANODE", 4: "YAEP_ALT"}
DISPATCHERS = ["free_tree_reduce", "free_tree_sweep", "prune_to_minimal", "traverse_pruned_translation"]


def type_switches(f):
    """switch instructions whose condition derives from a load of yaep_tree_node.type"""
    out = []
    for i in f.all_insts():
        if i.op != "switch":
            continue
        c = i.d["cond"]
        seen = 0
        while seen < 6:
            seen += 1
            ci = f.inst(c)
            if ci is None:
                break
            if ci.op == "load":
                rv = None
                if resolve_addr(f, ci.ops[0]).last_field() == "yaep_tree_node.type":
                    out.append(i)
                break
            if ci.op in ("and", "zext", "sext", "trunc", "or"):
                c = ci.ops[0]
                continue
            if ci.op == "phi":
                break
            break
    return out


def rule_R11_switch(ctx, rep, config="c-lib", funcs=None):
    rep.rule("R11-switch", "every dispatch on the node kind (switch over yaep_tree_node.type) in the tree walkers has a case for each of the five public kinds "
                           "NIL, ERROR, TERM, ANODE, ALT")
    p = ctx.prog(config)
    n = 0
    for fn in (funcs or DISPATCHERS):
        f = p.fn(fn)
        rep.cover(p, [fn])
        sws = type_switches(f)
        if not sws:
            raise AnalysisBroken("%s: no switch over the node type found" % fn)
        for k, sw in enumerate(sws):
            n += 1
            key = "%s/switch#%d" % (fn, k + 1)
            cases = set(v for (v, _) in sw.d["cases"])
            missing = [KINDS[v] for v in sorted(KINDS) if v not in cases]
            if missing:
                rep.violation("R11-switch", key, "%s has no case for node kind %s: such nodes fall into the default branch" % (fn, ", ".join(missing)), where=sw.where(),
                              witness=[sw.where()])
            else:
                rep.ok("R11-switch", key, sample={"function": fn, "switch": sw.where(), "cases": sorted(cases)})
    rep.floor("R11-switch", "node-kind switches", n, len(funcs or DISPATCHERS))


def _path_counts(f, counted, start_block, dead=()):
    """min/max number of `counted' instructions executed on paths start_block -> ret; loops must not contain counted instructions;
    edges in `dead' are not followed"""
    for L in f.loops():
        for bn in L["body"]:
            if any(i in counted for i in f.bmap[bn].insts):
                return None
    memo = {}
    back = set()
    for L in f.loops():
        for la in L["latches"]:
            back.add((la, L["header"]))

    def go(bn):
        if bn in memo:
            return memo[bn]
        b = f.bmap[bn]
        c = sum(1 for i in b.insts if i in counted)
        if b.term is not None and b.term.op == "ret":
            memo[bn] = (c, c)
            return memo[bn]
        lo, hi = None, None
        for s in b.succs:
            if (bn, s) in back or (bn, s) in dead:
                continue
            r = go(s)
            if r is None:
                continue
            lo = r[0] if lo is None else min(lo, r[0])
            hi = r[1] if hi is None else max(hi, r[1])
        if lo is None:
            memo[bn] = None
            return None
        memo[bn] = (lo + c, hi + c)
        return memo[bn]

    return go(start_block)


def rule_R11_sweep(ctx, rep, config="c-lib"):
    rep.rule("R11-sweep", "free_tree_sweep: for a non-NULL node, on every path to a return the node itself is passed to parse_free exactly once; the terminal callback "
                          "is called exactly once on the TERM path and never elsewhere; the node name is released exactly once on the ANODE path (a test `name != NULL' may skip it: the name is shared and kept in one node only); free_tree_reduce sets the "
                          "VISITED bit before any recursive call and recurses only into nodes whose bit it tested; yaep_free_tree runs reduce before sweep")
    p = ctx.prog(config)
    f = p.fn("free_tree_sweep")
    rep.cover(p, ["free_tree_sweep", "free_tree_reduce", "yaep_free_tree"])
    sws = type_switches(f)
    if len(sws) != 1:
        raise AnalysisBroken("free_tree_sweep: expected one switch over the node type")
    sw = sws[0]
    frees_node = [i for i in f.calls() if via_param(f, i, "parse_free") and strip_casts(f, i.args[0]) == {"k": "a", "v": 0}]
    frees_name = []
    for i in f.calls():
        if via_param(f, i, "parse_free"):
            lp = loaded_from(f, i.args[0])
            if lp is not None and lp.last_field() in ("_yaep_anode_name.name", "yaep_anode.name") and lp.root == ("a", 0):
                frees_name.append(i)
    cbs = [i for i in f.calls() if via_param(f, i, "termcb")]
    other_frees = [i for i in f.calls() if via_param(f, i, "parse_free") and i not in frees_node and i not in frees_name]
    if other_frees:
        rep.violation("R11-sweep", "free_tree_sweep/other-release", "free_tree_sweep releases something that is neither the node nor its name", where=other_frees[0].where())
    case_block = dict((v, b) for (v, b) in sw.d["cases"])
    n = 0
    for kind, kname in sorted(KINDS.items()):
        if kind not in case_block:
            continue
        start = case_block[kind]
        for (what, lst, want) in (("node", frees_node, 1), ("name", frees_name, 1 if kind == 3 else 0), ("termcb", cbs, None)):
            n += 1
            key = "free_tree_sweep/%s/%s" % (kname, what)
            dead = set()
            if what == "name":
                # the name is shared by the nodes of a rule and free_tree_reduce leaves it in one of them only: a test `name != NULL' may skip the release
                for b in f.rblocks():
                    t = b.term
                    if t is None or t.op != "br" or len(t.ops) != 3:
                        continue
                    c = f.inst(t.ops[0])
                    if c is None or c.op != "icmp" or c.d["pred"] not in ("eq", "ne") or strip_casts(f, c.ops[1]).get("k") != "null":
                        continue
                    lp = loaded_from(f, c.ops[0])
                    if lp is not None and lp.last_field() in ("_yaep_anode_name.name", "yaep_anode.name") and lp.root == ("a", 0):
                        dead.add((b.name, t.ops[1]["v"] if c.d["pred"] == "ne" else t.ops[2]["v"]))
            r = _path_counts(f, set(lst), start, dead)
            if r is None:
                rep.violation("R11-sweep", key, "a %s release/callback of free_tree_sweep sits inside a loop" % what, where=f.where())
                continue
            lo, hi = r
            if what == "termcb":
                # called at most once, only for TERM; the NULL test of the callback makes 0 legal
                ok = (hi <= 1) and (kind == 2 or hi == 0) and (kind != 2 or hi == 1)
                wanttxt = "at most once, only for TERM nodes"
            else:
                ok = (lo == hi == want)
                wanttxt = "exactly %d time(s)" % want
            if ok:
                rep.ok("R11-sweep", key, sample={"kind": kname, "what": what, "min": lo, "max": hi})
            else:
                rep.violation("R11-sweep", key, "for a %s node free_tree_sweep %s between %d and %d times (required: %s)" % (
                    kname, {"node": "passes the node to parse_free", "name": "releases the node name", "termcb": "calls the terminal callback"}[what], lo, hi, wanttxt),
                    where=f.bmap[start].insts[0].where(), witness=[i.where() for i in lst])
    rep.floor("R11-sweep", "per-kind release obligations", n, 15)
    # free_tree_reduce: mark before recursion, recursion only behind a VISITED test
    g = p.fn("free_tree_reduce")
    marks = [s for s in g.all_insts() if s.op == "store" and resolve_addr(g, s.ops[1]).last_field() == "yaep_tree_node.type" and resolve_addr(g, s.ops[1]).root == ("a", 0)]
    recs = [i for i in g.calls() if i.callee == "free_tree_reduce"]
    okm = bool(marks) and all(any(g.inst_dominates(mk, r) for mk in marks) for r in recs)
    if okm and recs:
        rep.ok("R11-sweep", "free_tree_reduce/mark-before-recursion", sample={"mark": marks[0].where(), "recursive_calls": len(recs)})
    else:
        rep.violation("R11-sweep", "free_tree_reduce/mark-before-recursion", "free_tree_reduce recurses before marking the node visited: a DAG node reachable twice is reduced (and later freed) twice",
                      where=g.where())
    from ..guards import explore, expr_str
    states = explore(g, may_write=lambda c: set())   # callees of free_tree_reduce only touch nodes already marked; stores in g itself kill guards
    if states is None:
        raise AnalysisBroken("free_tree_reduce: too many path states")
    for k, r in enumerate(recs):
        key = "free_tree_reduce/recursion#%d-tested" % (k + 1)
        sup = set()
        arg = expr_str(g, r.args[0], sup)
        want = "(L[(%s).yaep_tree_node.type]&128)" % arg if arg else None
        sts = states.get(r.block.name, set())
        tested = bool(sts) and want is not None and all(any(gd[0] == want and gd[1] is False for gd in A) for A in sts)
        if tested:
            rep.ok("R11-sweep", key, sample={"call": r.where(), "path_states": len(sts), "fact": want + " == 0"})
        else:
            rep.violation("R11-sweep", key, "free_tree_reduce can recurse into a node without having tested its VISITED bit on that path (a node reachable through two "
                                            "parents is then reduced and later freed twice)", where=r.where(), witness=[r.where()])
    # yaep_free_tree order
    h = p.fn("yaep_free_tree")
    red = [i for i in h.calls() if i.callee == "free_tree_reduce"]
    swp = [i for i in h.calls() if i.callee == "free_tree_sweep"]
    if len(red) == 1 and len(swp) == 1 and h.inst_dominates(red[0], swp[0]):
        rep.ok("R11-sweep", "yaep_free_tree/reduce-then-sweep")
    else:
        rep.violation("R11-sweep", "yaep_free_tree/reduce-then-sweep", "yaep_free_tree does not reduce the DAG to a tree before sweeping it", where=h.where())
