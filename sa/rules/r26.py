"""R26 -- the C and the C++ compilation of yaep.c agree (the `#ifdef __cplusplus' branches).

yaep.c is compiled twice: as C against the container macros, as C++ (through yaep.cpp) against the
container classes.  About fifty functions have a branch per language.  The branches are siblings
that implement one behaviour; two things are compared function by function, both independent of
how a container operation is spelled:

  lookups  the hash-table lookups (table, reserve flag): a lookup that fills the entry it gets but
           does not reserve it never counts the element -- the table never grows;
  loops    the start values of the counting loops (constant / not constant): an initialisation
           loop that starts at 0 in one branch and at the old length in the other re-initialises
           what the other keeps."""
from ..model import strip_casts, const_int, loaded_from, resolve_addr
from ..core import AnalysisBroken
from .. import expr


def _lookups(p, f):
    out = []
    for i in f.calls():
        tg = i.callee or ""
        g = p.m.functions.get(tg)
        sn = (g.d.get("srcname") if g is not None else None) or tg
        if tg == "find_hash_table_entry" or (sn == "find_entry" and "hash_table" in tg):
            lp = loaded_from(f, i.args[0])
            tab = lp.root[1] if (lp is not None and lp.root[0] == "g" and not lp.steps) else (lp.last_field() if lp is not None else None)
            r = const_int(i.args[2])
            out.append((str(tab), "reserve" if r else ("no-reserve" if r == 0 else "variable"), i))
    return out


def _creations(p, f):
    """hash tables created: (hash function, equality function, instruction)"""
    out = []
    for i in f.calls():
        tg = i.callee or ""
        g = p.m.functions.get(tg)
        sn = (g.d.get("srcname") if g is not None else None) or tg
        fr = None
        if tg == "create_hash_table":
            fr = [strip_casts(f, a) for a in i.args[-2:]]
        elif tg.startswith(("_ZN10hash_tableC1E", "_ZN10hash_tableC2E")):
            fr = [strip_casts(f, a) for a in i.args[-2:]]
        if fr is None:
            continue
        names = []
        for x in fr:
            if x.get("k") == "f":
                h = p.m.functions.get(x["v"])
                names.append((h.d.get("srcname") if h is not None and h.d.get("srcname") else x["v"]))
            else:
                names.append("?")
        out.append((names[0], names[1], i))
    return out


def _loops(f):
    out = []
    for L in f.loops():
        hdr = f.bmap[L["header"]]
        for ph in hdr.insts:
            if ph.op != "phi" or not ph.ty.startswith("i"):
                continue
            inits = [v for (v, pb) in ph.d["incoming"] if pb not in L["body"]]
            steps = [v for (v, pb) in ph.d["incoming"] if pb in L["body"]]
            if len(inits) != 1 or len(steps) != 1:
                continue
            st = expr.lin(f, steps[0], 0, 0)
            atom = "phi#%d" % ph.id
            if st.t != {atom: 1} or st.c not in (1, -1):
                continue
            c = const_int(inits[0])
            out.append((("const %d" % c) if c is not None else "variable", "+1" if st.c == 1 else "-1", hdr.term.where() if hdr.term is not None else f.where()))
    return out


def _multiset(xs):
    d = {}
    for x in xs:
        d[x] = d.get(x, 0) + 1
    return d


def rule_R26(ctx, rep):
    rep.rule("R26", "every function of yaep.c, compiled as C and as C++ (the `#ifdef __cplusplus' branches), makes the same hash-table lookups (table, reserve flag) and "
                    "has the same counting loops (start value constant c / not constant, direction): the two branches of a function are sibling implementations of one "
                    "behaviour")
    pc, px = ctx.prog("c-lib"), ctx.prog("cxx-lib")
    nf = nl = nlo = 0
    ncr = [0]
    for f in pc.m.defined():
        if not f.module or not f.module.startswith("yaep."):
            continue
        g = px.m.functions.get(f.name)
        if g is None or g.decl:
            continue
        nf += 1
        lc, lx = _lookups(pc, f), _lookups(px, g)
        nl += len(lc)
        mc, mx = _multiset((t, r) for (t, r, _) in lc), _multiset((t, r) for (t, r, _) in lx)
        if mc != mx:
            only_c = sorted(k for k in mc if mc[k] != mx.get(k, 0))
            only_x = sorted(k for k in mx if mx[k] != mc.get(k, 0))
            site = [i for (t, r, i) in lx if (t, r) in only_x] or [i for (t, r, i) in lc if (t, r) in only_c]
            rep.violation("R26", f.name + "/lookups", "the C and the C++ branch of %s look up the hash tables differently: C %s, C++ %s -- a lookup whose entry is filled but "
                          "not reserved is not counted, the table never grows and fills up (the probe loop does not end)" % (f.name, only_c, only_x),
                          where=site[0].where(), witness=[s_.where() for s_ in site])
        elif lc:
            rep.cover(pc, [f.name])
            rep.ok("R26", f.name + "/lookups", sample={"lookups": sorted(mc)})
        cc_, cx_ = _creations(pc, f), _creations(px, g)
        ncr[0] += len(cc_)
        mc, mx = _multiset((a, b) for (a, b, _) in cc_), _multiset((a, b) for (a, b, _) in cx_)
        if mc != mx:
            dc = sorted(k for k in mc if mc[k] != mx.get(k, 0))
            dx = sorted(k for k in mx if mx[k] != mc.get(k, 0))
            site = [w for (a, b, w) in cx_ if (a, b) in dx] or [w for (a, b, w) in cc_ if (a, b) in dc]
            rep.violation("R26", f.name + "/tables", "the C and the C++ branch of %s create their hash tables with different (hash, equality) functions: only in C %s, only "
                          "in C++ %s -- one of the libraries hashes and compares the elements of a table with the functions of another table" % (f.name, dc, dx),
                          where=site[0].where(), witness=[w.where() for w in site])
        elif cc_:
            rep.ok("R26", f.name + "/tables", sample={"tables": sorted(mc)})
        oc, ox = _loops(f), _loops(g)
        nlo += len(oc)
        mc, mx = _multiset((a, b) for (a, b, _) in oc), _multiset((a, b) for (a, b, _) in ox)
        if mc != mx:
            dc = sorted(k for k in mc if mc[k] != mx.get(k, 0))
            dx = sorted(k for k in mx if mx[k] != mc.get(k, 0))
            site = [w for (a, b, w) in ox if (a, b) in dx] or [w for (a, b, w) in oc if (a, b) in dc]
            rep.violation("R26", f.name + "/loops", "the C and the C++ branch of %s do not run the same counting loops: only in C (start, step) %s, only in C++ %s -- one branch "
                          "(re)initialises or visits a range the other does not" % (f.name, dc, dx), where=site[0], witness=site)
        elif oc:
            rep.ok("R26", f.name + "/loops", nontrivial=False, sample={"loops": len(oc)})
    rep.floor("R26", "functions of yaep.c present in both libraries", nf, 150)
    rep.floor("R26", "hash-table lookups compared", nl, 15)
    rep.floor("R26", "counting loops compared", nlo, 60)
    rep.floor("R26", "hash-table creations compared", ncr[0], 10)
