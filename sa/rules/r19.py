"""R19 -- no stale copy of a container's own field across an operation that rewrites the field.

The container implementations (hashtab, objstack, vlobject; C and C++) keep their geometry in
fields of the object (size, entries, segment, start/free/boundary).  A value read from such a
field before a call that may rewrite it (the table is rebuilt, the object is moved) describes the
old geometry; using it afterwards probes / writes with the old size."""
from ..model import resolve_addr, strip_casts, const_int
from ..core import AnalysisBroken
from .r14 import path_exists

MODULES = ("hashtab.", "objstack.", "vlobject.")


def _obj_of(f, op):
    """('a', k) when the address is a field of the object passed as k-th argument"""
    pa = resolve_addr(f, op)
    if pa.root[0] == "a" and pa.steps and pa.steps[0][0] == "f":
        return pa.root, pa.last_field()
    return None, None


def _mods(p, memo, g, depth=0):
    """fields of its first argument's object a function may write (transitively); '*' = the whole object (struct copy)"""
    if g.name in memo:
        return memo[g.name]
    memo[g.name] = set()
    res = set()
    for i in g.all_insts():
        if i.op == "store":
            o, fld = _obj_of(g, i.ops[1])
            if o == ("a", 0) and fld:
                res.add(fld.split(".")[-1])
        elif i.is_call():
            if (i.callee or "").startswith("llvm.memcpy") or (i.callee or "").startswith("llvm.memmove"):
                d = strip_casts(g, i.args[0])
                if d.get("k") == "a" and d.get("v") == 0:
                    res.add("*")
                continue
            if not i.args:
                continue
            a0 = strip_casts(g, i.args[0])
            if a0.get("k") == "a" and a0.get("v") == 0 and depth < 6:
                for t in p.call_targets(g, i):
                    h = p.m.functions.get(t)
                    if h is not None and not h.decl:
                        res |= _mods(p, memo, h, depth + 1)
    memo[g.name] = res
    return res


def rule_R19(ctx, rep, config="c-lib", tag=""):
    rep.rule("R19", "in the container implementations a value loaded from a field of the container before a call that may rewrite that field of the same object "
                    "(transitively; a struct copy rewrites every field) is not used after the call (every use reachable from the call without re-executing the load "
                    "is reported)")
    p = ctx.prog(config)
    memo = {}
    nloads = ncalls = 0
    nfun = 0
    for f in p.m.defined():
        if not f.module or not f.module.startswith(MODULES):
            continue
        calls = []
        for c in f.calls():
            if not c.args or (c.callee or "").startswith("llvm."):
                continue
            a0 = strip_casts(f, c.args[0])
            if a0.get("k") != "a":
                continue
            mods = set()
            for t in p.call_targets(f, c):
                h = p.m.functions.get(t)
                if h is not None and not h.decl:
                    mods |= _mods(p, memo, h)
            if mods:
                calls.append((c, ("a", a0["v"]), mods))
        if not calls:
            continue
        nfun += 1
        rep.cover(p, [f.name])
        ncalls += len(calls)
        for l in f.all_insts():
            if l.op != "load":
                continue
            o, fld = _obj_of(f, l.ops[0])
            if o is None:
                continue
            short = fld.split(".")[-1]
            nloads += 1
            for (c, co, mods) in calls:
                if co != o or not (short in mods or "*" in mods):
                    continue
                if not path_exists(f, l, c, []):
                    continue
                # values derived from the load by pure arithmetic keep the staleness
                der = set([l.id])
                work = [l.id]
                while work:
                    x = work.pop()
                    for u in f.uses().get(x, []):
                        if u.op in ("add", "sub", "mul", "udiv", "sdiv", "zext", "sext", "trunc", "bitcast", "getelementptr", "ptrtoint", "inttoptr", "shl", "lshr", "and", "or") \
                                and u.id not in der:
                            der.add(u.id)
                            work.append(u.id)
                for d in der:
                    for u in f.uses().get(d, []):
                        if u.id in der or u is c:
                            continue
                        if u.op == "phi":
                            continue
                        if path_exists(f, c, u, [l]):
                            rep.violation("R19", tag + "%s/%s" % (f.name, short), "`%s' of the container is read before %s, which may rewrite it (%s), and the old value is used "
                                          "afterwards: the operation continues with the geometry of the table / object as it was before the call" % (
                                              short, c.callee or "a call", "struct copy" if "*" in mods and short not in mods else "store to the field"),
                                          where=u.where(), witness=["read at " + l.where(), "rewritten by the call at " + c.where(), "old value used at " + u.where()])
                            break
                    else:
                        continue
                    break
    if not any(x.rule == "R19" and x.key.startswith(tag) for x in rep.findings):
        rep.ok("R19", tag + "all-field-reads", sample={"functions_with_rewriting_calls": nfun, "rewriting_calls": ncalls, "field_reads_examined": nloads})
    rep.floor("R19", tag + "calls that may rewrite a field of the container", ncalls, 4)


def rule_R19_cxx(ctx, rep, config="cxx-lib"):
    rule_R19(ctx, rep, config="cxx-lib", tag="[c++] ")
