"""R19 -- no stale copy of a container's own field across an operation that rewrites the field.

The container implementations (hashtab, objstack, vlobject; C and C++) keep their geometry in
fields of the object (size, entries, segment, start/free/boundary).  A value read from such a
field before a call that may rewrite it (the table is rebuilt, the object is moved) describes the
old geometry; using it afterwards probes / writes with the old size."""
from ..model import resolve_addr, strip_casts, const_int
from ..core import AnalysisBroken
from .r14 import path_exists

MODULES = ("hashtab.", "objstack.", "vlobject.")


def _obj_of(f, op):
    """('a', k) when the address is a field of the object passed as k-th argument"""
    pa = resolve_addr(f, op)
    if pa.root[0] == "a" and pa.steps and pa.steps[0][0] == "f":
        return pa.root, pa.last_field()
    return None, None


def _mods(p, memo, g, depth=0):
    """fields of its first argument's object a function may write (transitively); '*' = the whole object (struct copy)"""
    if g.name in memo:
        return memo[g.name]
    memo[g.name] = set()
    res = set()
    for i in g.all_insts():
        if i.op == "store":
            o, fld = _obj_of(g, i.ops[1])
            if o == ("a", 0) and fld:
                res.add(fld.split(".")[-1])
        elif i.is_call():
            if (i.callee or "").startswith("llvm.memcpy") or (i.callee or "").startswith("llvm.memmove"):
                d = strip_casts(g, i.args[0])
                if d.get("k") == "a" and d.get("v") == 0:
                    res.add("*")
                continue
            if not i.args:
                continue
            a0 = strip_casts(g, i.args[0])
            if a0.get("k") == "a" and a0.get("v") == 0 and depth < 6:
                for t in p.call_targets(g, i):
                    h = p.m.functions.get(t)
                    if h is not None and not h.decl:
                        res |= _mods(p, memo, h, depth + 1)
    memo[g.name] = res
    return res


def rule_R19(ctx, rep, config="c-lib", tag=""):
    rep.rule("R19", "in the container implementations a value loaded from a field of the container before a call that may rewrite that field of the same object "
                    "(transitively; a struct copy rewrites every field) is not used after the call (every use reachable from the call without re-executing the load "
                    "is reported)")
    p = ctx.prog(config)
    memo = {}
    nloads = ncalls = 0
    nfun = 0
    for f in p.m.defined():
        if not f.module or not f.module.startswith(MODULES):
            continue
        calls = []
        for c in f.calls():
            if not c.args or (c.callee or "").startswith("llvm."):
                continue
            a0 = strip_casts(f, c.args[0])
            if a0.get("k") != "a":
                continue
            mods = set()
            for t in p.call_targets(f, c):
                h = p.m.functions.get(t)
                if h is not None and not h.decl:
                    mods |= _mods(p, memo, h)
            if mods:
                calls.append((c, ("a", a0["v"]), mods))
        if not calls:
            continue
        nfun += 1
        rep.cover(p, [f.name])
        ncalls += len(calls)
        for l in f.all_insts():
            if l.op != "load":
                continue
            o, fld = _obj_of(f, l.ops[0])
            if o is None:
                continue
            short = fld.split(".")[-1]
            nloads += 1
            for (c, co, mods) in calls:
                if co != o or not (short in mods or "*" in mods):
                    continue
                if not path_exists(f, l, c, []):
                    continue
                # the function itself installs a new value of the field before the call: the value read is kept on purpose (old table being migrated)
                own = [x for x in f.all_insts() if x.op == "store" and _obj_of(f, x.ops[1]) == (o, fld)]
                if any(path_exists(f, l, x, []) and path_exists(f, x, c, []) for x in own):
                    continue
                # values derived from the load by pure arithmetic keep the staleness
                der = set([l.id])
                work = [l.id]
                while work:
                    x = work.pop()
                    for u in f.uses().get(x, []):
                        if u.op in ("add", "sub", "mul", "udiv", "sdiv", "zext", "sext", "trunc", "bitcast", "getelementptr", "ptrtoint", "inttoptr", "shl", "lshr", "and", "or") \
                                and u.id not in der:
                            der.add(u.id)
                            work.append(u.id)
                for d in der:
                    for u in f.uses().get(d, []):
                        if u.id in der or u is c:
                            continue
                        if u.op == "phi":
                            continue
                        if path_exists(f, c, u, [l]):
                            rep.violation("R19", tag + "%s/%s" % (f.name, short), "`%s' of the container is read before %s, which may rewrite it (%s), and the old value is used "
                                          "afterwards: the operation continues with the geometry of the table / object as it was before the call" % (
                                              short, c.callee or "a call", "struct copy" if "*" in mods and short not in mods else "store to the field"),
                                          where=u.where(), witness=["read at " + l.where(), "rewritten by the call at " + c.where(), "old value used at " + u.where()])
                            break
                    else:
                        continue
                    break
    if not any(x.rule == "R19" and x.key.startswith(tag) for x in rep.findings):
        rep.ok("R19", tag + "all-field-reads", sample={"functions_with_rewriting_calls": nfun, "rewriting_calls": ncalls, "field_reads_examined": nloads})
    rep.floor("R19", tag + "calls that may rewrite a field of the container", ncalls, 4)


def rule_R19_cxx(ctx, rep, config="cxx-lib"):
    rule_R19(ctx, rep, config="cxx-lib", tag="[c++] ")


# (source name of the function, field) -> reason why a store before a call that may fail is harmless
R23_OK = {
    ("_OS_add_string_function", "os_top_object_free"): "removes the terminator it appends again itself; a failure leaves the string one byte shorter, never longer than the memory",
    ("_VLO_add_string_function", "vlo_free"): "same as the object stack twin",
    ("add_string", "os_top_object_free"): "C++ twin",
    ("add_string", "vlo_free"): "C++ twin",
}


def rule_R23(ctx, rep, config="c-lib", tag=""):
    rep.rule("R23", "a container operation does not change a field of the container and then call something that may fail (allocate): the error exit would leave a table "
                    "whose size does not match its array, an object whose boundary does not match its block.  Constructors (the object is not visible yet) and the "
                    "listed sites are exempt")
    p = ctx.prog(config)
    n = 0
    nthrow = 0
    for f in p.m.defined():
        if not f.module or not f.module.startswith(MODULES):
            continue
        thr = [c for c in f.calls() if p.call_may_throw(f, c)]
        if not thr:
            continue
        nthrow += len(thr)
        rep.cover(p, [f.name])
        src = f.d.get("srcname") or f.name
        is_ctor = ("C2E" in f.name or "C1E" in f.name) or src in ("create_hash_table", "_OS_create_function", "_VLO_create_function")
        seen = set()
        for s_ in f.all_insts():
            if s_.op != "store":
                continue
            o, fld = _obj_of(f, s_.ops[1])
            if o != ("a", 0) or not fld:
                continue
            short = fld.split(".")[-1]
            after = [c for c in thr if path_exists(f, s_, c, [])]
            if not after or short in seen:
                continue
            seen.add(short)
            n += 1
            key = tag + "%s/%s" % (f.name, short)
            if is_ctor:
                rep.ok("R23", key, nontrivial=False, sample={"exempt": "constructor"})
            elif (src, short) in R23_OK:
                rep.ok("R23", key, nontrivial=False, sample={"exempt": R23_OK[(src, short)]})
            else:
                rep.violation("R23", key, "`%s' of the container is changed before %s, which may fail: after the failure the container's fields no longer describe its "
                              "memory (the next operation on it -- the grammar object stays usable after YAEP_NO_MEMORY -- reads or writes outside it)" % (
                                  short, after[0].callee or "a call"), where=s_.where(), witness=[s_.where(), after[0].where()])
    if not n:
        rep.ok("R23", tag + "no-field-change-before-a-failing-call", sample={"failing_calls_examined": nthrow})
    rep.floor("R23", tag + "calls that may fail in the container modules", nthrow, 6)


def rule_R23_cxx(ctx, rep, config="cxx-lib"):
    rule_R23(ctx, rep, config="cxx-lib", tag="[c++] ")
