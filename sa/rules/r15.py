"""R15 -- the validity test of the goto cache examines every start situation.

A cached successor set may be reused only if the origin sets of *all* its start
situations (distance > 1) are the same as where it was built.  Structural necessary
condition: the loop of check_cached_transition_set ranges over the whole index range
[0, set->core->n_start_sits) of the distance vector (ascending or descending), and a
mismatch of any examined pair makes the function return 0."""
from ..model import resolve_addr, strip_casts, strip_int_casts, const_int, loaded_from
from ..core import AnalysisBroken
from ..expr import lin, Lin


def rule_R15(ctx, rep, config="c-lib"):
    rep.rule("R15", "check_cached_transition_set: the induction variable of its loop covers exactly [0, n_start_sits) of the set's distance vector (compared as linear "
                    "forms), the distance read is dists[i], and the function can return 0 from inside the loop and returns non-zero after it")
    p = ctx.prog(config)
    f = p.fn("check_cached_transition_set")
    rep.cover(p, [f.name])
    loops = f.loops()
    if len(loops) != 1:
        raise AnalysisBroken("check_cached_transition_set: expected one loop, found %d" % len(loops))
    L = loops[0]
    H = f.bmap[L["header"]]
    body = L["body"]
    # the loop-carried counter: a header phi with a constant step of +1 / -1
    cands = []
    for xi in H.insts:
        if xi.op != "phi":
            continue
        init = [iv for (iv, pb) in xi.d["incoming"] if pb not in body]
        step = [iv for (iv, pb) in xi.d["incoming"] if pb in body]
        if len(init) != 1 or not step:
            continue
        d = lin(f, step[0], 0, 0).add(lin(f, {"k": "i", "v": xi.id}, 0, 0), -1)
        if d.is_const() and d.c in (1, -1):
            cands.append((xi, lin(f, init[0], 0, 3), d.c))
    found = None
    for (xi, init, stepc) in cands:
        atom = list(lin(f, {"k": "i", "v": xi.id}, 0, 0).t.keys())[0]
        for tb in [H] + [f.bmap[x] for x in L["latches"]]:
            t = tb.term
            if t is None or t.op != "br" or len(t.ops) != 3:
                continue
            td, fd = t.ops[2]["v"], t.ops[1]["v"]
            if (td in body) == (fd in body):
                continue
            c = f.inst(t.ops[0])
            if c is None or c.op != "icmp":
                continue
            stay = td in body
            pred = c.d["pred"]
            if not stay:
                pred = {"slt": "sge", "sle": "sgt", "sgt": "sle", "sge": "slt"}.get(pred, pred)
            for (xo, yo, pr) in ((c.ops[0], c.ops[1], pred), (c.ops[1], c.ops[0], {"slt": "sgt", "sle": "sge", "sgt": "slt", "sge": "sle"}.get(pred, pred))):
                xl = lin(f, xo, 0, 0)
                if set(xl.t.keys()) != set([atom]) or xl.t[atom] != 1:
                    continue
                found = (xi, init, stepc, pr, lin(f, yo, 0, 3), xl.c, atom)
    if found is None:
        raise AnalysisBroken("check_cached_transition_set: loop shape not recognised")
    xi, init, stepc, pr, bound, c2, atom = found
    # the distance examined: dists[counter + c1]
    c1 = None
    for i in f.all_insts():
        if i.op == "load" and i.block.name in body:
            pa = resolve_addr(f, i.ops[0])
            if pa.steps and pa.steps[-1][0] in ("ptr", "idx"):
                lp = loaded_from(f, pa.root[1]) if pa.root[0] == "val" else None
                if lp is not None and lp.last_field() == "set.dists":
                    il = lin(f, pa.steps[-1][1], 0, 0)
                    if set(il.t.keys()) == set([atom]) and il.t[atom] == 1:
                        c1 = il.c
    if c1 is not None:
        rep.ok("R15", "check_cached_transition_set/reads-dists[i]")
    else:
        rep.violation("R15", "check_cached_transition_set/reads-dists[i]", "the distance examined is not dists[i] of the cached set", where=f.where())
        c1 = 0
    # the element count: load of set_core.n_start_sits
    natoms = [a for a in (init.atoms() + bound.atoms()) if a.endswith("set_core.n_start_sits]")]
    lo = hi = None
    # the counter takes the values init, init + step, ...; an iteration runs while (counter + c2) pr bound; it reads index counter + c1
    if stepc == -1:
        hi = init.add(Lin(c1))
        if pr == "sge" and bound.is_const():
            lo = bound.c - c2 + c1
        elif pr == "sgt" and bound.is_const():
            lo = bound.c + 1 - c2 + c1
    else:
        lo = init.c + c1 if init.is_const() else None
        if pr == "slt":
            hi = bound.add(Lin(-1 - c2 + c1))
        elif pr == "sle":
            hi = bound.add(Lin(-c2 + c1))
    ok = lo == 0 and hi is not None and len(natoms) == 1 and hi == Lin(-1, {natoms[0]: 1})
    if ok:
        rep.ok("R15", "check_cached_transition_set/covers-all-start-situations", sample={"first": repr(init.add(Lin(c1))), "step": stepc, "last": 0 if stepc == -1 else repr(hi)})
    else:
        rep.violation("R15", "check_cached_transition_set/covers-all-start-situations", "the cache validity test examines the start situations %s..%s of the cached set, not all of "
                      "[0, n_start_sits): a set built in another context can be reused (wrong acceptance, late or missing error report, lost ambiguity)" % (
                          lo if stepc == 1 else repr(hi), repr(hi) if stepc == 1 else lo), where=xi.where() if xi.d.get("loc") else f.where(), witness=[f.where()])
    # what is compared: the origin *sets* (elements of the parser list), not a part of them
    cmps = [i for i in f.all_insts() if i.op == "icmp" and i.block.name in body and i.d["pred"] in ("eq", "ne") and i.ty == "i1"
            and not any(const_int(o) is not None or o.get("k") == "null" for o in i.ops)]
    okc = None
    for c in cmps:
        kinds = []
        for o in c.ops:
            oi = f.inst(strip_casts(f, o))
            if oi is None or oi.op != "load":
                kinds.append("other")
                continue
            pa = resolve_addr(f, oi.ops[0])
            base = loaded_from(f, pa.root[1]) if pa.root[0] == "val" else None
            if base is not None and base.root == ("g", "pl") and not pa.fields():
                kinds.append("set")
            elif pa.last_field() and pa.last_field().startswith("set."):
                kinds.append("part:" + pa.last_field())
            else:
                kinds.append("other")
        if kinds == ["set", "set"]:
            okc = True
        elif all(k.startswith("part:") for k in kinds):
            okc = kinds
    if okc is True:
        rep.ok("R15", "check_cached_transition_set/compares-sets")
    elif okc:
        rep.violation("R15", "check_cached_transition_set/compares-sets", "the cache validity test compares only %s of the origin sets: sets with the same core but other distances are "
                      "taken for equal and a cached successor set is reused in the wrong context" % okc[0][5:], where=cmps[0].where(), witness=[cmps[0].where()])
    else:
        raise AnalysisBroken("check_cached_transition_set: the comparison of origin sets is not recognised")
    # a mismatch returns 0 from inside the loop; falling out of the loop returns non-zero
    from .r3 import returned_values
    rz = [(v, b) for (v, b, t) in returned_values(f) if const_int(v) == 0]
    rn = [(v, b) for (v, b, t) in returned_values(f) if const_int(v) not in (0, None)]
    if rz and rn and all(b in body or any(pb in body for pb in f.bmap[b].preds) for (_, b) in rz) and all(b not in body for (_, b) in rn):
        rep.ok("R15", "check_cached_transition_set/verdicts")
    else:
        rep.violation("R15", "check_cached_transition_set/verdicts", "the validity test does not answer `no' on a mismatch inside its loop and `yes' only after all pairs matched", where=f.where())


def rule_R15_exempt(ctx, rep, config="c-lib"):
    rep.rule("R15-exempt", "check_cached_transition_set compares the origin sets of all start situations except those with distance <= 1 (their origin sets -- the set "
                           "itself and its predecessor -- are the same by construction): every comparison of a distance read from the set with a constant exempts "
                           "distances up to 1 only (a larger bound lets a cached set through whose origin two tokens back differs: derivations are lost)")
    from ..model import strip_int_casts, const_int, resolve_addr, loaded_from
    p = ctx.prog(config)
    f = p.fn("check_cached_transition_set")
    rep.cover(p, [f.name])
    n = 0
    for c in f.all_insts():
        if c.op != "icmp":
            continue
        for (x, y) in ((0, 1), (1, 0)):
            k = const_int(c.ops[y])
            v = f.inst(strip_int_casts(f, c.ops[x]))
            if k is None or v is None or v.op != "load":
                continue
            pa = resolve_addr(f, v.ops[0])
            lp = loaded_from(f, pa.root[1]) if pa.root[0] == "val" else None
            if lp is None or lp.last_field() != "set.dists":
                continue
            n += 1
            pr = c.d["pred"]
            if x == 1:
                pr = {"slt": "sgt", "sgt": "slt", "sle": "sge", "sge": "sle"}.get(pr, pr)
            # the largest distance that is exempt:  d <= k -> k ; d < k -> k - 1 ; d > k (checked) -> k ; d >= k (checked) -> k - 1
            lim = {"sle": k, "slt": k - 1, "sgt": k, "sge": k - 1}.get(pr)
            key = "check_cached_transition_set/exempt-distances#%d" % n
            if lim is not None and lim <= 1:
                rep.ok("R15-exempt", key, sample={"test": c.where(), "exempt_up_to": lim})
            else:
                rep.violation("R15-exempt", key, "start situations with distance up to %s are exempt from the comparison of origin sets (only distances 0 and 1 have the same "
                              "origin by construction): a cached set is reused although the set it started from differs -- items are missing or spurious, all parses "
                              "lose translations, the verdict can depend on the lookahead level" % lim, where=c.where(), witness=[c.where()])
    rep.floor("R15-exempt", "comparisons of a distance with a constant in the validity test", n, 1)
