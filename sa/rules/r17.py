"""R17 -- an array of owned containers never shows a slot that is not created yet.

vlo_array_fin releases every element of vlo_array up to its length.  A new element is created by a
call that may fail (longjmp to the entry point's handler, which runs vlo_array_fin): at every such
call the length of the array must not have grown yet."""
from ..model import resolve_addr, strip_casts, const_int, loaded_from
from ..core import AnalysisBroken
from .. import expr

ARRAY = "vlo_array"


def _is_array(f, op):
    """operand denotes the array object itself: &vlo_array (C) or the value of the pointer vlo_array (C++)"""
    o = strip_casts(f, op)
    if o.get("k") == "g" and o.get("v") == ARRAY:
        return True
    lp = loaded_from(f, o)
    return lp is not None and lp.root == ("g", ARRAY) and not lp.steps


def _callee_effect(p, g):
    """effects of a member function on this->vlo_free: list of ('add', sign) | ('reset',) or None when it does not write it"""
    eff = []
    for s in g.all_insts():
        if s.op != "store":
            continue
        pa = resolve_addr(g, s.ops[1])
        if pa.root != ("a", 0) or not (pa.last_field() or "").endswith("vlo_free"):
            continue
        v = expr.lin(g, s.ops[0], 0, 1)
        free_atoms = [a for a in v.t if a.startswith("L[a0") and a.endswith("vlo_free]")]
        start_atoms = [a for a in v.t if a.startswith("L[a0") and a.endswith("vlo_start]")]
        if len(free_atoms) == 1 and v.t[free_atoms[0]] == 1 and set(v.t) - set(free_atoms) == set(["a1"]) and abs(v.t["a1"]) == 1 and v.c == 0:
            eff.append(("add", v.t["a1"]))
        elif len(start_atoms) == 1 and len(v.t) == 1 and v.c == 0:
            eff.append(("reset",))
        elif len(free_atoms) == 1 and len(start_atoms) == 1 and v.t[free_atoms[0]] == 1 and v.t[start_atoms[0]] == -1 and v.c == 0 and len(v.t) == 3:
            pass   # moved to a new block: new start + (free - start), the length is kept
        else:
            raise AnalysisBroken("R17: %s changes the length of its object in a form the rule does not know (%r)" % (g.name, v))
    return eff


def rule_R17(ctx, rep, config="c-lib", tag=""):
    rep.rule("R17", "vlo_array_expand: on every path, at every call that may fail (a longjmp caller is reachable from it) the length of vlo_array is not larger than at "
                    "function entry -- the slot becomes visible to vlo_array_fin only after the container in it was created (lengths followed as constant deltas of "
                    "vlo_free through the inlined macros in C and through summaries of vlo::expand / vlo::shorten in C++)")
    p = ctx.prog(config)
    f = p.fn("vlo_array_expand")
    rep.cover(p, [f.name])
    if f.loops():
        raise AnalysisBroken("R17: vlo_array_expand has a loop")
    summaries = {}
    n_throw = 0
    n_len = 0
    bad = []
    # enumerate paths
    stack = [(f.entry.name, 0, [])]
    npaths = 0
    while stack:
        bn, delta, trail = stack.pop()
        b = f.bmap[bn]
        outs = [delta]   # a block may fork the state only through callee summaries with two effects
        for i in b.insts:
            nxt = []
            for d in outs:
                if i.op == "store":
                    pa = resolve_addr(f, i.ops[1])
                    if pa.root == ("g", ARRAY) and (pa.last_field() or "").endswith("vlo_free"):
                        n_len += 1
                        # `cond ? a : b' / a merged value: every alternative separately
                        alts = [i.ops[0]]
                        vi_ = f.inst(strip_casts(f, i.ops[0]))
                        if vi_ is not None and vi_.op == "phi":
                            alts = [v_ for (v_, _) in vi_.d["incoming"] if v_.get("k") != "undef"]
                        elif vi_ is not None and vi_.op == "select":
                            alts = [vi_.ops[1], vi_.ops[2]]
                        for a_ in alts:
                            v = expr.lin(f, a_, 0, 1)
                            fa = [a for a in v.t if a.endswith("vlo_free]") and a.startswith("L[@" + ARRAY)]
                            sa_ = [a for a in v.t if a.endswith("vlo_start]") and a.startswith("L[@" + ARRAY)]
                            if len(fa) == 1 and len(v.t) == 1 and v.t[fa[0]] == 1:
                                nxt.append(d + v.c)
                            elif len(sa_) == 1 and len(v.t) == 1 and v.c == 0:
                                nxt.append(min(d, 0))   # emptied: not longer than at entry
                            else:
                                raise AnalysisBroken("R17: store to the length of vlo_array of a form the rule does not know (%r) at %s" % (v, i.where()))
                        continue
                    nxt.append(d)
                elif i.is_call():
                    targets = [t for t in p.call_targets(f, i)]
                    throws = p.call_may_throw(f, i)
                    if throws:
                        n_throw += 1
                        if d > 0:
                            bad.append((i, d, trail + [bn]))
                    effs = None
                    if i.args and _is_array(f, i.args[0]):
                        for t in targets:
                            g = p.m.functions.get(t)
                            if g is None or g.decl:
                                continue
                            if t not in summaries:
                                summaries[t] = _callee_effect(p, g)
                            if summaries[t]:
                                effs = summaries[t]
                    if effs:
                        n_len += 1
                        a1 = const_int(i.args[1]) if len(i.args) > 1 else None
                        for e in effs:
                            if e[0] == "reset":
                                nxt.append(min(d, 0))
                            elif a1 is None:
                                raise AnalysisBroken("R17: length change by a non-constant amount at %s" % i.where())
                            else:
                                nxt.append(d + e[1] * a1)
                    else:
                        nxt.append(d)
                else:
                    nxt.append(d)
            outs = sorted(set(nxt))
        if not b.succs:
            npaths += len(outs)
        for s_ in b.succs:
            for d in outs:
                stack.append((s_, d, trail + [bn]))
    seen = set()
    for (i, d, trail) in bad:
        if i.id in seen:
            continue
        seen.add(i.id)
        rep.violation("R17", tag + "vlo_array_expand/slot-visible-before-created", "vlo_array is already %d bytes longer when %s is called, which may fail: the error exit runs "
                      "vlo_array_fin over a slot that holds no container yet (release of an uninitialised object)" % (d, i.callee or "a function pointer"),
                      where=i.where(), witness=[i.where()])
    if not bad:
        rep.ok("R17", tag + "vlo_array_expand/slot-visible-before-created", sample={"paths": npaths, "failing_calls_examined": n_throw, "length_changes": n_len})
    rep.floor("R17", "calls that may fail in vlo_array_expand", n_throw, 2)
    rep.floor("R17", "length changes of vlo_array followed", n_len, 3)


def rule_R17_cxx(ctx, rep, config="cxx-lib"):
    """the C++ branch of vlo_array_expand (class vlo instead of the macros)"""
    rule_R17(ctx, rep, config="cxx-lib", tag="[c++] ")
