"""R17 -- an array of owned containers never shows a slot that is not created yet.

vlo_array_fin releases every element of vlo_array up to its length.  A new element is created by a
call that may fail (longjmp to the entry point's handler, which runs vlo_array_fin): at every such
call the length of the array must not have grown yet."""
from ..model import resolve_addr, strip_casts, const_int, loaded_from
from ..core import AnalysisBroken
from .. import expr

# (function that appends elements, the array global, the function that releases every element up to the length)
ARRAYS = [("vlo_array_expand", "vlo_array", "vlo_array_fin"), ("sit_dist_insert", "sit_dist_vec_vlo", "sit_dist_set_fin")]


def _is_array(f, op, array):
    """operand denotes the array object itself: &array (C) or the value of the pointer array (C++)"""
    o = strip_casts(f, op)
    if o.get("k") == "g" and o.get("v") == array:
        return True
    lp = loaded_from(f, o)
    return lp is not None and lp.root == ("g", array) and not lp.steps


def _callee_effect(p, g):
    """effects of a member function on this->vlo_free: list of ('add', sign) | ('reset',) or None when it does not write it"""
    eff = []
    for s in g.all_insts():
        if s.op != "store":
            continue
        pa = resolve_addr(g, s.ops[1])
        if pa.root != ("a", 0) or not (pa.last_field() or "").endswith("vlo_free"):
            continue
        vi0 = g.inst(strip_casts(g, s.ops[0]))
        if vi0 is not None and vi0.op in ("phi", "select"):
            # `free = cond ? start : free - n': each alternative is an effect of its own
            alts_ = [x for (x, _) in vi0.d["incoming"]] if vi0.op == "phi" else [vi0.ops[1], vi0.ops[2]]
        else:
            alts_ = [s.ops[0]]
        for alt_ in alts_:
            _one_effect(g, alt_, eff)
    return eff


def _one_effect(g, op, eff):
    if True:
        v = expr.lin(g, op, 0, 1)
        free_atoms = [a for a in v.t if a.startswith("L[a0") and a.endswith("vlo_free]")]
        start_atoms = [a for a in v.t if a.startswith("L[a0") and a.endswith("vlo_start]")]
        if len(free_atoms) == 1 and v.t[free_atoms[0]] == 1 and set(v.t) - set(free_atoms) == set(["a1"]) and abs(v.t["a1"]) == 1 and v.c == 0:
            eff.append(("add", v.t["a1"]))
        elif len(start_atoms) == 1 and len(v.t) == 1 and v.c == 0:
            eff.append(("reset",))
        elif len(free_atoms) == 1 and len(start_atoms) == 1 and v.t[free_atoms[0]] == 1 and v.t[start_atoms[0]] == -1 and v.c == 0 and len(v.t) == 3:
            pass   # moved to a new block: new start + (free - start), the length is kept
        else:
            raise AnalysisBroken("R17: %s changes the length of its object in a form the rule does not know (%r)" % (g.name, v))


def rule_R17(ctx, rep, config="c-lib", tag=""):
    rep.rule("R17", "arrays of owned containers (vlo_array in vlo_array_expand, sit_dist_vec_vlo in sit_dist_insert; their _fin functions release every element up to "
                    "the length): on every path, at every call that may fail (a longjmp caller is reachable from it) the length of the array is not larger than at "
                    "function entry / at the start of the loop iteration -- a slot becomes visible to the _fin function only after the container in it was created "
                    "(lengths followed as linear deltas of vlo_free through the inlined macros in C and through summaries of vlo::expand / vlo::shorten in C++; "
                    "loops are followed for one iteration, every iteration adding created elements only)")
    p = ctx.prog(config)
    for (fname, array, fin) in ARRAYS:
        _check(p, rep, tag, fname, array)


def _check(p, rep, tag, fname, array):
    f = p.fn(fname)
    rep.cover(p, [f.name])
    back = set()
    for L in f.loops():
        for bn in L["body"]:
            if L["header"] in f.bmap[bn].succs:
                back.add((bn, L["header"]))
    summaries = {}
    n_throw = 0
    n_len = 0
    bad = []
    unknown = []
    zero = expr.Lin(0)
    # enumerate paths (a back edge ends a path)
    stack = [(f.entry.name, zero, [])]
    npaths = 0
    visited = set()
    while stack:
        bn, delta, trail = stack.pop()
        if (bn, delta.key()) in visited:
            continue
        visited.add((bn, delta.key()))
        b = f.bmap[bn]
        outs = [delta]   # a block may fork the state only through callee summaries with two effects
        for i in b.insts:
            nxt = []
            for d in outs:
                if i.op == "store":
                    pa = resolve_addr(f, i.ops[1])
                    if pa.root == ("g", array) and (pa.last_field() or "").endswith("vlo_free"):
                        n_len += 1
                        # `cond ? a : b' / a merged value: every alternative separately
                        alts = [i.ops[0]]
                        vi_ = f.inst(strip_casts(f, i.ops[0]))
                        if vi_ is not None and vi_.op == "phi":
                            alts = [v_ for (v_, _) in vi_.d["incoming"] if v_.get("k") != "undef"]
                        elif vi_ is not None and vi_.op == "select":
                            alts = [vi_.ops[1], vi_.ops[2]]
                        for a_ in alts:
                            v = expr.lin(f, a_, 0, 1)
                            fa = [a for a in v.t if a.endswith("vlo_free]") and a.startswith("L[@" + array)]
                            sa_ = [a for a in v.t if a.endswith("vlo_start]") and a.startswith("L[@" + array)]
                            if len(fa) == 1 and v.t[fa[0]] == 1 and not sa_:
                                nxt.append(d.add(v).add(expr.Lin(0, {fa[0]: 1}), -1))
                            elif len(sa_) == 1 and len(v.t) == 1 and v.c == 0:
                                nxt.append(d if (d.is_const() and d.c <= 0) else zero)   # emptied: not longer than at entry
                            else:
                                raise AnalysisBroken("R17: store to the length of %s of a form the rule does not know (%r) at %s" % (array, v, i.where()))
                        continue
                    nxt.append(d)
                elif i.is_call():
                    targets = [t for t in p.call_targets(f, i)]
                    throws = p.call_may_throw(f, i)
                    if throws:
                        n_throw += 1
                        if not d.is_const():
                            unknown.append((i, d))
                        elif d.c > 0:
                            bad.append((i, d.c, trail + [bn]))
                    effs = None
                    if i.args and _is_array(f, i.args[0], array):
                        for t in targets:
                            g = p.m.functions.get(t)
                            if g is None or g.decl:
                                continue
                            if t not in summaries:
                                summaries[t] = _callee_effect(p, g)
                            if summaries[t]:
                                effs = summaries[t]
                    if effs:
                        n_len += 1
                        a1 = expr.lin(f, i.args[1], 0, 1) if len(i.args) > 1 else None
                        for e in effs:
                            if e[0] == "reset":
                                nxt.append(d if (d.is_const() and d.c <= 0) else zero)
                            elif a1 is None:
                                raise AnalysisBroken("R17: length change without an amount at %s" % i.where())
                            else:
                                nxt.append(d.add(a1, e[1]))
                    else:
                        nxt.append(d)
                else:
                    nxt.append(d)
            outs = list(dict((x.key(), x) for x in nxt).values())
        if not b.succs:
            npaths += len(outs)
        for s_ in b.succs:
            if (bn, s_) in back:
                npaths += len(outs)
                continue
            for d in outs:
                stack.append((s_, d, trail + [bn]))
    if unknown:
        raise AnalysisBroken("R17: the length of %s differs from its entry value by a non-constant amount (%r) at the call at %s, which may fail" % (
            array, unknown[0][1], unknown[0][0].where()))
    seen = set()
    key = tag + fname + "/slot-visible-before-created"
    for (i, d, trail) in bad:
        if i.id in seen:
            continue
        seen.add(i.id)
        rep.violation("R17", key, "%s is already %d bytes longer when %s is called, which may fail: the error exit releases every element up to the length, "
                      "among them a slot that holds no container yet (release of an uninitialised object)" % (array, d, i.callee or "a function pointer"),
                      where=i.where(), witness=[i.where()])
    if not bad:
        rep.ok("R17", key, sample={"paths": npaths, "failing_calls_examined": n_throw, "length_changes": n_len})
    rep.floor("R17", "calls that may fail in " + fname, n_throw, 2)
    rep.floor("R17", "length changes of %s followed" % array, n_len, 3)


def rule_R17_cxx(ctx, rep, config="cxx-lib"):
    """the C++ branches (class vlo instead of the macros)"""
    rule_R17(ctx, rep, config="cxx-lib", tag="[c++] ")
