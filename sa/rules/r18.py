"""R18 -- the memory-management operations of the containers keep the length of the object.

VLO_TAILOR, _VLO_expand_memory and _OS_expand_memory may move the (top) object; the bytes appended
so far stay what they were, so  free - start  at return equals  free - start  at entry.

Forward dataflow over the function's CFG (loop-free functions only) with a small relational
domain: the current values of `start' and `free' as linear forms over the entry values S0, F0 and
opaque SSA values, and separately the difference  len = free - start, which survives a merge
of a `moved' and a `not moved' branch although start and free themselves do not."""
from ..model import resolve_addr, strip_casts, const_int
from ..core import AnalysisBroken
from ..expr import Lin, lin
from .r19 import _mods

TOP = None
_nest = [0]

# (source name of the function, start field, free field, what)
CONTRACTS = [
    ("_VLO_tailor_function", "vlo_start", "vlo_free", "VLO_TAILOR"),
    ("tailor", "vlo_start", "vlo_free", "vlo::tailor"),
    ("_VLO_expand_memory", "vlo_start", "vlo_free", "growth of a variable length object"),
    ("_OS_expand_memory", "os_top_object_start", "os_top_object_free", "move of the top object to a new segment"),
]


class St(object):
    __slots__ = ("start", "free", "len")

    def __init__(self, start, free, ln):
        self.start, self.free, self.len = start, free, ln

    def copy(self):
        return St(self.start, self.free, self.len)

    def key(self):
        return (self.start and self.start.key(), self.free and self.free.key(), self.len and self.len.key())


def _join(a, b):
    if a is None:
        return b.copy()
    return St(a.start if (a.start is not None and b.start is not None and a.start == b.start) else TOP,
              a.free if (a.free is not None and b.free is not None and a.free == b.free) else TOP,
              a.len if (a.len is not None and b.len is not None and a.len == b.len) else TOP)


def _analyse(prog, f, fstart, ffree):
    """returns (state at return, notes) or raises AnalysisBroken"""
    if f.loops():
        raise AnalysisBroken("R18: %s has a loop" % f.name)
    order = f.rpo() if hasattr(f, "rpo") else None
    if order is None:
        # reverse post-order
        seen, post = set(), []

        def dfs(n):
            seen.add(n)
            for s in f.bmap[n].succs:
                if s not in seen:
                    dfs(s)
            post.append(n)
        dfs(f.entry.name)
        order = list(reversed(post))
    out = {}
    vals = {}
    edge_state = {}

    def field_of(op):
        pa = resolve_addr(f, op)
        if pa.root == ("a", 0) and pa.steps and all(s[0] == "f" for s in pa.steps):
            lf = (pa.last_field() or "").split(".")[-1]
            if lf == fstart:
                return "start"
            if lf == ffree:
                return "free"
        return None

    def aval(op, st, blk):
        c = const_int(op)
        if c is not None:
            return Lin(c)
        k = op.get("k")
        if k == "null":
            return Lin(0)
        if k == "a":
            return Lin(0, {"a%d" % op["v"]: 1})
        if k == "i":
            return vals.get(op["v"], Lin(0, {"v#%d" % op["v"]: 1}))
        return Lin(0, {"?%s" % k: 1})

    ret_state = None
    for bn in order:
        b = f.bmap[bn]
        st = None
        preds = [p_ for p_ in b.preds if (p_, bn) in edge_state]
        if bn == f.entry.name:
            st = St(Lin(0, {"S0": 1}), Lin(0, {"F0": 1}), Lin(0, {"F0": 1, "S0": -1}))
        else:
            for p_ in preds:
                st = _join(st, edge_state[(p_, bn)])
        if st is None:
            continue
        # a field whose value is unknown after a merge gets a name of its own, so that updates relative to it stay exact
        if st.start is TOP:
            st.start = Lin(0, {"start@%s" % bn: 1})
        if st.free is TOP:
            st.free = Lin(0, {"free@%s" % bn: 1})
        for i in b.insts:
            if i.op == "phi":
                vs = []
                for (v, pb) in i.d["incoming"]:
                    if (pb, bn) in edge_state:
                        vs.append(aval(v, None, pb))
                if vs and all(x == vs[0] for x in vs):
                    vals[i.id] = vs[0]
                else:
                    vals[i.id] = Lin(0, {"one-of{%s}" % " | ".join(sorted(set(repr(x) for x in vs))): 1})
            elif i.op == "load":
                fl = field_of(i.ops[0])
                if fl == "start":
                    vals[i.id] = st.start
                elif fl == "free":
                    vals[i.id] = st.free
                else:
                    vals[i.id] = Lin(0, {"L#%d" % i.id: 1})
            elif i.op in ("sext", "zext", "trunc", "bitcast", "ptrtoint", "inttoptr"):
                vals[i.id] = aval(i.ops[0], st, bn)
            elif i.op == "add":
                vals[i.id] = aval(i.ops[0], st, bn).add(aval(i.ops[1], st, bn))
            elif i.op == "sub":
                vals[i.id] = aval(i.ops[0], st, bn).add(aval(i.ops[1], st, bn), -1)
            elif i.op == "getelementptr":
                base = aval(i.d["base"], st, bn)
                okp = True
                for s_ in i.d["path"]:
                    if "ptr" in s_:
                        base = base.add(aval(s_["ptr"], st, bn).scale(s_.get("eltsize", 1) or 1))
                    else:
                        okp = False
                vals[i.id] = base if okp else Lin(0, {"gep#%d" % i.id: 1})
            elif i.op == "store":
                fl = field_of(i.ops[1])
                if fl is None:
                    continue
                nv = aval(i.ops[0], st, bn)
                if fl == "free":
                    if st.len is not None:
                        st.len = st.len.add(nv).add(st.free, -1)
                    st.free = nv
                else:
                    if st.len is not None:
                        st.len = st.len.add(nv, -1).add(st.start)
                    st.start = nv
            elif i.is_call():
                # a callee that gets the object may change it
                vals[i.id] = Lin(0, {"call#%d" % i.id: 1})
                if any(strip_casts(f, a) == {"k": "a", "v": 0} for a in i.args) and not (i.callee or "").startswith("llvm.dbg"):
                    g = f.model.functions.get(i.callee) if i.callee else None
                    if g is not None and not g.decl and _mods(prog, {}, g) and g.name != f.name and _nest[0] < 3:
                        # a helper that works on the object: its own effect on the length (analysed the same way)
                        _nest[0] += 1
                        try:
                            sub = _analyse(prog, g, fstart, ffree)
                        finally:
                            _nest[0] -= 1
                        kept = sub is not None and sub.len is not None and sub.len == Lin(0, {"F0": 1, "S0": -1})
                        st.start = Lin(0, {"start@call#%d" % i.id: 1})
                        st.free = Lin(0, {"free@call#%d" % i.id: 1})
                        if not kept:
                            st.len = TOP
                        continue
                    if g is None or g.decl or _mods(prog, {}, g):
                        raise AnalysisBroken("R18: %s passes its object on to %s, which may change it" % (f.name, i.callee))
                    # a getter: its result in terms of the current fields
                    rb = g.ret_blocks()
                    if len(rb) == 1 and rb[0].term.ops:
                        gl = lin(g, rb[0].term.ops[0], 0, 1)
                        r = Lin(gl.c)
                        for a, k in gl.t.items():
                            if a.startswith("L[a0") and a.endswith(ffree + "]"):
                                r = r.add(st.free, k)
                            elif a.startswith("L[a0") and a.endswith(fstart + "]"):
                                r = r.add(st.start, k)
                            else:
                                r = r.add(Lin(0, {"%s@call#%d" % (a, i.id): 1}), k)
                        vals[i.id] = r
            elif i.op == "ret":
                ret_state = _join(ret_state, st)
        for s_ in b.succs:
            edge_state[(bn, s_)] = st.copy()
    return ret_state


def rule_R18(ctx, rep, config="c-lib", tag=""):
    rep.rule("R18", "VLO_TAILOR, _VLO_expand_memory and _OS_expand_memory (C and C++) return with  free - start  equal to its value at entry: forward dataflow with the "
                    "values of start, free and their difference as linear forms over the entry values (the difference is joined separately, so `moved' and `not moved' "
                    "branches merge exactly)")
    p = ctx.prog(config)
    n = 0
    for (src, fstart, ffree, what) in CONTRACTS:
        fs = [f for f in p.m.defined() if (f.name == src or f.d.get("srcname") == src) and f.module and f.module.startswith(("vlobject.", "objstack."))]
        fs = [f for f in fs if ffree in _mods(p, {}, f) or "*" in _mods(p, {}, f)]
        for f in fs:
            n += 1
            rep.cover(p, [f.name])
            key = tag + "%s/length-kept" % f.name
            st = _analyse(p, f, fstart, ffree)
            if st is None:
                raise AnalysisBroken("R18: %s does not return" % f.name)
            want = Lin(0, {"F0": 1, "S0": -1})
            if st.len is not None and st.len == want:
                rep.ok("R18", key, sample={"function": f.name, "operation": what, "free_minus_start_at_return": repr(st.len)})
            else:
                rep.violation("R18", key, "%s (%s) returns with  free - start = %s,  not the F0 - S0 of its entry: the object does not hold exactly the bytes appended so far "
                              "(a byte appears or disappears when the object is moved or trimmed)" % (f.name, what, "unknown (differs between paths)" if st.len is None else repr(st.len)),
                              where=f.where(), witness=[s.where() for s in f.all_insts() if s.op == "store" and (resolve_addr(f, s.ops[1]).last_field() or "").split(".")[-1] in (fstart, ffree)][:6])
    rep.floor("R18", tag + "length-keeping operations", n, 3)


def rule_R18_cxx(ctx, rep, config="cxx-lib"):
    rule_R18(ctx, rep, config="cxx-lib", tag="[c++] ")
