"""C11 -- structural clauses of the description front end (sgramm.y)."""
from ..model import resolve_addr, strip_casts, strip_int_casts, const_int, loaded_from
from ..core import AnalysisBroken
from ..expr import lin, Lin
from .. import expr


def rule_implicit_codes(ctx, rep, config="c-lib"):
    rep.rule("C11-codes", "implicit terminal codes: the value stored into a declared terminal's code when it has none is a counter whose only reaching definitions are the "
                          "constant 256 and its own increment by 1, and the store is controlled by `code < 0'; a character constant gets the code of its character")
    p = ctx.prog(config)
    f = p.fn("set_sgrammar")
    rep.cover(p, ["set_sgrammar", "yaep_yyparse"])
    sts = [s for s in f.all_insts() if s.op == "store" and resolve_addr(f, s.ops[1]).last_field() == "sterm.code"
           and resolve_addr(f, s.ops[1]).root[0] != "alloca"]
    # the assignment of a fresh code: the stored value is not a load of another sterm.code
    fresh = []
    for s in sts:
        lp = loaded_from(f, s.ops[0])
        if lp is not None and lp.last_field() == "sterm.code":
            continue
        fresh.append(s)
    if len(fresh) != 1:
        raise AnalysisBroken("set_sgrammar: expected one store of a fresh implicit code, found %d" % len(fresh))
    s = fresh[0]
    # definition closure through phis
    leaves = []
    members = set()
    work = [strip_int_casts(f, s.ops[0])]
    while work:
        o = work.pop()
        i = f.inst(o)
        if i is not None and i.op == "phi":
            if i.id in members:
                continue
            members.add(i.id)
            for (iv, pb) in i.d["incoming"]:
                if f.reachable(pb):
                    work.append(strip_int_casts(f, iv))
        else:
            leaves.append(o)
    bad = []
    consts = set()
    for o in leaves:
        c = const_int(o)
        if c is not None:
            consts.add(c)
            continue
        i = f.inst(o)
        if i is not None and i.op == "add" and const_int(i.ops[1]) == 1 and i.ops[0].get("k") == "i" and i.ops[0]["v"] in members:
            continue
        if i is not None and i.op == "add" and const_int(i.ops[0]) == 1 and i.ops[1].get("k") == "i" and i.ops[1]["v"] in members:
            continue
        bad.append(o)
    if bad or consts != {256}:
        what = "the counter for implicit terminal codes can start from / be set to something else than 256"
        if bad:
            bi = f.inst(bad[0])
            what += ": a reaching definition is %s" % ("the result of %s" % (bi.callee or bi.op) if bi is not None else str(bad[0]))
        elif consts:
            what += ": constants %s" % sorted(consts)
        rep.violation("C11-codes", "set_sgrammar/implicit-code-counter", what + " (documented: distinct free codes from 256 upwards in order of appearance)", where=s.where(), witness=[s.where()])
    else:
        rep.ok("C11-codes", "set_sgrammar/implicit-code-counter", sample={"store": s.where(), "initial": 256, "step": 1})
    # free: the counter is compared with the codes that were given explicitly (a code taken by a declaration `= n' is not handed out a second time)
    cmp_ = None
    for c in f.all_insts():
        if c.op != "icmp" or c.d["pred"] not in ("eq", "ne"):
            continue
        for (x, y) in ((0, 1), (1, 0)):
            lp = loaded_from(f, c.ops[x])
            o = strip_int_casts(f, c.ops[y])
            if lp is not None and lp.last_field() == "sterm.code" and o.get("k") == "i" and o["v"] in members:
                cmp_ = c
    if cmp_ is not None:
        rep.ok("C11-codes", "set_sgrammar/implicit-code-free", sample={"compared_at": cmp_.where()})
    else:
        rep.violation("C11-codes", "set_sgrammar/implicit-code-free", "the counter for implicit codes is never compared with the codes of the declared terminals: a code given "
                      "explicitly (`TERM a = 256 b') is handed out a second time and the well-formed description is refused with YAEP_REPEATED_TERM_CODE "
                      "(documented: the next FREE code starting with 256)", where=s.where(), witness=[s.where()])
    from .r5 import _controlling_conditions
    conds = _controlling_conditions(f, s.block.name)
    okc = False
    for (c, pol) in conds:
        lp = loaded_from(f, c.ops[0])
        if lp is not None and lp.last_field() == "sterm.code" and const_int(c.ops[1]) is not None:
            pr, k = c.d["pred"], const_int(c.ops[1])
            if not pol:
                pr = {"slt": "sge", "sge": "slt", "sle": "sgt", "sgt": "sle"}.get(pr, pr)
            if (pr, k) in (("slt", 0), ("sle", -1)):
                okc = True
    if okc:
        rep.ok("C11-codes", "set_sgrammar/implicit-code-condition")
    else:
        rep.violation("C11-codes", "set_sgrammar/implicit-code-condition", "an implicit code is assigned under another condition than `the terminal has no explicit code (code < 0)'", where=s.where())
    # character constants
    yp = p.fn("yaep_yyparse")
    cs = [x for x in yp.all_insts() if x.op == "store" and resolve_addr(yp, x.ops[1]).last_field() == "sterm.code"]
    okk = 0
    for x in cs:
        v = yp.inst(strip_int_casts(yp, x.ops[0]))
        if v is not None and v.op == "load" and v.ty == "i8":
            pa = resolve_addr(yp, v.ops[0])
            if pa.steps and pa.steps[-1][0] in ("ptr", "idx") and const_int(pa.steps[-1][1]) == 1:
                okk += 1
    def _second_char(op):
        v = yp.inst(strip_int_casts(yp, op))
        if v is not None and v.op == "load" and v.ty == "i8":
            pa = resolve_addr(yp, v.ops[0])
            return bool(pa.steps and pa.steps[-1][0] in ("ptr", "idx") and const_int(pa.steps[-1][1]) == 1)
        return False
    # or handed to a helper of this file that stores its parameter into the code member
    for c_ in yp.calls():
        h = p.m.functions.get(c_.callee) if c_.callee else None
        if h is None or h.decl or h.module != yp.module:
            continue
        for k_, a_ in enumerate(c_.args):
            if _second_char(a_) and any(x.op == "store" and resolve_addr(h, x.ops[1]).last_field() == "sterm.code" and strip_int_casts(h, x.ops[0]) == {"k": "a", "v": k_}
                                        for x in h.all_insts()):
                okk += 1
    if okk >= 1:
        rep.ok("C11-codes", "yyparse/char-constant-code", sample={"stores": okk})
    else:
        rep.violation("C11-codes", "yyparse/char-constant-code", "a character constant terminal does not get the code of its character (repr[1])", where=yp.where())


def rule_costs_and_replay(ctx, rep, config="c-lib"):
    rep.rule("C11-actions", "bison actions and replay callbacks: the default cost stored is the constant 1 and any other value comes from a NUMBER token; yyerror raises "
                            "YAEP_DESCRIPTION_SYNTAX_ERROR_CODE with the current line; sread_terminal / sread_rule hand out exactly the recorded fields; "
                            "yaep_parse_grammar releases the intermediate form on every path after it was built")
    p = ctx.prog(config)
    mac = ctx.ws.macros()
    yp = p.fn("yaep_yyparse")
    sts = [s for s in yp.all_insts() if s.op == "store" and resolve_addr(yp, s.ops[1]).root == ("g", "anode_cost")]
    cs = sorted(set(const_int(s.ops[0]) for s in sts if const_int(s.ops[0]) is not None))
    noncs = [s for s in sts if const_int(s.ops[0]) is None]
    form_b = (cs == [] and len(noncs) >= 1)    # the cost travels as the value of its nonterminal; judged below with the bison tables
    ok = form_b or (cs == [1] and all(yp.inst(strip_int_casts(yp, s.ops[0])) is not None and yp.inst(strip_int_casts(yp, s.ops[0])).op == "load" for s in noncs) and len(noncs) >= 1)
    if ok:
        rep.ok("C11-actions", "yyparse/anode_cost", sample={"default": 1, "explicit_from_token": len(noncs)})
    else:
        rep.violation("C11-actions", "yyparse/anode_cost", "the abstract node cost is assigned constants %s (documented default cost: 1; otherwise the NUMBER given)" % cs,
                      where=sts[0].where() if sts else yp.where())
    # both assignments are the two alternatives of ONE nonterminal of the description grammar (the default in
    # its empty alternative): read off the bison tables yyr1 (lhs of rule) / yyr2 (length of rule)
    def table(name):
        for gn, gd in p.m.globals.items():
            if (gn == name or gn.startswith(name + "@")) and "str" in gd:
                return [ord(ch) for ch in gd["str"]]
        return None
    yyr1, yyr2 = table("yyr1"), table("yyr2")
    sw = [i for i in yp.all_insts() if i.op == "switch" and len(i.d["cases"]) > 10]
    if yyr1 is None or yyr2 is None or len(sw) != 1:
        raise AnalysisBroken("bison tables yyr1/yyr2 or the action switch of yyparse not found")
    case_of = {}
    for (v, bname) in sw[0].d["cases"]:
        case_of.setdefault(bname, []).append(v)

    def rule_no(st):
        b = st.block.name
        seen = set()
        while b is not None and b not in case_of and b not in seen:
            seen.add(b)
            preds = [x for x in yp.bmap[b].preds if yp.reachable(x)]
            b = preds[0] if len(preds) == 1 else None
        return case_of.get(b, [None])[0] if b else None
    if form_b:
        # every alternative of the translation nonterminal that has the cost in its right-hand side ('#' IDENT cost ...: three symbols or more) takes it over
        rs = [rule_no(s) for s in noncs]
        lhs = set(yyr1[r] for r in rs if r is not None and r < len(yyr1))
        if None in rs or len(lhs) != 1:
            raise AnalysisBroken("C11-actions: the actions that assign anode_cost are not alternatives of one nonterminal (rules %s)" % rs)
        need = [r for r in range(len(yyr1)) if yyr1[r] == list(lhs)[0] and yyr2[r] >= 3]
        missing = [r for r in need if r not in rs]
        # the default: an empty alternative whose value is the constant 1, with a one-token sibling
        yv = [s_ for s_ in yp.all_insts() if s_.op == "store" and resolve_addr(yp, s_.ops[1]).root[0] == "alloca"
              and (yp.insts[resolve_addr(yp, s_.ops[1]).root[1]].d.get("var") or "").endswith("yyval")]
        dflt = [rule_no(s_) for s_ in yv if const_int(s_.ops[0]) == 1]
        dflt = [r for r in dflt if r is not None and yyr2[r] == 0 and any(yyr1[q] == yyr1[r] and yyr2[q] == 1 for q in range(len(yyr1)))]
        if missing:
            rep.violation("C11-actions", "yyparse/cost-alternatives", "the cost of an abstract node is taken over by the actions of rules %s but not by the sibling "
                          "alternative(s) %s of the same nonterminal: `# name cost' written that way keeps the cost of the abstract node read before" % (sorted(rs), missing),
                          where=noncs[0].where())
        elif not dflt:
            rep.violation("C11-actions", "yyparse/cost-alternatives", "no empty alternative yields the default cost 1", where=noncs[0].where())
        else:
            rep.ok("C11-actions", "yyparse/cost-alternatives", sample={"taken_over_in_rules": sorted(rs), "default_rule": dflt[0]})
    c1 = [rule_no(s) for s in sts if const_int(s.ops[0]) == 1]
    c2 = [rule_no(s) for s in noncs]
    okalt = form_b or len(c1) == 1 and len(c2) == 1 and None not in (c1[0], c2[0]) and c1[0] < len(yyr1) and c2[0] < len(yyr1) and \
        yyr1[c1[0]] == yyr1[c2[0]] and yyr2[c1[0]] == 0 and yyr2[c2[0]] == 1
    if form_b:
        pass
    elif okalt:
        rep.ok("C11-actions", "yyparse/cost-alternatives", sample={"default_rule": c1[0], "explicit_rule": c2[0], "lhs_symbol": yyr1[c1[0]]})
    else:
        rep.violation("C11-actions", "yyparse/cost-alternatives", "the default cost 1 and the explicit cost are not assigned by the empty and the NUMBER alternative of one "
                      "nonterminal: a translation without a cost does not reliably get cost 1 (rules %s / %s)" % (c1, c2), where=sts[0].where() if sts else yp.where())
    ye = p.fn("yaep_yyerror")
    calls = [i for i in ye.calls() if i.callee == "yaep_error"]
    ok = len(calls) == 1 and const_int(calls[0].args[0]) == mac["YAEP_DESCRIPTION_SYNTAX_ERROR_CODE"]
    if ok:
        lp = loaded_from(ye, calls[0].args[2]) if len(calls[0].args) > 2 else None
        from .lexer import lexer_globals
        ok = lp is not None and lp.root == ("g", lexer_globals(p)[1])
    if ok:
        rep.ok("C11-actions", "yyerror/code-and-line")
    else:
        rep.violation("C11-actions", "yyerror/code-and-line", "yyerror does not raise YAEP_DESCRIPTION_SYNTAX_ERROR_CODE with the current line number", where=ye.where())
    # replay callbacks
    for fn, table in (("sread_rule", {"rhs": "srule.rhs", "abs_node": "srule.anode", "anode_cost": "srule.anode_cost", "transl": "srule.trans"}),
                      ("sread_terminal", {"code": "sterm.code"})):
        f = p.fn(fn)
        for k, a in enumerate(f.args):
            if a["name"] not in table:
                continue
            key = "%s/*%s" % (fn, a["name"])
            sts = [s for s in f.all_insts() if s.op == "store" and resolve_addr(f, s.ops[1]).root == ("a", k) and not resolve_addr(f, s.ops[1]).steps]
            good = [s for s in sts if loaded_from(f, s.ops[0]) is not None and loaded_from(f, s.ops[0]).last_field() == table[a["name"]]]
            if sts and len(good) == len(sts):
                rep.ok("C11-actions", key, sample={"out_parameter": a["name"], "field": table[a["name"]]})
            else:
                rep.violation("C11-actions", key, "%s hands out something else than the recorded `%s' through *%s" % (fn, table[a["name"]], a["name"]), where=f.where())
    # yaep_parse_grammar
    f = p.fn("yaep_parse_grammar")
    rg = [i for i in f.calls() if i.callee == "yaep_read_grammar"]
    fr = [i for i in f.calls() if i.callee == "free_sgrammar"]
    ss = [i for i in f.calls() if i.callee == "set_sgrammar"]
    ok = len(rg) == 1 and len(ss) == 1 and fr and any(f.inst_postdominates(x, rg[0]) for x in fr) and f.inst_dominates(ss[0], rg[0])
    if ok:
        a = [strip_casts(f, x) for x in rg[0].args]
        ok = a[0] == {"k": "a", "v": 0} and a[1] == {"k": "a", "v": 1} and a[2] == {"k": "f", "v": "sread_terminal"} and a[3] == {"k": "f", "v": "sread_rule"}
    if ok:
        rep.ok("C11-actions", "yaep_parse_grammar/replay")
    else:
        rep.violation("C11-actions", "yaep_parse_grammar/replay", "yaep_parse_grammar does not replay the parsed description into yaep_read_grammar (same object, same strict_p, "
                                                                  "the two replay callbacks) and release it afterwards", where=f.where())


def rule_declaration_merge(ctx, rep, config="c-lib"):
    rep.rule("C11-merge", "repeated declarations of one terminal in a description are merged into the element that is kept: the pointer used for later comparisons and updates "
                          "is the destination of the copy that keeps the element (not the place it was copied from), and the kept element's code is overwritten by the "
                          "other declaration's code only when it has none (kept code == -1 / < 0)")
    from .r5 import _controlling_conditions
    p = ctx.prog(config)
    f = p.fn("set_sgrammar")
    rep.cover(p, [f.name])
    expr.NAMED[0] = True
    try:
        def _sterm_ptr(op):
            i_ = f.inst(op)
            k_ = 0
            while i_ is not None and i_.op == "bitcast" and k_ < 3:
                src = i_.ops[0]
                si = f.inst(src)
                ty = (si.ty if si is not None else (f.args[src["v"]].get("ty") if src.get("k") == "a" else "")) or ""
                if "sterm" in ty:
                    return True
                i_ = si
                k_ += 1
            return False

        def _code_controlled(i_):
            for (c_, _) in _controlling_conditions(f, i_.block.name):
                for o_ in c_.ops:
                    l_ = f.inst(strip_int_casts(f, o_))
                    if l_ is not None and l_.op == "load" and resolve_addr(f, l_.ops[0]).last_field() == "sterm.code":
                        return True
            return False
        allcp = [i for i in f.calls() if (i.callee or "").startswith("llvm.memcpy") and const_int(i.args[2]) is not None and _sterm_ptr(i.args[0]) and _sterm_ptr(i.args[1])]
        # the copy that keeps an element is decided by the names only; a copy decided by the codes is a merge
        copies = [i for i in allcp if not _code_controlled(i)]
        whole = [i for i in allcp if _code_controlled(i)]
        merges = []
        for s_ in f.all_insts():
            if s_.op != "store" or resolve_addr(f, s_.ops[1]).last_field() != "sterm.code":
                continue
            v = f.inst(strip_int_casts(f, s_.ops[0]))
            if v is not None and v.op == "load" and resolve_addr(f, v.ops[0]).last_field() == "sterm.code":
                merges.append((s_, v))
        if len(copies) == 1 and not merges and len(whole) == 1:
            rep.violation("C11-merge", "set_sgrammar/merge-touches-code-only", "a repeated declaration is merged by copying the whole element over the kept one: the kept "
                          "declaration also loses its order number (the position of the first declaration), so terminals without explicit codes get their implicit "
                          "codes 256, 257, ... in another order than documented", where=whole[0].where(), witness=[whole[0].where()])
            return
        if len(copies) != 1 or len(merges) != 1:
            raise AnalysisBroken("C11-merge: the merge loop of set_sgrammar is not of the known shape (%d element copies, %d code merges)" % (len(copies), len(merges)))
        cp = copies[0]
        dst = expr.lin(f, cp.args[0], 0, 2)
        s_, v = merges[0]
        kept = resolve_addr(f, s_.ops[1])
        kept_val = kept.root[1] if kept.root[0] == "val" else None
        # (1) the pointer through which the kept element is updated is the copy's destination
        phis = []
        ki = f.inst(strip_casts(f, kept_val)) if kept_val is not None else None
        work, seen = [ki], set()
        srcs = []
        while work:
            x = work.pop()
            if x is None or x.id in seen:
                continue
            seen.add(x.id)
            if x.op == "phi":
                for (val, pb) in x.d["incoming"]:
                    xi = f.inst(strip_casts(f, val))
                    if xi is not None and xi.op == "phi" and expr.lin(f, val, 0, 2) == dst:
                        srcs.append((val, pb))       # the running destination pointer itself
                    elif xi is not None and xi.op == "phi":
                        work.append(xi)
                    elif val.get("k") != "null":
                        srcs.append((val, pb))
        bad = [(val, pb) for (val, pb) in srcs if expr.lin(f, val, 0, 2) != dst]
        if srcs and not bad:
            rep.ok("C11-merge", "set_sgrammar/kept-element", sample={"copy": cp.where(), "kept": repr(dst)})
        elif not srcs:
            raise AnalysisBroken("C11-merge: cannot see what the pointer to the kept declaration is set to")
        else:
            rep.violation("C11-merge", "set_sgrammar/kept-element", "the declaration is kept at %r, but later declarations of the same name are compared with and merged into %r: "
                          "the merge updates a place that is overwritten or dropped, the kept declaration never gets the explicit code" % (dst, expr.lin(f, bad[0][0], 0, 2)),
                          where=cp.where(), witness=[cp.where(), s_.where()])
        # (2) the merge condition
        okc = False
        seenc = []
        for (c, pol) in _controlling_conditions(f, s_.block.name):
            lp = loaded_from(f, c.ops[0])
            if lp is None or lp.last_field() != "sterm.code" or lp.root != kept.root:
                continue
            k = const_int(c.ops[1])
            pr = c.d["pred"]
            if not pol:
                pr = {"eq": "ne", "ne": "eq", "slt": "sge", "sge": "slt", "sle": "sgt", "sgt": "sle"}.get(pr, pr)
            seenc.append("%s %s" % (pr, k))
            if (pr, k) in (("eq", -1), ("slt", 0), ("sle", -1)):
                okc = True
        if okc:
            rep.ok("C11-merge", "set_sgrammar/merge-condition", sample={"store": s_.where(), "condition": seenc})
        else:
            rep.violation("C11-merge", "set_sgrammar/merge-condition", "the kept declaration's code is overwritten by the repeated declaration's code under `kept code %s', not when "
                          "the kept one has no code: `TERM a=5 a' loses the explicit code 5 (a gets a free code from 256), `TERM a a=5' never gets it" % (
                              ", ".join(seenc) or "<no test of the kept code>"), where=s_.where(), witness=[s_.where()])
    finally:
        expr.NAMED[0] = False


LEXER_WRITES = set(["curr_ch", "ln", "stoks", "yaep_yylval"])


def rule_lexer_discipline(ctx, rep, config="c-lib"):
    rep.rule("C11-lexer", "the scanner runs one token ahead of the parser actions, so it writes only its own state (cursor, line counter, token storage, yylval) and never a "
                          "variable the actions read later (current left-hand side, cost, rule/terminal lists); numbers are read in base 10: a NUMBER value is "
                          "digit - '0' or 10 * value + digit - '0', and a library conversion is called with base 10")
    p = ctx.prog(config)
    f = p.fn("yaep_yylex")
    rep.cover(p, [f.name])
    written = {}
    for s_ in f.all_insts():
        if s_.op == "store":
            pa = resolve_addr(f, s_.ops[1])
            if pa.root[0] == "g":
                written.setdefault(pa.root[1], s_)
    # what the parser actions (yaep_yyparse) touch themselves; yylval is the hand-over cell, the cursor and the line counter are the scanner's own
    yp = p.fn("yaep_yyparse")
    acts = set()
    for i_ in yp.all_insts():
        for o_ in ([i_.ops[0]] if i_.op == "load" else ([i_.ops[1]] if i_.op == "store" else (i_.args if i_.is_call() else []))):
            if isinstance(o_, dict) and o_.get("k") in ("i", "g"):
                pa_ = resolve_addr(yp, o_)
                if pa_.root[0] == "g":
                    acts.add(pa_.root[1])
    acts -= set(["yaep_yylval"])
    extra = sorted(set(written) & acts)
    if extra:
        rep.violation("C11-lexer", "yylex/writes-own-state-only", "the scanner writes `%s', which the parser actions read: the scanner is one token ahead (lookahead), so an "
                      "action still working on the previous rule sees the value of the next one" % ", ".join(extra), where=written[extra[0]].where(),
                      witness=[written[e].where() for e in extra])
    else:
        rep.ok("C11-lexer", "yylex/writes-own-state-only", sample={"globals_written": sorted(written)})
    # base 10
    expr.NAMED[0] = True
    try:
        forms = []
        for s_ in f.all_insts():
            if s_.op == "store" and resolve_addr(f, s_.ops[1]).root == ("g", "yaep_yylval"):
                v = lin(f, s_.ops[0], 0, 2)
                if any("yaep_yylval" in a for a in v.t):
                    forms.append((s_, v))
        # the value accumulated in a local and stored once:  val = phi(first digit, k * val + digit - '0')
        for L in f.loops():
            for ph in f.bmap[L["header"]].insts:
                if ph.op != "phi" or not ph.ty.startswith("i"):
                    continue
                stored = any(u.op == "store" and resolve_addr(f, u.ops[1]).root == ("g", "yaep_yylval") for u in f.uses().get(ph.id, []))
                stored = stored or any(u.op in ("sext", "zext", "trunc") and any(w.op == "store" and resolve_addr(f, w.ops[1]).root == ("g", "yaep_yylval")
                                                                                   for w in f.uses().get(u.id, [])) for u in f.uses().get(ph.id, []))
                if not stored:
                    continue
                for (v_, pb) in ph.d["incoming"]:
                    if pb not in L["body"]:
                        continue
                    v = lin(f, v_, 0, 0)
                    if len(v.t) == 2:
                        forms.append((ph, v))
        bad = [(s_, v) for (s_, v) in forms if not (v.c == -48 and sorted(v.t.values()) == [1, 10])]
    finally:
        expr.NAMED[0] = False
    conv = [c for c in f.calls() if c.callee in ("strtol", "strtoul", "strtoll", "strtoull", "__isoc99_sscanf", "sscanf", "atoi", "atol")]
    badconv = [c for c in conv if not (c.callee.startswith("strto") and len(c.args) >= 3 and const_int(c.args[2]) == 10)]
    if bad or badconv or (not forms and not conv):
        w = bad[0][0] if bad else (badconv[0] if badconv else f.insts[min(f.insts)])
        rep.violation("C11-lexer", "yylex/numbers-base-10", "a NUMBER token is not read as a decimal number (%s): codes, costs and symbol numbers written with a leading zero or "
                      "followed by `x...' get another value" % ("accumulation %r" % bad[0][1] if bad else ("%s with a base other than 10" % badconv[0].callee if badconv else
                                                                                                               "no accumulation found")), where=w.where(), witness=[w.where()])
    else:
        rep.ok("C11-lexer", "yylex/numbers-base-10", sample={"accumulations": len(forms), "conversions": len(conv)})



def rule_line_count(ctx, rep, config="c-lib"):
    rep.rule("C11-ln", "the scanner counts a line only for a newline it consumes: every `ln++' is controlled by c == '\\\\n' for a character read through the cursor curr_ch "
                       "itself, or through a local look-ahead pointer that is stored back into curr_ch on every path from the increment to the return (a newline seen "
                       "by a look-ahead that is then dropped is scanned and counted again: the line of `description syntax error on ln N' drifts)")
    from .r5 import _controlling_conditions
    from .r14 import path_exists
    p = ctx.prog(config)
    f = p.fn("yaep_yylex")
    rep.cover(p, [f.name])
    from .lexer import lexer_globals
    CURSOR, LINE = lexer_globals(p)
    n = 0
    rets = [i for i in f.all_insts() if i.op == "ret"]
    for s_ in f.all_insts():
        if s_.op != "store" or resolve_addr(f, s_.ops[1]).root != ("g", LINE) or resolve_addr(f, s_.ops[1]).steps:
            continue
        v = f.inst(strip_int_casts(f, s_.ops[0]))
        if v is None or v.op != "add" or const_int(v.ops[1]) != 1:
            continue
        n += 1
        key = "yylex/line-counted-for-consumed-newline#%d" % n
        ptr = None
        for (c, pol) in _controlling_conditions(f, s_.block.name):
            if c.d["pred"] == "eq" and pol and const_int(c.ops[1]) == 10:
                ch = f.inst(strip_int_casts(f, c.ops[0]))
                while ch is not None and ch.op == "phi":
                    # c = *p++ merged over the loop: any incoming that is a load
                    nxt = [f.inst(strip_int_casts(f, v_)) for (v_, _) in ch.d["incoming"]]
                    nxt = [x for x in nxt if x is not None and x.op == "load"]
                    ch = nxt[0] if nxt else None
                if ch is not None and ch.op == "load":
                    ptr = ch.ops[0]
        if ptr is None:
            # switch (c) { case '\n': ln++; ...
            for b in f.rblocks():
                t = b.term
                if t is None or t.op != "switch" or not f.dominates(b.name, s_.block.name):
                    continue
                tg10 = [tgt for (v_, tgt) in t.d["cases"] if v_ == 10]
                others = [tgt for (v_, tgt) in t.d["cases"] if v_ != 10] + [t.d.get("default")]
                if tg10 and tg10[0] == s_.block.name and tg10[0] not in others and [x.name for x in f.rblocks() if s_.block.name in x.succs] == [b.name]:
                    ch = f.inst(strip_int_casts(f, t.d["cond"]))
                    if ch is not None and ch.op == "load":
                        ptr = ch.ops[0]
        if ptr is None:
            rep.violation("C11-ln", key, "the line counter is incremented without a test that the character read is a newline", where=s_.where(), witness=[s_.where()])
            continue
        pi = f.inst(strip_casts(f, ptr))
        lp = loaded_from(f, ptr)
        if lp is not None and lp.root == ("g", CURSOR) and not lp.steps:
            rep.ok("C11-ln", key, sample={"increment": s_.where(), "read_through": CURSOR})
            continue
        # a local cursor: the family of values connected by phi / gep
        fam, work = set(), [pi]
        while work:
            x = work.pop()
            if x is None or x.id in fam:
                continue
            fam.add(x.id)
            if x.op == "phi":
                work.extend(f.inst(strip_casts(f, v_)) for (v_, _) in x.d["incoming"])
            elif x.op == "getelementptr":
                work.append(f.inst(strip_casts(f, x.d["base"])))
            for u in f.uses().get(x.id, []):
                if u.op in ("phi", "getelementptr", "bitcast"):
                    work.append(u)
        commits = [c_ for c_ in f.all_insts() if c_.op == "store" and resolve_addr(f, c_.ops[1]).root == ("g", CURSOR) and not resolve_addr(f, c_.ops[1]).steps
                   and strip_casts(f, c_.ops[0]).get("v") in fam]
        leak = [r for r in rets if path_exists(f, s_, r, commits)]
        if leak:
            rep.violation("C11-ln", key, "the newline that increments the line counter is read through a look-ahead pointer that is not stored back into curr_ch on "
                          "every path to the return: the same newline is scanned and counted again by the next call", where=s_.where(), witness=[s_.where(), leak[0].where()])
        else:
            rep.ok("C11-ln", key, sample={"increment": s_.where(), "read_through": "a local cursor committed on every path"})
    rep.floor("C11-ln", "increments of the line counter", n, 2)


def rule_keyword(ctx, rep, config="c-lib"):
    rep.rule("C11-keyword", "the scanner recognises the keyword TERM by comparing the whole identifier: the comparison with the literal `TERM' is strcmp, or a "
                            "length-limited comparison whose length covers the terminating NUL (an identifier that merely starts with TERM is an identifier)")
    p = ctx.prog(config)
    f = p.fn("yaep_yylex")
    rep.cover(p, [f.name])
    n = 0
    for c in f.calls():
        lits = [(k, p.m.string_of(a)) for k, a in enumerate(c.args)]
        lits = [(k, s_) for (k, s_) in lits if s_ == "TERM"]
        if not lits:
            continue
        n += 1
        key = "yylex/keyword-compare#%d" % n
        g = p.m.functions.get(c.callee or "")
        nm = c.callee or "indirect"
        if nm == "strcmp":
            rep.ok("C11-keyword", key, sample={"compare": c.where()})
        elif nm in ("strncmp", "memcmp") and const_int(c.args[2]) is not None and const_int(c.args[2]) >= 5:
            rep.ok("C11-keyword", key, sample={"compare": c.where(), "length": const_int(c.args[2])})
        else:
            rep.violation("C11-keyword", key, "the identifier is compared with the keyword TERM by %s%s: every identifier that starts with TERM (TERMS, TERMINATOR, TERM_x) is "
                          "taken for the keyword -- a rule for it is a syntax error, a declaration of it is silently dropped" % (
                              nm, (" over %s characters" % const_int(c.args[2])) if len(c.args) > 2 and const_int(c.args[2]) is not None else ""),
                          where=c.where(), witness=[c.where()])
    rep.floor("C11-keyword", "comparisons with the keyword literal", n, 1)


def rule_char_code(ctx, rep, config="c-lib"):
    rep.rule("C11-charcode", "the code of a character constant is the character: the byte taken from the text of the constant is widened to the int code without sign "
                             "extension.  A negative code means `no code given' to set_sgrammar (it hands out the next free code from 256 on): a byte of 0x80 and more, "
                             "widened as a signed char, silently turns the constant into a terminal with some free code -- the token whose code is the character is "
                             "refused by yaep_parse")
    p = ctx.prog(config)
    n = 0
    for f in p.m.defined():
        for s_ in f.all_insts():
            if s_.op != "store" or resolve_addr(f, s_.ops[1]).last_field() != "sterm.code":
                continue
            v = f.inst(strip_casts(f, s_.ops[0]))
            if v is None or v.op not in ("sext", "zext"):
                continue
            src = f.inst(strip_casts(f, v.ops[0]))
            if src is None or src.op != "load" or src.ty != "i8":
                continue
            n += 1
            rep.cover(p, [f.name])
            key = "%s/character-code#%d" % (f.name, n)
            if v.op == "zext":
                rep.ok("C11-charcode", key, sample={"store": s_.where()})
            else:
                rep.violation("C11-charcode", key, "the code of a character constant is the byte of the text widened as a SIGNED char: for bytes of 0x80 and more the code is "
                              "negative, which set_sgrammar takes for `no code given' -- the constant becomes a terminal with a free code >= 256 and the character "
                              "itself is not a token of the grammar", where=s_.where(), witness=[s_.where()])
    rep.floor("C11-charcode", "codes of character constants", n, 1)


def _yacc_rules(text):
    """productions of the grammar section of a yacc file: list of (lhs, [symbols], line); actions, comments and literals handled"""
    parts = text.split("\n%%")
    if len(parts) < 2:
        raise AnalysisBroken("sgramm.y: no grammar section")
    head_lines = parts[0].count("\n") + 1
    body = parts[1]
    toks = []
    i, ln = 0, head_lines + 1
    n = len(body)
    while i < n:
        c = body[i]
        if c == "\n":
            ln += 1
            i += 1
        elif c.isspace():
            i += 1
        elif body.startswith("/*", i):
            j = body.index("*/", i + 2)
            ln += body.count("\n", i, j)
            i = j + 2
        elif c == "{":
            depth, j = 0, i
            while j < n:
                ch = body[j]
                if ch == "'" and j + 2 < n and body[j + 2] == "'":
                    j += 3
                    continue
                if ch == '"':
                    j = body.index('"', j + 1) + 1
                    continue
                if ch == "{":
                    depth += 1
                elif ch == "}":
                    depth -= 1
                    if depth == 0:
                        break
                j += 1
            ln += body.count("\n", i, j)
            i = j + 1
        elif c == "'":
            j = body.index("'", i + 2 if body[i + 1] != "\\" else i + 3)
            toks.append((body[i:j + 1], ln))
            i = j + 1
        elif c.isalpha() or c == "_":
            j = i
            while j < n and (body[j].isalnum() or body[j] in "_."):
                j += 1
            toks.append((body[i:j], ln))
            i = j
        elif c == "%":
            j = i + 1
            while j < n and (body[j].isalnum() or body[j] in "_-"):
                j += 1
            toks.append((body[i:j], ln))
            i = j
        else:
            toks.append((c, ln))
            i += 1
    rules = []
    k = 0
    while k < len(toks):
        if k + 1 < len(toks) and toks[k + 1][0] == ":" and (toks[k][0][0].isalpha() or toks[k][0][0] == "_"):
            lhs = toks[k][0]
            k += 2
            cur, cl = [], toks[k][1] if k < len(toks) else 0
            while k < len(toks) and toks[k][0] != ";":
                if toks[k][0] == "|":
                    rules.append((lhs, cur, cl))
                    cur, cl = [], toks[k][1]
                elif toks[k][0] == "%prec":
                    k += 1
                elif k + 1 < len(toks) and toks[k + 1][0] == ":" and (toks[k][0][0].isalpha() or toks[k][0][0] == "_"):
                    break         # a rule without the closing semicolon
                else:
                    cur.append(toks[k][0])
                k += 1
            rules.append((lhs, cur, cl))
            if k < len(toks) and toks[k][0] == ";":
                k += 1
        else:
            k += 1
    return rules


def rule_list_recursion(ctx, rep, config="c-lib"):
    rep.rule("C11-lists", "the lists of the description grammar (terminal declarations, rules, alternatives, symbols of an alternative, translation numbers) are written "
                          "with LEFT recursion: the LALR stack stays a few entries deep however long the list is.  With recursion through the last symbol the stack "
                          "grows by an entry per element: beyond YYMAXDEPTH a well-formed description is refused as a syntax error, and the stack, malloc'ed once it "
                          "outgrows its initial array, is lost when yyerror leaves the parser by longjmp")
    import os
    from ..build import REPO
    path = os.path.join(os.environ.get("VERIF_REPO", REPO), "src", "sgramm.y")
    try:
        text = open(path).read()
    except OSError:
        raise AnalysisBroken("sgramm.y not found")
    rules = _yacc_rules(text)
    if len(rules) < 20:
        raise AnalysisBroken("C11-lists: %d productions read from sgramm.y (hand-confirmed: more than 20)" % len(rules))
    rep.rule_files = getattr(rep, "rule_files", [])
    n = 0
    for (lhs, syms, ln) in rules:
        if lhs not in syms:
            continue
        n += 1
        key = "sgramm.y/%s-recursion#%d" % (lhs, n)
        if syms[0] == lhs and lhs not in syms[1:]:
            rep.ok("C11-lists", key, sample={"production": "%s : %s" % (lhs, " ".join(syms)), "line": ln})
        else:
            rep.violation("C11-lists", key, "the production `%s : %s' recurses through a symbol that is not its first: every element of the list stays on the parser "
                          "stack until the list ends -- a description with more than YYMAXDEPTH elements is refused although it follows the documented syntax" % (
                              lhs, " ".join(syms)), where="%s:%d" % (path, ln), witness=["%s:%d" % (path, ln)])
    rep.floor("C11-lists", "recursive productions of the description grammar", n, 5)


def rule_nil_number_reserved(ctx, rep, config="c-lib"):
    rep.rule("C11-nil-number", "in a description the empty node is written `-'; the value YAEP_NIL_TRANSLATION_NUMBER (INT_MAX) that stands for it in the translation array "
                               "handed to yaep_read_grammar enters that array only as a constant: a NUMBER of the text that is appended to the array is compared with "
                               "the reserved value first -- otherwise `# x (0 2147483647)' is taken for `# x (0 -)' and a symbol number out of range is accepted")
    p = ctx.prog(config)
    f = p.fn("yaep_yyparse")
    rep.cover(p, [f.name])
    nil = 2147483647
    n = 0
    for mc in f.all_insts():
        if not mc.is_call() or not (mc.callee or "").startswith("llvm.memcpy") or len(mc.args) < 3:
            continue
        dst = loaded_from(f, mc.args[0])
        if dst is None or dst.root != ("g", "strans"):
            continue
        src = resolve_addr(f, mc.args[1])
        if src.root[0] != "alloca":
            continue
        stores = [s_ for s_ in f.all_insts() if s_.op == "store" and resolve_addr(f, s_.ops[1]).root == src.root and f.inst_dominates(s_, mc) or
                  (s_.op == "store" and resolve_addr(f, s_.ops[1]).root == src.root and s_.block.name in f.reachable_from(f.blocks[0].name) and
                   mc.block.name in f.reachable_from(s_.block.name) and _same_case(f, s_, mc))]
        for s_ in stores:
            if const_int(s_.ops[0]) is not None:
                continue
            n += 1
            key = "yyparse/number-into-translation#%d" % n
            v = strip_int_casts(f, s_.ops[0])
            # what the stored value is made from (the number itself, or the number adjusted on one way into a merge)
            fam, work = set(), [v]
            while work:
                o = strip_int_casts(f, work.pop())
                if o.get("k") != "i" or o["v"] in fam:
                    continue
                fam.add(o["v"])
                i_ = f.insts.get(o["v"])
                if i_ is None:
                    continue
                if i_.op == "phi":
                    work.extend(x_ for (x_, _) in i_.d["incoming"])
                elif i_.op == "select":
                    work.extend(i_.ops[1:])
                elif i_.op in ("add", "sub") and const_int(i_.ops[1]) is not None:
                    work.append(i_.ops[0])
            guarded = None
            for c in f.all_insts():
                if c.op != "icmp" or not _same_case(f, c, mc):
                    continue
                for (x, y) in ((0, 1), (1, 0)):
                    if const_int(c.ops[y]) in (nil, nil - 1):
                        o = strip_int_casts(f, c.ops[x])
                        lo = f.inst(o)
                        if o == v or (o.get("k") == "i" and o["v"] in fam) or (lo is not None and lo.op == "load" and resolve_addr(f, lo.ops[0]).root == src.root):
                            guarded = c
            if guarded is not None:
                rep.ok("C11-nil-number", key, sample={"store": s_.where(), "compared_at": guarded.where()})
            else:
                rep.violation("C11-nil-number", key, "a NUMBER of the description is appended to the translation array without being compared with the reserved value "
                              "INT_MAX: written as 2147483647 it means `-' (the empty node), and `# 2147483647' is the nil translation -- a symbol number out of "
                              "range is accepted with code 0", where=s_.where(), witness=[s_.where(), mc.where()])
    rep.floor("C11-nil-number", "numbers of the text appended to the translation array", n, 2)


def _same_case(f, a, b):
    """both instructions belong to one action of the parser: the same `sw.bb' block dominates both (or they share a block)"""
    if a.block is b.block:
        return True
    heads = [bl.name for bl in f.rblocks() if bl.name.startswith("sw.bb")]
    for h in heads:
        if f.dominates(h, a.block.name) and f.dominates(h, b.block.name):
            # and no other case head lies in between
            return True
    return False
