"""R6 -- non-interference of the debug level (and of the result-selection flags on recognition)."""
from ..model import resolve_addr, strip_casts, strip_int_casts, const_int, loaded_from
from ..core import AnalysisBroken

LIBC_PRINT = set(["fprintf", "fputs", "fputc", "putc", "puts", "printf", "fwrite", "fflush"])
# printing functions of the library: pure except for output
PURE_PRINT = ["symb_print", "rule_print", "rule_dot_print", "sit_print", "set_print", "term_set_print", "canon_node_num"]
# pure query helpers the printers may call
PURE_QUERY = ["term_set_test", "term_get", "symb_get", "nonterm_get", "symb_find_by_code", "get_all_collisions", "get_all_searches"]
# printers with private bookkeeping (node numbering for the tree dump)
PRIVATE_PRINT = ["print_parse", "print_node", "visit_node"]
DEBUG_PRIVATE_GLOBALS = set(["trans_visit_nodes_tab", "trans_visit_nodes_os", "n_trans_visit_nodes"])
CONTAINER_FUNS = set(["create_hash_table", "delete_hash_table", "find_hash_table_entry", "_OS_create_function", "_OS_delete_function", "_OS_expand_memory",
                      "llvm.memcpy.p0i8.p0i8.i64"])


def _debug_loads(f):
    return [i for i in f.all_insts() if i.op == "load" and resolve_addr(f, i.ops[0]).last_field() == "grammar.debug_level"]


def _region(f, start, stop):
    """blocks reachable from start without entering stop"""
    if start == stop:
        return set()
    return f.reachable_from(start, avoid=(stop,) if stop else ())


def rule_R6_debug(ctx, rep, config="c-lib"):
    rep.rule("R6", "the debug level cannot influence any result: every load of grammar.debug_level is used only by the setter or by integer comparisons that feed "
                   "conditional branches / arguments of printing functions; every region controlled by such a branch (blocks between the branch and its immediate "
                   "post-dominator) contains only loads, arithmetic, branches and calls of printing functions, stores nothing, cannot leave except to the post-dominator, "
                   "and defines no value that is used outside it; the printing functions store only to their own locals and the private bookkeeping of the tree dump")
    p = ctx.prog(config)
    m = p.m
    PRINT = set(LIBC_PRINT) | set(PURE_PRINT) | set(PRIVATE_PRINT) | set(PURE_QUERY)
    nloads = nregions = 0
    for f in m.defined():
        loads = _debug_loads(f)
        if not loads:
            continue
        rep.cover(p, [f.name])
        if f.name == "yaep_set_debug_level":
            rep.ok("R6", "yaep_set_debug_level/setter", nontrivial=False)
            continue
        for ld in loads:
            nloads += 1
            key = "%s/debug_level-load@%s" % (f.name, nloads)
            cmps = []
            bad = None
            work = [ld.id]
            seen = set()
            while work and bad is None:
                x = work.pop()
                if x in seen:
                    continue
                seen.add(x)
                for u in f.uses().get(x, []):
                    if u.op in ("sext", "zext", "trunc"):
                        work.append(u.id)
                    elif u.op == "icmp":
                        cmps.append(u)
                    else:
                        bad = u
            if bad is not None:
                rep.violation("R6", key, "the debug level is used as a value (%s), not only compared: it can flow into results" % bad.op, where=bad.where(), witness=[ld.where(), bad.where()])
                continue
            okl = True
            for c in cmps:
                w2 = [c.id]
                s2 = set()
                while w2 and okl:
                    y = w2.pop()
                    if y in s2:
                        continue
                    s2.add(y)
                    for u in f.uses().get(y, []):
                        if u.op in ("zext", "sext", "xor", "and", "or") :
                            w2.append(u.id)
                        elif u.op == "br":
                            nregions += 1
                            r = _check_branch(p, f, u, PRINT)
                            if r is not None:
                                rep.violation("R6", "%s/region@%d" % (f.name, nregions), r[0], where=r[1], witness=[ld.where(), u.where(), r[1]])
                                okl = False
                                break
                        elif u.op == "phi":
                            # short-circuit (a && debug > n): the phi feeds a branch
                            w2.append(u.id)
                        elif u.is_call() and u.callee in PRINT:
                            continue
                        else:
                            rep.violation("R6", key, "a comparison of the debug level is used by `%s': it can influence more than printing" % u.op, where=u.where(),
                                          witness=[ld.where(), u.where()])
                            okl = False
                            break
            if okl:
                rep.ok("R6", key, sample={"function": f.name, "load": ld.where(), "comparisons": len(cmps)})
    rep.floor("R6", "loads of the debug level", nloads, 40)
    rep.floor("R6", "debug-controlled branches", nregions, 40)
    # closure of the printing functions
    for fn in PURE_PRINT + PRIVATE_PRINT:
        g = m.functions.get(fn)
        if g is None or g.decl:
            continue
        key = "printer/%s" % fn
        bad = None
        for i in g.all_insts():
            if i.op == "store":
                pa = resolve_addr(g, i.ops[1])
                if pa.root[0] == "alloca":
                    continue
                if fn in PRIVATE_PRINT:
                    if pa.root[0] == "g" and pa.root[1] in DEBUG_PRIVATE_GLOBALS:
                        continue
                    lf = pa.last_field()
                    if lf and lf.startswith("trans_visit_node."):
                        continue
                    # slot of the private table returned by find_hash_table_entry
                    r = pa.root
                    if r[0] == "val":
                        ri = g.inst(strip_casts(g, r[1]))
                        if ri is not None and ri.is_call() and ri.callee == "find_hash_table_entry":
                            continue
                        if ri is not None and ri.op == "load":
                            rp = resolve_addr(g, ri.ops[0])
                            if rp.root[0] == "g" and rp.root[1] in DEBUG_PRIVATE_GLOBALS:
                                continue
                bad = (i, "stores to memory that is not its own")
                break
            if i.is_call():
                tg = p.call_targets(g, i)
                for t in tg:
                    if t in PRINT or t in PURE_QUERY or t.startswith("llvm.dbg"):
                        continue
                    if fn in PRIVATE_PRINT and (t in CONTAINER_FUNS or t in ("yaep_malloc", "yaep_free")):
                        a0 = i.args[0] if i.args else None
                        lp = loaded_from(g, a0) if a0 is not None else None
                        pa = resolve_addr(g, a0) if a0 is not None else None
                        if (lp is not None and lp.root[0] == "g" and lp.root[1] in DEBUG_PRIVATE_GLOBALS) or \
                           (pa is not None and pa.root[0] == "g" and pa.root[1] in DEBUG_PRIVATE_GLOBALS) or t in ("llvm.memcpy.p0i8.p0i8.i64", "create_hash_table", "yaep_malloc"):
                            continue
                    bad = (i, "calls %s" % t)
                    break
                if bad:
                    break
        if bad:
            rep.violation("R6", key, "the printing function %s %s: printing under a debug level can change parser state" % (fn, bad[1]), where=bad[0].where(), witness=[bad[0].where()])
        else:
            rep.ok("R6", key, sample={"printer": fn})
    for fn in PURE_QUERY:
        g = m.functions.get(fn)
        if g is None or g.decl:
            continue
        st = [i for i in g.all_insts() if i.op == "store" and resolve_addr(g, i.ops[1]).root[0] != "alloca"]
        if st:
            rep.violation("R6", "query/%s" % fn, "%s is used by the printers but stores to memory" % fn, where=st[0].where())
        else:
            rep.ok("R6", "query/%s" % fn, nontrivial=False)
    rep.assume("the additional allocations made by the tree dump (print_parse) succeed; allocation failure is C17's subject")
    rep.assume("a non-reserving hash-table lookup (symb_find_by_code, used to print a terminal's name) changes only the table's statistics counters and layout, not its contents")


def _check_branch(p, f, br, PRINT):
    if len(br.ops) != 3:
        return None
    b = br.block
    ip = f.ipdom().get(b.name)
    td, fd = br.ops[2]["v"], br.ops[1]["v"]
    if ip is None:
        return ("a branch on the debug level has no post-dominator: one side does not return normally", br.where())
    region = _region(f, td, ip) | _region(f, fd, ip)
    ids = set()
    for bn in region:
        if not f.postdominates(ip, bn):
            return ("a block controlled by the debug level can leave the function or raise an error", f.bmap[bn].insts[0].where())
        for i in f.bmap[bn].insts:
            ids.add(i.id)
            if i.op == "store":
                pa = resolve_addr(f, i.ops[1])
                if pa.root[0] != "alloca":
                    return ("code executed only under a debug level stores to memory", i.where())
            elif i.is_call():
                for t in p.call_targets(f, i) or ["<indirect>"]:
                    if t not in PRINT:
                        return ("code executed only under a debug level calls %s, which is not a printing function" % t, i.where())
            elif i.op in ("ret", "unreachable", "invoke"):
                return ("code executed only under a debug level returns", i.where())
    # no value defined in the region is used outside it
    for bn in region:
        for i in f.bmap[bn].insts:
            for u in f.uses().get(i.id, []):
                if u.block.name not in region:
                    return ("a value computed only under a debug level is used by code that runs at every level", u.where())
    # phis at the join must not distinguish the paths through the region
    for i in f.bmap[ip].insts:
        if i.op != "phi":
            break
        vals = set()
        for (iv, pb) in i.d["incoming"]:
            if pb in region or pb == b.name:
                vals.add(str(sorted(iv.items())))
        if len(vals) > 1:
            return ("a value selected by the path taken under the debug level is used afterwards", i.where() if i.d.get("loc") else br.where())
    return None


def rule_R6_flags(ctx, rep, config="c-lib"):
    rep.rule("R6-flags", "the recognition verdict cannot depend on the one-parse flag or the cost flag: no function reachable from read_toks / build_pl loads them, and in "
                         "make_parse every load of them is dominated by the acceptance test (the only NULL return of make_parse precedes them)")
    p = ctx.prog(config)
    m = p.m
    FIELDS = ("grammar.one_parse_p", "grammar.cost_p")
    reach = p.reach("read_toks") | p.reach("build_pl") | p.reach("yaep_parse_init") | p.reach("tok_init") | p.reach("pl_create")
    bad = []
    n = 0
    for fn in sorted(reach):
        g = m.functions.get(fn)
        if g is None or g.decl:
            continue
        n += 1
        for i in g.all_insts():
            if i.op == "load" and resolve_addr(g, i.ops[0]).last_field() in FIELDS:
                bad.append((g, i))
    if bad:
        g, i = bad[0]
        rep.violation("R6-flags", "recogniser/%s" % g.name, "the recogniser reads a result-selection flag: whether an input is accepted can depend on it", where=i.where(), witness=[i.where()])
    else:
        rep.ok("R6-flags", "recogniser", sample={"functions_of_the_recogniser": n})
    mp = p.fn("make_parse")
    from .r3 import returned_values
    nullret = [(v, b, t) for (v, b, t) in returned_values(mp) if strip_casts(mp, v).get("k") == "null"]
    loads = [i for i in mp.all_insts() if i.op == "load" and resolve_addr(mp, i.ops[0]).last_field() in FIELDS]
    if len(nullret) != 1:
        rep.violation("R6-flags", "make_parse/acceptance", "make_parse has %d NULL returns (expected the one of the acceptance test)" % len(nullret), where=mp.where())
    else:
        nb = nullret[0][1]
        tb = mp.idom().get(nb) if not mp.bmap[nb].insts or True else None
        # the acceptance branch block: the nearest dominator of the NULL-return edge block with two successors
        cur = nb
        acc = None
        while cur is not None:
            t = mp.bmap[cur].term
            if t is not None and t.op == "br" and len(t.ops) == 3 and cur != nb:
                acc = cur
                break
            cur = mp.idom().get(cur)
        okk = acc is not None and all(mp.dominates(acc, l.block.name) and l.block.name != acc for l in loads) and \
            not any(nb in mp.reachable_from(l.block.name) for l in loads)
        if okk and loads:
            rep.ok("R6-flags", "make_parse/acceptance", sample={"flag_loads": len(loads), "acceptance_branch_block": acc})
        else:
            rep.violation("R6-flags", "make_parse/acceptance", "a result-selection flag is read before (or decides) the acceptance test of make_parse", where=mp.where())
    rep.floor("R6-flags", "functions of the recogniser", n, 40)
