"""R13 / T4 / T5 -- who may be handed to the caller's parse_free, and how often.

Typed provenance (LLVM 14 keeps C's static pointer types): a `struct
yaep_tree_node *' value can only be *born* from a non-node value by a cast, and
every such cast in the library is enumerated and must cast the result of a call
through parse_alloc.  Everything else of that type is a copy of such a value."""
from ..model import resolve_addr, strip_casts, const_int, loaded_from
from ..core import AnalysisBroken
from ..expr import lin as _lin, Lin
from .r5 import _controlling_conditions

NODE_T = "%yaep_tree_node*"


def chain_types(f, op):
    """static types along the cast chain of an operand (outermost first)"""
    tys = []
    while True:
        i = f.inst(op)
        if i is not None:
            tys.append(i.ty)
            if i.op == "bitcast":
                op = i.ops[0]
                continue
        elif op.get("k") == "a":
            tys.append(f.args[op["v"]]["ty"])
        return tys


def cast_aliases(f, root_op):
    """ids of the root value and of all casts of it"""
    ids = set()
    if root_op.get("k") != "i":
        return ids
    work = [root_op["v"]]
    while work:
        x = work.pop()
        if x in ids:
            continue
        ids.add(x)
        for u in f.uses().get(x, []):
            if u.op == "bitcast":
                work.append(u.id)
    return ids


def via_global(f, i, gname):
    """is instruction i an indirect call through the file-scope function pointer gname?"""
    if not i.is_call() or i.callee:
        return False
    lp = loaded_from(f, i.d["callee_op"])
    return lp is not None and lp.root == ("g", gname) and not lp.steps


def via_param(f, i, pname):
    if not i.is_call() or i.callee:
        return False
    o = strip_casts(f, i.d["callee_op"])
    return o.get("k") == "a" and f.args[o["v"]]["name"] == pname


def rule_births(ctx, rep, config="c-lib"):
    rep.rule("T4-births", "every cast that creates a `struct yaep_tree_node *' from a value of another type casts the result of a call through the caller's parse_alloc; "
                          "the only tree-node object that is not such a block is make_parse's stack placeholder root_anode, whose address is stored only into the stack "
                          "object root_state")
    p = ctx.prog(config)
    m = p.m
    n = 0
    for f in m.defined():
        for i in f.all_insts():
            if i.op in ("bitcast", "inttoptr") and i.ty == NODE_T and i.d.get("src_ty") != NODE_T:
                n += 1
                src = f.inst(strip_casts(f, i.ops[0]))
                key = "%s/node-cast#%d" % (f.name, n)
                if src is not None and via_global(f, src, "parse_alloc"):
                    rep.ok("T4-births", key, sample={"cast": i.where(), "source": "call through parse_alloc"})
                else:
                    rep.violation("T4-births", key, "a parse tree node pointer is created from memory that does not come from the caller's parse_alloc (the caller's "
                                                    "parse_free / yaep_free_tree will be handed a block it never allocated)", where=i.where(), witness=[i.where()])
    rep.floor("T4-births", "casts creating tree node pointers", n, 6)
    # stack / global tree nodes
    for g, d in m.globals.items():
        if "yaep_tree_node" in d["ty"] and not d["ty"].endswith("*"):
            rep.violation("T4-births", "global/" + g, "a tree node object lives in static storage", where=d.get("file"))
    k = 0
    for f in m.defined():
        for a in f.all_insts():
            if a.op == "alloca" and a.d.get("alloc_ty") == "%yaep_tree_node":
                k += 1
                key = "%s/stack-node-%s" % (f.name, a.d.get("var"))
                # every use of the address: stores of the address itself must go to an alloca; field accesses are fine
                bad = []
                work = [a.id]
                seen = set()
                while work:
                    x = work.pop()
                    if x in seen:
                        continue
                    seen.add(x)
                    for u in f.uses().get(x, []):
                        if u.op in ("getelementptr", "bitcast"):
                            # address of a member: only used to access the placeholder itself
                            if u.op == "bitcast" or any("f" in s for s in u.d.get("path", [])):
                                continue
                            work.append(u.id)
                        elif u.op == "store":
                            if strip_casts(f, u.ops[0]) == {"k": "i", "v": x}:
                                pa = resolve_addr(f, u.ops[1])
                                if pa.root[0] != "alloca":
                                    bad.append(u)
                        elif u.is_call():
                            if not (u.callee or "").startswith("llvm."):
                                bad.append(u)
                        elif u.op in ("phi", "select", "ret"):
                            bad.append(u)
                if bad:
                    rep.violation("T4-births", key, "the address of a tree node on the stack escapes into memory that outlives the call", where=bad[0].where(), witness=[b.where() for b in bad])
                else:
                    rep.ok("T4-births", key, sample={"stack_object": a.d.get("var"), "function": f.name})
    rep.floor("T4-births", "stack tree-node placeholders", k, 1)


def _free_calls(p):
    out = []
    for f in p.m.defined():
        for i in f.calls():
            if via_global(f, i, "parse_free"):
                out.append((f, i))
    return out


def rule_T4(ctx, rep, config="c-lib"):
    rep.rule("T4", "every pointer handed to the caller's parse_free inside yaep_parse is a tree node (static type struct yaep_tree_node *, hence a parse_alloc block by "
                   "T4-births) or a node's name, and names are parse_alloc blocks: yaep_anode.name is only assigned from rule.caller_anode, which is only assigned a "
                   "parse_alloc result or NULL; only make_parse and find_minimal_translation release through the file-scope parse_free")
    p = ctx.prog(config)
    calls = _free_calls(p)
    n = 0
    owners = set()
    for (f, i) in calls:
        n += 1
        owners.add(f.name)
        key = "%s/parse_free#%d" % (f.name, n)
        a = strip_casts(f, i.args[0])
        if NODE_T in chain_types(f, i.args[0]):
            rep.ok("T4", key, sample={"call": i.where(), "argument": "tree node"})
            continue
        lp = loaded_from(f, a)
        if lp is not None and lp.last_field() in ("yaep_anode.name", "_yaep_anode_name.name"):
            rep.ok("T4", key, sample={"call": i.where(), "argument": "node name"})
            continue
        rep.violation("T4", key, "parse_free is handed a pointer that is neither a tree node nor a node name", where=i.where(), witness=[i.where()])
    rep.floor("T4", "release sites through parse_free", n, 4)
    extra = owners - set(["make_parse", "find_minimal_translation"])
    if extra:
        rep.violation("T4", "owners", "functions other than make_parse/find_minimal_translation release tree memory: %s" % sorted(extra))
    else:
        rep.ok("T4", "owners", sample={"functions": sorted(owners)})
    # name provenance
    m = p.m
    k = 0
    for f in m.defined():
        for s in f.all_insts():
            if s.op != "store":
                continue
            fld = resolve_addr(f, s.ops[1]).last_field()
            if fld == "yaep_anode.name":
                k += 1
                v = strip_casts(f, s.ops[0])
                lp = loaded_from(f, v)
                key = "%s/store-anode.name#%d" % (f.name, k)
                if v.get("k") == "null" or (lp is not None and lp.last_field() == "rule.caller_anode"):
                    rep.ok("T4", key, sample={"store": s.where()})
                else:
                    rep.violation("T4", key, "an abstract node's name is assigned a pointer that is not the rule's caller-allocated copy: the tree then points into grammar "
                                             "memory (dangling after yaep_free_grammar) and parse_free/yaep_free_tree release memory the caller never allocated",
                                  where=s.where(), witness=[s.where()])
            elif fld == "rule.caller_anode":
                k += 1
                v = strip_casts(f, s.ops[0])
                vi = f.inst(v)
                key = "%s/store-caller_anode#%d" % (f.name, k)
                if v.get("k") == "null" or (vi is not None and via_global(f, vi, "parse_alloc")):
                    rep.ok("T4", key, sample={"store": s.where()})
                else:
                    rep.violation("T4", key, "rule.caller_anode is assigned something else than a parse_alloc block or NULL", where=s.where(), witness=[s.where()])
    rep.floor("T4", "assignments of node names / caller_anode", k, 3)


def _same_value(f, a, b):
    for ld in (0, 1, 2, 3):
        if _lin(f, a, 0, ld) == _lin(f, b, 0, ld):
            return True
    return False


def rule_R13_dedupe(ctx, rep, config="c-lib"):
    rep.rule("R13-once", "in find_minimal_translation every release through parse_free is guarded by a test-and-insert of the same pointer in the reserved-memory "
                         "table (test: the entry found for the pointer is NULL; insert: the pointer is stored through that entry before the release), so each "
                         "block is released at most once whatever the sharing in the DAG; NIL/ERROR singletons are not released there; in make_parse the singletons "
                         "are released only under used == 0")
    p = ctx.prog(config)
    f = p.fn("find_minimal_translation")
    rep.cover(p, ["find_minimal_translation", "make_parse"])
    calls = [i for i in f.calls() if via_global(f, i, "parse_free")]
    if not calls:
        raise AnalysisBroken("find_minimal_translation no longer releases through parse_free")
    n = 0
    for i in calls:
        n += 1
        key = "find_minimal_translation/parse_free#%d" % n
        x = i.args[0]
        ok = False
        why = "no test of the reserved-memory table controls this release"
        for (c, pol) in _controlling_conditions(f, i.block.name):
            if c.d["pred"] not in ("eq", "ne") or not (c.ops[1].get("k") == "null" or c.ops[0].get("k") == "null"):
                continue
            val = c.ops[0] if c.ops[1].get("k") == "null" else c.ops[1]
            ld = f.inst(strip_casts(f, val))
            if ld is None or ld.op != "load":
                continue
            e = f.inst(strip_casts(f, ld.ops[0]))
            if e is None or not e.is_call() or e.callee != "find_hash_table_entry":
                continue
            t = loaded_from(f, e.args[0])
            if t is None or t.root != ("g", "reserv_mem_tab"):
                continue
            if not _same_value(f, e.args[1], x):
                continue
            is_null_branch = (c.d["pred"] == "eq") == pol
            if not is_null_branch:
                why = "the release happens when the pointer IS in the reserved-memory table"
                continue
            if const_int(e.args[2]) in (0, None):
                why = "the table lookup does not reserve an entry"
                continue
            # insert through the same entry
            ins = [s for s in f.all_insts() if s.op == "store" and strip_casts(f, s.ops[1]) == {"k": "i", "v": e.id} and _same_value(f, s.ops[0], x)
                   and (f.dominates(s.block.name, i.block.name) or s.block is i.block)]
            if ins:
                ok = True
                break
            why = "the pointer is tested but never inserted: a second mention of the same block is released again"
        if ok:
            rep.ok("R13-once", key, sample={"release": i.where()})
        else:
            rep.violation("R13-once", key, "release of a pruned node without de-duplication: %s (double free for a node mentioned by two discarded parents, or a name "
                                           "shared by two discarded nodes of one rule)" % why, where=i.where(), witness=[i.where()])
    # singletons are not released in find_minimal_translation: a release of a node is controlled by its type not being NIL/ERROR
    for i in calls:
        if NODE_T not in chain_types(f, i.args[0]):
            continue
        key = "find_minimal_translation/singletons-excluded"
        tests = []
        for (c, pol) in _controlling_conditions(f, i.block.name):
            v = f.inst(strip_casts(f, c.ops[0]))
            if v is not None and v.op == "load" and resolve_addr(f, v.ops[0]).last_field() == "yaep_tree_node.type" and const_int(c.ops[1]) is not None:
                pr = c.d["pred"]
                if not pol:
                    pr = {"eq": "ne", "ne": "eq"}.get(pr, pr)
                tests.append((pr, const_int(c.ops[1])))
        sw_ok = False
        for b in f.rblocks():
            t = b.term
            if t is None or t.op != "switch" or not f.dominates(b.name, i.block.name):
                continue
            sv = f.inst(strip_casts(f, t.d["cond"]))
            if sv is None or sv.op != "load" or resolve_addr(f, sv.ops[0]).last_field() != "yaep_tree_node.type":
                continue
            cases = dict((v, tgt) for (v, tgt) in t.d["cases"])
            if 0 in cases and 1 in cases and all(i.block.name not in f.reachable_from(cases[k_], avoid=(b.name,)) for k_ in (0, 1)) \
                    and t.d["default"] not in (cases[0], cases[1]):
                sw_ok = True
        if (("ne", 0) in tests and ("ne", 1) in tests) or sw_ok:
            rep.ok("R13-once", key, sample={"release": i.where(), "type_tests": tests or "switch without a path from the NIL / ERROR cases"})
        else:
            rep.violation("R13-once", key, "the single NIL/ERROR node can be released during cost pruning although make_parse examines (and releases) it afterwards",
                          where=i.where(), witness=[i.where(), "type tests controlling the release: %s" % tests])
    # make_parse: singleton releases under used == 0
    g = p.fn("make_parse")
    k = 0
    for i in g.calls():
        if not via_global(g, i, "parse_free"):
            continue
        k += 1
        key = "make_parse/parse_free#%d" % k
        x = strip_casts(g, i.args[0])
        okk = False
        for (c, pol) in _controlling_conditions(g, i.block.name):
            v = g.inst(strip_casts(g, c.ops[0]))
            if v is not None and v.op == "load":
                pa = resolve_addr(g, v.ops[0])
                if pa.last_field() in ("yaep_nil.used", "yaep_error.used") and pa.root[0] == "val" and strip_casts(g, pa.root[1]) == x:
                    zero = (c.d["pred"] == "eq") == pol if const_int(c.ops[1]) == 0 else None
                    if zero:
                        okk = True
        if okk:
            rep.ok("R13-once", key, sample={"release": i.where()})
        else:
            rep.violation("R13-once", key, "make_parse releases a node without testing that it is an unused NIL/ERROR singleton", where=i.where(), witness=[i.where()])
    rep.floor("R13-once", "releases in make_parse", k, 2)


def rule_R13_marks(ctx, rep, config="c-lib"):
    rep.rule("R13-marks", "the single NIL and ERROR nodes are created once (one store of each type constant, outside loops and recursion), and every placement of "
                          "one of them into the tree (argument of place_translation, store into a child slot) is accompanied by `used = 1' on that node")
    p = ctx.prog(config)
    m = p.m
    g = p.fn("make_parse")
    singles = {}
    for f in m.defined():
        for s in f.all_insts():
            if s.op == "store" and resolve_addr(f, s.ops[1]).last_field() == "yaep_tree_node.type" and const_int(s.ops[0]) in (0, 1):
                singles.setdefault(const_int(s.ops[0]), []).append((f, s))
    for tv, name in ((0, "NIL"), (1, "ERROR")):
        lst = singles.get(tv, [])
        key = "singleton/%s" % name
        if len(lst) != 1:
            rep.violation("R13-marks", key, "%d sites create a %s node (documented: it exists in one exemplar)" % (len(lst), name), where=lst[0][1].where() if lst else None)
            continue
        f, s = lst[0]
        if any(s.block.name in L["body"] for L in f.loops()) or f.name in p.reach(f.name) - {f.name} and f.name in [t for i in f.calls() for t in p.call_targets(f, i)]:
            rep.violation("R13-marks", key, "the %s node is created inside a loop or a recursive function" % name, where=s.where())
        else:
            rep.ok("R13-marks", key, sample={"created": s.where()})
    # placements of the singletons in make_parse
    nodes = {}
    for s in g.all_insts():
        if s.op == "store" and resolve_addr(g, s.ops[1]).last_field() == "yaep_tree_node.type" and const_int(s.ops[0]) in (0, 1):
            pa = resolve_addr(g, s.ops[1])
            if pa.root[0] == "val":
                nodes[const_int(s.ops[0])] = strip_casts(g, pa.root[1])
    n = 0
    for tv, x in nodes.items():
        field = "yaep_nil.used" if tv == 0 else "yaep_error.used"
        marks = [s for s in g.all_insts() if s.op == "store" and const_int(s.ops[0]) == 1 and resolve_addr(g, s.ops[1]).last_field() == field
                 and resolve_addr(g, s.ops[1]).root[0] == "val" and strip_casts(g, resolve_addr(g, s.ops[1]).root[1]) == x]
        al = cast_aliases(g, x)
        for u in [u for a_ in al for u in g.uses().get(a_, [])]:
            place = None
            if u.op == "bitcast":
                continue
            if u.is_call() and u.callee == "place_translation" and strip_casts(g, u.args[1]) == x:
                place = u
            elif u.op == "store" and strip_casts(g, u.ops[0]) == x and resolve_addr(g, u.ops[1]).root[0] != "alloca" and NODE_T in chain_types(g, u.ops[0]):
                place = u
            elif u.op == "phi":
                # the node merged into `node' and placed later: the mark must sit on the incoming edge
                if any(u2.is_call() and u2.callee == "place_translation" for u2 in g.uses().get(u.id, [])):
                    n += 1
                    key = "make_parse/place-%s#%d" % ("NIL" if tv == 0 else "ERROR", n)
                    pbs = [pb for (iv, pb) in u.d["incoming"] if strip_casts(g, iv) == x]
                    okp = all(any(mk.block.name == pb or (g.dominates(mk.block.name, pb) and g.postdominates(pb, mk.block.name)) for mk in marks) for pb in pbs)
                    if okp:
                        rep.ok("R13-marks", key, sample={"placement": "through " + ", ".join(pbs)})
                    else:
                        rep.violation("R13-marks", key, "the single %s node is placed into the tree without being marked used: make_parse then releases it although the "
                                                        "returned tree refers to it" % ("NIL" if tv == 0 else "ERROR"), where=g.bmap[pbs[0]].insts[0].where(), witness=pbs)
                continue
            if place is None:
                continue
            n += 1
            key = "make_parse/place-%s#%d" % ("NIL" if tv == 0 else "ERROR", n)
            ok = any(mk.block is place.block or (g.dominates(place.block.name, mk.block.name) and g.postdominates(mk.block.name, place.block.name)) or
                     (g.dominates(mk.block.name, place.block.name) and mk.block.name in _same_arm(g, place)) for mk in marks)
            if ok:
                rep.ok("R13-marks", key, sample={"placement": place.where()})
            else:
                rep.violation("R13-marks", key, "the single %s node is placed into the tree without being marked used: make_parse then releases it although the returned "
                                                "tree refers to it" % ("NIL" if tv == 0 else "ERROR"), where=place.where(), witness=[place.where()])
    rep.floor("R13-marks", "placements of the NIL/ERROR singletons", n, 4)


def _same_arm(g, inst):
    """blocks that dominate inst's block and are post-dominated by it (straight-line predecessors)"""
    res = set()
    b = inst.block.name
    idom = g.idom()
    cur = b
    while cur is not None:
        res.add(cur)
        par = idom.get(cur)
        if par is None or not g.postdominates(cur, par):
            break
        cur = par
    return res


def rule_cost_marks(ctx, rep, config="c-lib"):
    rep.rule("R13-costmark", "the cost field doubles as visit mark (cost -> -cost-1): every store that toggles it is control dependent on a sign test of the same node's "
                             "cost, so a node reached through several parents is costed (prune_to_minimal) and restored (traverse_pruned_translation) exactly once")
    from ..expr import lin, Lin
    p = ctx.prog(config)
    n = 0
    for fn in ("prune_to_minimal", "traverse_pruned_translation"):
        f = p.fn(fn)
        rep.cover(p, [fn])
        for s in f.all_insts():
            if s.op != "store" or resolve_addr(f, s.ops[1]).last_field() != "yaep_anode.cost":
                continue
            v = lin(f, s.ops[0], 0, 1)
            # toggle:  -1*L[cost] - 1
            loads = [a for a in v.atoms() if a.startswith("L[") and a.endswith("yaep_anode.cost]")]
            if not (v.c == -1 and len(loads) == 1 and v.t.get(loads[0]) == -1 and len(v.t) == 1):
                continue
            n += 1
            key = "%s/cost-toggle#%d" % (fn, n)
            guarded = False
            for (c, pol) in _controlling_conditions(f, s.block.name):
                lp = loaded_from(f, c.ops[0])
                if lp is not None and lp.last_field() == "yaep_anode.cost" and const_int(c.ops[1]) is not None and c.d["pred"] in ("slt", "sge", "sgt", "sle"):
                    guarded = True
            if guarded:
                rep.ok("R13-costmark", key, sample={"store": s.where()})
            else:
                rep.violation("R13-costmark", key, "%s toggles the cost/visit mark of a node without testing it: a node shared by two parents is toggled twice and keeps a "
                                                   "negative cost" % fn, where=s.where(), witness=[s.where()])
    rep.floor("R13-costmark", "cost-mark toggles", n, 2)
    # encoding and decoding of the mark agree: every value derived from the negated cost field is  -cost - 1
    nc = 0
    for fn in ("prune_to_minimal", "traverse_pruned_translation"):
        f = p.fn(fn)
        for s in f.all_insts():
            if s.op != "store":
                continue
            v = lin(f, s.ops[0], 0, 1)
            neg = [a for a in v.atoms() if a.startswith("L[") and a.endswith("yaep_anode.cost]") and v.t.get(a, 0) < 0]
            if not neg:
                continue
            nc += 1
            key = "%s/mark-codec#%d" % (fn, nc)
            if v.c == -1 and len(v.t) == 1 and v.t[neg[0]] == -1:
                rep.ok("R13-costmark", key, sample={"store": s.where(), "value": repr(v)})
            else:
                rep.violation("R13-costmark", key, "%s computes `%r' from a marked cost field, the mark is written as -cost - 1: the cost read back through a second parent "
                                                   "(or restored after pruning) differs from the cost that was recorded" % (fn, v), where=s.where(), witness=[s.where()])
    rep.floor("R13-costmark", "cost-mark encode/decode sites", nc, 3)
    # marking and restoring are paired on every path; the tie rule reads the user's one-parse setting
    g = p.fn("find_minimal_translation")
    pr = [i for i in g.calls() if i.callee == "prune_to_minimal"]
    tr = [i for i in g.calls() if i.callee == "traverse_pruned_translation"]
    if len(pr) == 1 and len(tr) == 1 and g.inst_postdominates(tr[0], pr[0]) and g.inst_dominates(pr[0], tr[0]):
        rep.ok("R13-costmark", "find_minimal_translation/mark-restore-paired", sample={"mark": pr[0].where(), "restore": tr[0].where()})
    else:
        rep.violation("R13-costmark", "find_minimal_translation/mark-restore-paired", "the pass that turns the visit marks back into costs does not run on every path after the "
                      "costing pass: abstract nodes keep negative cost fields", where=(tr[0].where() if tr else g.where()))
    # the restoring / reserving walk starts from what the pruning returned, and that is what the function returns
    if len(pr) == 1 and len(tr) == 1:
        pruned = pr[0].id
        arg_ok = strip_casts(g, tr[0].args[0]).get("v") == pruned
        rets = [r_ for r_ in g.all_insts() if r_.op == "ret" and r_.ops]
        ret_ok = bool(rets) and all(strip_casts(g, r_.ops[0]).get("v") == pruned for r_ in rets)
        if arg_ok and ret_ok:
            rep.ok("R13-costmark", "find_minimal_translation/walk-from-pruned-root", sample={"pruned_at": pr[0].where(), "walk": tr[0].where()})
        else:
            rep.violation("R13-costmark", "find_minimal_translation/walk-from-pruned-root", "the walk that restores the costs and reserves what must not be released starts from "
                          "%s, the function returns %s: when the root place holds alternatives the pruning returns another node than it was given -- nodes of the returned "
                          "tree are released, the abandoned ones stay" % ("the pruned root" if arg_ok else "the root as it was before pruning", "the pruned root" if ret_ok else "something else"),
                          where=tr[0].where(), witness=[pr[0].where(), tr[0].where()])
    mp = p.fn("make_parse")
    fm = [i for i in mp.calls() if i.callee == "find_minimal_translation"]
    # the costing pass is the only code that adds the children's costs into an abstract node: with the cost flag set no path
    # reaches a successful return (a non-null result) around it
    for c_ in fm:
        dead = set()    # edges taken only when cost_p == 0
        flag_tests = 0
        for b in mp.rblocks():
            t = b.term
            if t is None or t.op != "br" or len(t.ops) != 3:
                continue
            c = mp.inst(t.ops[0])
            if c is None or c.op != "icmp" or const_int(c.ops[1]) != 0 or c.d["pred"] not in ("eq", "ne"):
                continue
            lp = loaded_from(mp, c.ops[0])
            if lp is None or lp.last_field() != "grammar.cost_p":
                continue
            flag_tests += 1
            # ops: cond, false-dest, true-dest
            zero_dest = t.ops[1]["v"] if c.d["pred"] == "ne" else t.ops[2]["v"]
            dead.add((b.name, zero_dest))
        rets = [i for i in mp.all_insts() if i.op == "ret"]
        good = set()   # (pred block, ret block) edges that deliver a non-null result
        for r in rets:
            v = mp.inst(r.ops[0]) if r.ops else None
            if v is not None and v.op == "phi" and v.block is r.block:
                for (val, pb) in v.d["incoming"]:
                    if val.get("k") != "null":
                        good.add((pb, r.block.name))
            else:
                for pb in r.block.preds:
                    good.add((pb, r.block.name))
        # a branch that finds the result itself missing does not deliver a translation either
        res_allocas = set()
        for r in rets:
            v = mp.inst(r.ops[0]) if r.ops else None
            vals = [val for (val, _) in v.d["incoming"]] if (v is not None and v.op == "phi") else (r.ops[:1] if r.ops else [])
            for val in vals:
                li = mp.inst(strip_casts(mp, val))
                if li is not None and li.op == "load":
                    pa = resolve_addr(mp, li.ops[0])
                    if pa.root[0] == "alloca" and not pa.steps:
                        res_allocas.add(pa.root[1])
        for b in mp.rblocks():
            t = b.term
            if t is None or t.op != "br" or len(t.ops) != 3:
                continue
            c = mp.inst(t.ops[0])
            if c is None or c.op != "icmp" or c.ops[1].get("k") != "null" or c.d["pred"] not in ("eq", "ne"):
                continue
            li = mp.inst(strip_casts(mp, c.ops[0]))
            if li is None or li.op != "load":
                continue
            pa = resolve_addr(mp, li.ops[0])
            if pa.root[0] == "alloca" and not pa.steps and pa.root[1] in res_allocas:
                dead.add((b.name, t.ops[1]["v"] if c.d["pred"] == "ne" else t.ops[2]["v"]))
        # search
        prev = {mp.entry.name: None}
        st = [mp.entry.name]
        hit = None
        while st and hit is None:
            n = st.pop()
            for s_ in mp.bmap[n].succs:
                if (n, s_) in dead or s_ == c_.block.name:
                    continue
                if (n, s_) in good:
                    hit = n
                    break
                if s_ not in prev:
                    prev[s_] = n
                    st.append(s_)
        if not flag_tests:
            rep.violation("R13-costmark", "make_parse/costing-whenever-cost-flag", "the cost pass is not controlled by the cost flag", where=c_.where(), witness=[c_.where()])
        elif hit is None:
            rep.ok("R13-costmark", "make_parse/costing-whenever-cost-flag", sample={"call": c_.where(), "cost_flag_tests": flag_tests})
        else:
            nodes = []
            n = hit
            while n is not None:
                nodes.append(n)
                n = prev[n]
            nodes.reverse()
            path = []
            for n in nodes:
                t = mp.bmap[n].term
                if t is not None and t.op == "br" and len(t.ops) == 3:
                    path.append(t.where())
            # deciding branch: the last one on the path from which the call was still reachable
            dec = [n for n in nodes if c_.block.name in mp.reachable_from(n) and mp.bmap[n].term is not None and len(mp.bmap[n].term.ops) == 3]
            if dec:
                path = [w for w in path if w != mp.bmap[dec[-1]].term.where()] + [mp.bmap[dec[-1]].term.where()]
            rep.violation("R13-costmark", "make_parse/costing-whenever-cost-flag", "with the cost flag set a translation is returned without the pass that adds the children's "
                          "costs into the abstract nodes (find_minimal_translation), decided by the branch at %s: the cost fields then hold the rules' own costs only and the "
                          "root cost is not the cost of the translation" % (path[-1] if path else "?"), where=c_.where(), witness=path[-6:] + [c_.where()])
    reads = any(i.op == "load" and resolve_addr(h, i.ops[0]).last_field() == "grammar.one_parse_p"
                for hn in p.reach("find_minimal_translation") for h in [p.m.functions.get(hn)] if h is not None and not h.decl for i in h.all_insts())
    if fm and reads:
        stores = [s for s in mp.all_insts() if s.op == "store" and resolve_addr(mp, s.ops[1]).last_field() == "grammar.one_parse_p"]
        loads = [l for l in mp.all_insts() if l.op == "load" and resolve_addr(mp, l.ops[0]).last_field() == "grammar.one_parse_p"]
        restore = [s for s in stores if any(strip_casts(mp, s.ops[0]) == {"k": "i", "v": l.id} for l in loads)]
        if restore and all(mp.inst_dominates(restore[0], c) for c in fm):
            rep.ok("R13-costmark", "make_parse/user-setting-restored-before-pruning", sample={"restore": restore[0].where(), "pruning": fm[0].where()})
        else:
            rep.violation("R13-costmark", "make_parse/user-setting-restored-before-pruning", "cost pruning decides between `all minimal translations' and `one of them' by the "
                          "one-parse flag, but runs while the flag is still forced to the all-parses value", where=fm[0].where(), witness=[fm[0].where()])


NAME_FIELDS = ("yaep_anode.name", "_yaep_anode_name.name")   # two members of one union, same place


def rule_release_nonnull(ctx, rep, config="c-lib"):
    rep.rule("T4-nonnull", "what is handed to the caller's parse_free (through the file-scope pointer or through the parameter of yaep_free_tree's walkers) is a block, not "
                           "NULL: the argument was dereferenced before on every path, or is tested against NULL, or is read from a member into which no function of the "
                           "same API call (entry point reaching both) stores NULL")
    p = ctx.prog(config)
    entries = ["yaep_parse", "yaep_free_tree", "yaep_read_grammar", "yaep_parse_grammar", "yaep_free_grammar"]
    reach = dict((e, p.reach(e)) for e in entries if e in p.m.functions)
    # members that receive NULL, per function
    null_stores = {}
    for f in p.m.defined():
        for s in f.all_insts():
            if s.op == "store" and strip_casts(f, s.ops[0]).get("k") == "null":
                fld = resolve_addr(f, s.ops[1]).last_field()
                if fld:
                    null_stores.setdefault(fld, []).append((f, s))
    n = 0
    for f in p.m.defined():
        for i in f.calls():
            if not (via_global(f, i, "parse_free") or via_param(f, i, "parse_free")):
                continue
            n += 1
            rep.cover(p, [f.name])
            key = "%s/release#%d" % (f.name, n)
            a = strip_casts(f, i.args[0])
            ai = f.inst(a)
            ids = cast_aliases(f, a) if a.get("k") == "i" else set()
            # dereferenced before on every path / tested
            deref = False
            for x in ids:
                for u in f.uses().get(x, []):
                    if u is i:
                        continue
                    is_d = (u.op == "load" and strip_casts(f, u.ops[0]).get("v") in ids) or (u.op == "store" and strip_casts(f, u.ops[1]).get("v") in ids) or \
                           (u.op == "getelementptr" and any(w.op in ("load", "store") for w in f.uses().get(u.id, [])))
                    if is_d and f.inst_dominates(u, i):
                        deref = True
            if a.get("k") == "a":
                # a parameter: dereferenced in a dominating block?
                for u in f.all_insts():
                    if u.op in ("load", "getelementptr") and strip_casts(f, (u.ops[0] if u.op == "load" else u.d["base"])) == a and f.inst_dominates(u, i):
                        deref = True
            tested = False
            for (c, pol) in _controlling_conditions(f, i.block.name):
                if strip_casts(f, c.ops[1]).get("k") == "null" and c.d["pred"] in ("eq", "ne") and (c.d["pred"] == "ne") == pol:
                    cv = strip_casts(f, c.ops[0])
                    if cv == a or cv.get("v") in ids:
                        tested = True
                    else:
                        # a reload of the same place
                        l1, l2 = f.inst(cv), ai
                        if l1 is not None and l2 is not None and l1.op == "load" and l2.op == "load":
                            p1, p2 = resolve_addr(f, l1.ops[0]), resolve_addr(f, l2.ops[0])
                            if p1.root == p2.root and p1.steps == p2.steps:
                                tested = True
            if deref or tested:
                rep.ok("T4-nonnull", key, sample={"call": i.where(), "why": "dereferenced before" if deref else "tested against NULL"})
                continue
            lp = loaded_from(f, a)
            fld = lp.last_field() if lp is not None else None
            flds = NAME_FIELDS if fld in NAME_FIELDS else ((fld,) if fld else ())
            culprit = None
            for fl in flds:
                for (g, s_) in null_stores.get(fl, []):
                    if any(f.name in r and g.name in r for r in reach.values()):
                        culprit = (g, s_)
            if culprit is None:
                rep.ok("T4-nonnull", key, sample={"call": i.where(), "why": "no NULL is stored into %s during the same API call" % (fld or "the source")})
            else:
                rep.violation("T4-nonnull", key, "the caller's parse_free is called with `%s', which %s sets to NULL (%s) during the same API call, without a test: parse_free "
                              "receives NULL, which parse_alloc never returned" % (fld, culprit[0].name, culprit[1].where()), where=i.where(), witness=[culprit[1].where(), i.where()])
    rep.floor("T4-nonnull", "release sites", n, 7)


def _collect_sites(f):
    """[(instruction, alloca id of the variable whose value is appended to tnodes_vlo)]"""
    out = []
    for i in f.calls():
        src = None
        if (i.callee or "").startswith("llvm.memcpy"):
            lp = loaded_from(f, i.args[0])
            if lp is not None and lp.root == ("g", "tnodes_vlo") and (lp.last_field() or "").endswith("vlo_free"):
                src = i.args[1]
        elif i.d.get("srcname") == "add_memory" or "add_memory" in (i.callee or ""):
            lp = loaded_from(f, i.args[0])
            if lp is not None and lp.root == ("g", "tnodes_vlo") and not lp.steps:
                src = i.args[1]
        if src is not None:
            pa = resolve_addr(f, src)
            if pa.root[0] == "alloca" and not [st for st in pa.steps if st[0] != "cast"]:
                out.append((i, pa.root[1]))
    return out


def _var_of(f, op):
    """identity of the node variable an operand is the current value of: ('alloca', id) for an address-taken local (the operand is a load of it),
    ('ssa', id) otherwise"""
    o = strip_casts(f, op)
    i = f.inst(o)
    if i is not None and i.op == "load":
        pa = resolve_addr(f, i.ops[0])
        if pa.root[0] == "alloca" and not [st for st in pa.steps if st[0] != "cast"]:
            return ("alloca", pa.root[1])
    if o.get("k") == "i":
        return ("ssa", o["v"])
    if o.get("k") == "a":
        return ("arg", o["v"])
    return None


def _collect_events(p, f):
    """[(instruction that dominates what it protects, variable key)]: appends of a node variable to tnodes_vlo, directly (under the parse_free test)
    or through a helper of this file that appends its parameter"""
    out = []
    for (i, var) in _collect_sites(f):
        g = i
        for (c, pol) in _controlling_conditions(f, i.block.name):
            lp = loaded_from(f, c.ops[0])
            if lp is not None and lp.root == ("g", "parse_free") and strip_casts(f, c.ops[1]).get("k") == "null" and (c.d["pred"] == "ne") == pol:
                g = c
                break
        out.append((g, ("alloca", var)))
        # a temporary that only holds a copy of another variable's value (an inlined helper's parameter): the value's own variable too
        sts = [s for s in f.all_insts() if s.op == "store" and resolve_addr(f, s.ops[1]).root == ("alloca", var) and not resolve_addr(f, s.ops[1]).steps]
        if len(sts) == 1 and f.inst_dominates(sts[0], i):
            vk = ("arg", strip_casts(f, sts[0].ops[0])["v"]) if strip_casts(f, sts[0].ops[0]).get("k") == "a" else _var_of(f, sts[0].ops[0])
            if vk is not None:
                out.append((g, vk))
    for c_ in f.calls():
        h = p.m.functions.get(c_.callee) if c_.callee else None
        if h is None or h.decl or h.name == f.name or not c_.args:
            continue
        hs = _collect_sites(h)
        if not hs:
            continue
        # the helper appends the local that holds its first parameter
        okh = False
        for (_, var) in hs:
            sts = [s for s in h.all_insts() if s.op == "store" and resolve_addr(h, s.ops[1]).root == ("alloca", var)]
            if len(sts) == 1 and strip_casts(h, sts[0].ops[0]) == {"k": "a", "v": 0}:
                okh = True
        if okh:
            vk = _var_of(f, c_.args[0])
            if vk is not None:
                out.append((c_, vk))
    return out


def rule_collect(ctx, rep, config="c-lib"):
    rep.rule("R13-collect", "prune_to_minimal records every node it works on in the list of candidates for release (tnodes_vlo) before it rewrites the node -- marks its "
                            "cost, replaces a child or an alternative, relinks the alternative list: each store through a node variable is dominated by the parse_free "
                            "test that guards an append of that variable; the leaf kinds are appended on their case.  Nodes that are dropped later can only be "
                            "released if they are in that list")
    p = ctx.prog(config)
    f = p.fn("prune_to_minimal")
    rep.cover(p, [f.name])
    events = _collect_events(p, f)
    if len(events) < 3:
        raise AnalysisBroken("R13-collect: %d appends to tnodes_vlo recognised in prune_to_minimal (3 confirmed by reading)" % len(events))
    guards = {}
    for (g_, vk) in events:
        guards.setdefault(vk, []).append(g_)
    n = 0
    for s in f.all_insts():
        if s.op != "store":
            continue
        pa = resolve_addr(f, s.ops[1])
        if pa.root[0] not in ("val", "a") or not pa.fields():
            continue
        fld = pa.last_field() or ""
        if "yaep_tree_node" not in "".join(st[1] for st in pa.steps if st[0] == "f") and not fld.startswith(("yaep_anode.", "yaep_alt.")):
            continue
        var = ("arg", pa.root[1]) if pa.root[0] == "a" else _var_of(f, pa.root[1])
        if var is None:
            continue
        n += 1
        vi_ = f.insts.get(var[1]) if var[0] in ("alloca", "ssa") else None
        vname = (vi_.d.get("var") if vi_ is not None else None) or ("node" if var[0] == "arg" else "?")
        key = "prune_to_minimal/%s.%s#%d" % (vname, fld.split(".")[-1], n)
        gs = guards.get(var, [])
        if any(f.inst_dominates(g, s) for g in gs):
            rep.ok("R13-collect", key, sample={"store": s.where()})
        else:
            rep.violation("R13-collect", key, "prune_to_minimal rewrites `%s->%s' of a node that is not (yet) in the list of release candidates on this path: if the node is "
                          "dropped later -- a cheaper alternative follows -- nobody releases it (a parse_alloc block stays unreleased)" % (vname, fld.split(".")[-1]),
                          where=s.where(), witness=[s.where()] + [g.where() for g in gs][:3])
    rep.floor("R13-collect", "stores through node variables in prune_to_minimal", n, 5)


def rule_compaction(ctx, rep, config="c-lib"):
    rep.rule("R11-move", "free_tree_reduce compacts the child array by moving pointers: a child copied into another slot of the same array is cleared in its old slot "
                         "(a copy that stays makes yaep_free_tree release the child and its subtree twice)")
    p = ctx.prog(config)
    f = p.fn("free_tree_reduce")
    rep.cover(p, [f.name])
    from .. import expr as _e
    n = 0
    for s in f.all_insts():
        if s.op != "store":
            continue
        pa = resolve_addr(f, s.ops[1])
        if pa.root[0] != "val" or not pa.steps or pa.steps[-1][0] not in ("idx", "ptr"):
            continue
        base = loaded_from(f, pa.root[1])
        if base is None or base.last_field() != "yaep_anode.children":
            continue
        v = f.inst(strip_casts(f, s.ops[0]))
        if v is None or v.op != "load":
            continue
        vp = resolve_addr(f, v.ops[0])
        vb = loaded_from(f, vp.root[1]) if vp.root[0] == "val" else None
        if vb is None or vb.last_field() != "yaep_anode.children" or not vp.steps or vp.steps[-1][0] not in ("idx", "ptr"):
            continue
        n += 1
        src_ix = _e.lin(f, vp.steps[-1][1], 0, 1)
        cleared = False
        for z in f.all_insts():
            if z.op == "store" and strip_casts(f, z.ops[0]).get("k") == "null" and f.inst_postdominates(z, s) and f.inst_dominates(s, z):
                zp = resolve_addr(f, z.ops[1])
                zb = loaded_from(f, zp.root[1]) if zp.root[0] == "val" else None
                if zb is not None and zb.last_field() == "yaep_anode.children" and zp.steps and zp.steps[-1][0] in ("idx", "ptr") and _e.lin(f, zp.steps[-1][1], 0, 1) == src_ix:
                    cleared = True
        key = "free_tree_reduce/child-move#%d" % n
        if cleared:
            rep.ok("R11-move", key, sample={"copy": s.where()})
        else:
            rep.violation("R11-move", key, "a child pointer is copied to another slot and stays in its old slot too: after the reduction the node has the child twice, "
                          "free_tree_sweep releases it (and calls the terminal callback for its TERM nodes) twice", where=s.where(), witness=[s.where()])
    rep.floor("R11-move", "child moves in free_tree_reduce", n, 1)


def rule_alt_relink(ctx, rep, config="c-lib"):
    rep.rule("R13-relink", "prune_to_minimal rebuilds the list of minimal alternatives: an alternative's `next' receives NULL or the list kept so far (the loop-carried "
                           "variable that accumulates the kept alternatives and is returned), never the original list")
    p = ctx.prog(config)
    f = p.fn("prune_to_minimal")
    rep.cover(p, [f.name])
    stores = [s for s in f.all_insts() if s.op == "store" and (resolve_addr(f, s.ops[1]).last_field() or "").endswith("yaep_alt.next")]
    if len(stores) < 2:
        raise AnalysisBroken("R13-relink: %d stores to alt.next in prune_to_minimal" % len(stores))
    # the accumulator: a loop-header phi one of whose incoming values is the current alternative
    L = None
    for L_ in f.loops():
        if all(s.block.name in L_["body"] for s in stores):
            L = L_ if (L is None or len(L_["body"]) < len(L["body"])) else L
    if L is None:
        raise AnalysisBroken("R13-relink: the stores to alt.next are not in one loop")
    alt_vars = set()
    for s in stores:
        pa = resolve_addr(f, s.ops[1])
        if pa.root[0] == "val":
            vk = _var_of(f, pa.root[1])
            if vk is not None:
                alt_vars.add(vk)
    acc = set()
    for bn in L["body"]:
        for ph in f.bmap[bn].insts:
            if ph.op != "phi":
                continue
            for (v, _) in ph.d["incoming"]:
                vk = _var_of(f, v)
                if vk is not None and vk in alt_vars and ("ssa", ph.id) not in alt_vars:
                    acc.add(ph.id)
    # closure over phis of phis
    changed = True
    while changed:
        changed = False
        for bn in L["body"]:
            for ph in f.bmap[bn].insts:
                if ph.op == "phi" and ph.id not in acc and any(strip_casts(f, v).get("v") in acc for (v, _) in ph.d["incoming"]):
                    acc.add(ph.id)
                    changed = True
    n = 0
    for s in stores:
        n += 1
        key = "prune_to_minimal/alt.next#%d" % n
        v = strip_casts(f, s.ops[0])
        if v.get("k") == "null" or v.get("v") in acc:
            rep.ok("R13-relink", key, sample={"store": s.where()})
        else:
            rep.violation("R13-relink", key, "an alternative kept by the pruning is linked to something else than the list of alternatives kept so far: alternatives that were "
                          "dropped come back into the result, kept ones in between are lost", where=s.where(), witness=[s.where()])


def rule_marks_final(ctx, rep, config="c-lib"):
    rep.rule("R13-marks-final", "make_parse decides the release of the single NIL / ERROR node by their `used' mark: the test comes after everything that can change "
                                "the mark -- no store to the mark and no call of a function that (transitively) stores to it is reachable from the test (the costing pass "
                                "clears the mark of a node that is only in dropped alternatives and relies on this release)")
    from .r14 import path_exists
    p = ctx.prog(config)
    g = p.fn("make_parse")
    rep.cover(p, [g.name])
    writers = {}
    for f in p.m.defined():
        for s in f.all_insts():
            if s.op == "store":
                lf = resolve_addr(f, s.ops[1]).last_field()
                if lf in ("yaep_nil.used", "yaep_error.used"):
                    writers.setdefault(lf, set()).add(f.name)
    n = 0
    for l in g.all_insts():
        if l.op != "load":
            continue
        lf = resolve_addr(g, l.ops[0]).last_field()
        if lf not in ("yaep_nil.used", "yaep_error.used"):
            continue
        # the load decides a release: a branch on it controls a call through parse_free
        uses = [u for u in g.uses().get(l.id, []) if u.op == "icmp"]
        if not uses:
            continue
        n += 1
        key = "make_parse/%s-test-is-final" % lf.split(".")[0][5:]
        bad = None
        for s in g.all_insts():
            if s.op == "store" and resolve_addr(g, s.ops[1]).last_field() == lf and path_exists(g, l, s, []):
                bad = (s, "the mark is stored at %s" % s.where())
        for c in g.calls():
            if bad:
                break
            tg = set()
            for t in p.call_targets(g, c):
                tg |= set(p.reach(t)) | set([t])
            w = tg & writers.get(lf, set())
            if w and path_exists(g, l, c, []):
                bad = (c, "%s (which reaches %s) is called" % (c.callee or "a function", ", ".join(sorted(w))))
        if bad:
            rep.violation("R13-marks-final", key, "the release of the single %s node is decided at %s, but afterwards %s and can change the mark: a node that the costing "
                          "pass drops from the tree is never released (or a node marked later is released while the tree refers to it)" % (
                              "NIL" if "nil" in lf else "ERROR", l.where(), bad[1]), where=bad[0].where(), witness=[l.where(), bad[0].where()])
        else:
            rep.ok("R13-marks-final", key, sample={"test": l.where(), "writers": sorted(writers.get(lf, []))})
    rep.floor("R13-marks-final", "release tests of the single nodes", n, 2)


def rule_min_cost_domain(ctx, rep, config="c-lib"):
    rep.rule("R13-mincost", "prune_to_minimal keeps the minimal cost of the alternatives seen so far in a variable that is compared with costs only: no comparison of "
                            "it with a constant (every value, 0 included, is a legal cost -- a sentinel inside the cost domain makes an alternative of that cost look like "
                            "`none seen yet'); the first alternative is recognised by its identity")
    p = ctx.prog(config)
    f = p.fn("prune_to_minimal")
    rep.cover(p, [f.name])

    def is_cost_load(op):
        i = f.inst(_strip_int(f, op))
        return i is not None and i.op == "load" and resolve_addr(f, i.ops[0]).root == ("a", 1) and not resolve_addr(f, i.ops[0]).steps

    mins = set()
    for c in f.all_insts():
        if c.op != "icmp":
            continue
        for (x, y) in ((0, 1), (1, 0)):
            if is_cost_load(c.ops[x]):
                o = f.inst(_strip_int(f, c.ops[y]))
                if o is not None and o.op == "phi":
                    mins.add(o.id)
    if not mins:
        raise AnalysisBroken("R13-mincost: no comparison of the running minimum with *cost found in prune_to_minimal")
    n = 0
    for m in sorted(mins):
        for c in f.uses().get(m, []):
            if c.op != "icmp":
                continue
            n += 1
            other = c.ops[1] if _strip_int(f, c.ops[0]).get("v") == m else c.ops[0]
            key = "prune_to_minimal/minimum-compared-with-costs#%d" % n
            if const_int(other) is not None:
                rep.violation("R13-mincost", key, "the running minimum is compared with the constant %d: an alternative whose cost is %d is taken for `no alternative seen "
                              "yet' and replaced by the next one whatever that costs (the tree kept is not minimal; ties at that cost are dropped)" % (
                                  const_int(other), const_int(other)), where=c.where(), witness=[c.where()])
            else:
                rep.ok("R13-mincost", key, sample={"compare": c.where()})
    rep.floor("R13-mincost", "comparisons of the running minimum", n, 2)


def _strip_int(f, op):
    from ..model import strip_int_casts
    return strip_int_casts(f, op)


def rule_single_release_conditions(ctx, rep, config="c-lib"):
    rep.rule("R13-single-release", "the single NIL and ERROR nodes are allocated in every parse; their release when unused depends on nothing but `a release function was "
                                   "given' and the `used' mark: no other condition on persistent state (grammar settings) controls it (otherwise the block leaks in the "
                                   "parses where the condition is false)")
    from .c10 import site_conditions
    from .r25 import _persistent
    p = ctx.prog(config)
    g = p.fn("make_parse")
    rep.cover(p, [g.name])
    singles = {}
    for s in g.all_insts():
        if s.op == "store" and resolve_addr(g, s.ops[1]).last_field() == "yaep_tree_node.type" and const_int(s.ops[0]) in (0, 1):
            pa = resolve_addr(g, s.ops[1])
            if pa.root[0] == "val":
                singles[const_int(s.ops[0])] = (strip_casts(g, pa.root[1]), s)
    n = 0
    for tv, (x, born) in sorted(singles.items()):
        name = "NIL" if tv == 0 else "ERROR"
        al = cast_aliases(g, x)
        rel = [c for c in g.calls() if not c.callee and via_global(g, c, "parse_free") and c.args and strip_casts(g, c.args[0]).get("v") in al]
        if not rel:
            raise AnalysisBroken("R13-single-release: make_parse does not release the unused %s node" % name)
        kb = _persistent(site_conditions(p, g, born))
        for c in rel:
            n += 1
            key = "make_parse/release-of-unused-%s#%d" % (name, n)
            kr = set(k for k in _persistent(site_conditions(p, g, c)) if "parse_free" not in k)
            extra = kr - kb
            if extra:
                rep.violation("R13-single-release", key, "the unused %s node is released only when %s, but it is allocated in every parse: in the other parses the block "
                              "obtained from the caller's parse_alloc is never handed to parse_free" % (name, " and ".join(sorted(extra))), where=c.where(),
                              witness=[born.where(), c.where()])
            else:
                rep.ok("R13-single-release", key, sample={"release": c.where()})
    rep.floor("R13-single-release", "releases of the unused single nodes", n, 2)


def rule_free_tree_null(ctx, rep, config="c-lib"):
    rep.rule("T4-null-root", "yaep_free_tree (NULL, ..) is a no-op: every call in yaep_free_tree that hands `root' to a function which dereferences that parameter without "
                             "testing it is controlled by root != NULL (a recovery-off parse of a wrong input returns 0 with a NULL root, and callers free what they got)")
    p = ctx.prog(config)
    f = p.fn("yaep_free_tree")
    rep.cover(p, [f.name])

    def needs_nonnull(g, k):
        for i in g.all_insts():
            if i.op not in ("load", "store"):
                continue
            pa = resolve_addr(g, i.ops[1] if i.op == "store" else i.ops[0])
            if pa.root != ("a", k) or not pa.steps:
                continue
            guarded = False
            for (cc, pol) in _controlling_conditions(g, i.block.name):
                if strip_casts(g, cc.ops[0]) == {"k": "a", "v": k} and strip_casts(g, cc.ops[1]).get("k") == "null" and (cc.d["pred"] == "ne") == pol:
                    guarded = True
            if not guarded:
                return i
        return None
    n = 0
    for c in f.calls():
        if not c.callee or c.callee not in p.m.functions or p.m.functions[c.callee].decl:
            continue
        for k, a in enumerate(c.args):
            if strip_casts(f, a) != {"k": "a", "v": 0}:
                continue
            d = needs_nonnull(p.m.functions[c.callee], k)
            if d is None:
                continue
            n += 1
            key = "yaep_free_tree/%s-gets-non-null-root" % c.callee
            ok = any(strip_casts(f, cc.ops[0]) == {"k": "a", "v": 0} and strip_casts(f, cc.ops[1]).get("k") == "null" and (cc.d["pred"] == "ne") == pol
                     for (cc, pol) in _controlling_conditions(f, c.block.name))
            if ok:
                rep.ok("T4-null-root", key, sample={"call": c.where()})
            else:
                rep.violation("T4-null-root", key, "%s dereferences its node (%s) and is called with `root' without a test against NULL: yaep_free_tree (NULL, ..) -- the "
                              "documented no-op, and what a caller does with the NULL root of a recovery-off parse -- crashes" % (c.callee, d.where()),
                              where=c.where(), witness=[c.where(), d.where()])
    rep.floor("T4-null-root", "calls of yaep_free_tree that need a non-null root", n, 1)


def rule_unmark_unreserved(ctx, rep, config="c-lib"):
    rep.rule("R13-unmark", "after the costing pass find_minimal_translation clears the `used' mark of a single NIL / ERROR node only when the node is not part of the kept "
                           "translation: every store of 0 into a `used' mark there is controlled by the reservation lookup of that node having found nothing (the "
                           "traversal of the kept translation reserved every node that stays) -- otherwise make_parse releases a node the returned tree refers to")
    p = ctx.prog(config)
    f = p.fn("find_minimal_translation")
    rep.cover(p, [f.name])
    lookups = [c for c in f.calls() if c.callee == "find_hash_table_entry" or ((p.m.functions.get(c.callee or "") is not None)
                                                                              and p.m.functions[c.callee].d.get("srcname") == "find_entry")]
    n = 0
    for s_ in f.all_insts():
        if s_.op != "store" or const_int(s_.ops[0]) != 0:
            continue
        lf = resolve_addr(f, s_.ops[1]).last_field()
        if lf not in ("yaep_nil.used", "yaep_error.used"):
            continue
        n += 1
        key = "find_minimal_translation/unmark-%s#%d" % (lf.split(".")[0][5:], n)
        ok = False
        for (cc, pol) in _controlling_conditions(f, s_.block.name):
            if cc.d["pred"] not in ("eq", "ne") or not any(strip_casts(f, o).get("k") == "null" for o in cc.ops):
                continue
            for o in cc.ops:
                l_ = f.inst(strip_casts(f, o))
                if l_ is not None and l_.op == "load":
                    src = f.inst(strip_casts(f, l_.ops[0]))
                    while src is not None and src.op == "bitcast":
                        src = f.inst(strip_casts(f, src.ops[0]))
                    if src is not None and any(src is c for c in lookups) and (cc.d["pred"] == "eq") == pol:
                        ok = True
        if ok:
            rep.ok("R13-unmark", key, sample={"store": s_.where()})
        else:
            rep.violation("R13-unmark", key, "the `used' mark of the single %s node is cleared without the test that the node was not reserved by the traversal of the kept "
                          "translation: when the node is in the minimal translation make_parse releases it although the tree returned refers to it (and "
                          "yaep_free_tree releases it again)" % ("NIL" if "nil" in lf else "ERROR"), where=s_.where(), witness=[s_.where()])
    rep.floor("R13-unmark", "clearings of a `used' mark after the costing pass", n, 2)


def rule_inband_name_mark(ctx, rep, config="c-lib"):
    rep.rule("R13-inband", "yaep_free_tree finds out whether the name shared by the nodes of a rule was met before by an in-band mark: free_tree_reduce tests name[0] == 0 "
                           "(`seen': the pointer is dropped, the block is left to the node that met it first) and otherwise clears name[0].  The mark is sound only if "
                           "a name never starts out with that value: the definition functions refuse (or never produce) an abstract node name whose first byte is 0 -- "
                           "with an empty name every node takes the name for seen, nobody releases the 1-byte block")
    p = ctx.prog(config)
    f = p.fn("free_tree_reduce")
    rep.cover(p, [f.name, "yaep_read_grammar"])
    mark = None
    for s_ in f.all_insts():
        if s_.op == "store" and s_.ops[0].get("k") in ("c", "ci", "int") or (s_.op == "store" and const_int(s_.ops[0]) is not None):
            if s_.op == "store" and const_int(s_.ops[0]) == 0:
                a = resolve_addr(f, s_.ops[1])
                if a.root[0] == "val":
                    lp = loaded_from(f, a.root[1])
                    if lp is not None and (lp.last_field() or "").endswith("name"):
                        mark = s_
    test = None
    for c in f.all_insts():
        if c.op == "icmp" and c.d["pred"] in ("eq", "ne") and const_int(c.ops[1]) == 0:
            l_ = f.inst(strip_casts(f, c.ops[0]))
            while l_ is not None and l_.op in ("sext", "zext"):
                l_ = f.inst(strip_casts(f, l_.ops[0]))
            if l_ is not None and l_.op == "load" and l_.ty == "i8":
                a = resolve_addr(f, l_.ops[0])
                if a.root[0] == "val":
                    lp = loaded_from(f, a.root[1])
                    if lp is not None and (lp.last_field() or "").endswith("name"):
                        test = c
    if mark is None or test is None:
        raise AnalysisBroken("R13-inband: the name mark of free_tree_reduce (test of name[0], store of 0 into name[0]) was not found")
    # the definition side: a test of the first byte of the abstract node name the callback delivered
    guard = None
    for gname in ("yaep_read_grammar", "rule_new_start"):
        g = p.m.functions.get(gname)
        if g is None or g.decl:
            continue
        for c in g.all_insts():
            if c.op != "icmp" or c.d["pred"] not in ("eq", "ne") or const_int(c.ops[1]) != 0:
                continue
            l_ = g.inst(strip_casts(g, c.ops[0]))
            while l_ is not None and l_.op in ("sext", "zext"):
                l_ = g.inst(strip_casts(g, l_.ops[0]))
            if l_ is None or l_.op != "load" or l_.ty != "i8":
                continue
            from .c10 import _lin as _named
            txt = repr(_named(g, c.ops[0]))
            # the abstract node name: the second result of the read_rule callback (or the parameter that carries it)
            if "out1(read_rule)" in txt or "anode" in txt:
                guard = c
    key = "free_tree_reduce/name-mark-outside-the-names"
    if guard is not None:
        rep.ok("R13-inband", key, sample={"mark": mark.where(), "names_checked_at": guard.where()})
    else:
        rep.violation("R13-inband", key, "free_tree_reduce takes name[0] == 0 for `this name was met before', and nothing keeps an abstract node name from being empty: "
                      "for a rule whose abstract node is named `'' (the empty string, possible through the callbacks of yaep_read_grammar) no node releases the name -- one "
                      "parse_alloc block of 1 byte per such rule stays allocated after yaep_free_tree", where=test.where(), witness=[test.where(), mark.where()])
