"""R4b -- the description lexer never reads past the terminating NUL.

Abstract interpretation of yaep_yylex over the cursor `curr_ch'.  Domain per path:
  ahead  0 : the cursor points at a byte of the text (possibly the NUL) -> may be read
         1 : the cursor is one past a byte that was read; `pend' names that byte
             (the SSA pointer it was read through) or ZERO if it is known to be NUL
  nz     : bytes (by name) known to be non-zero on this path
A read through a cursor value taken in state (1, b) is an out-of-bounds read on some
NUL-terminated text unless b is known non-zero.  Branches on comparisons of a read
byte with constants and `switch' refine the state; `curr_ch--' undoes one step.
Infeasible edges are pruned only by constant folding of SSA values (n_errs).
"""
from ..model import resolve_addr, strip_casts, const_int
from ..core import AnalysisBroken



def fold(f, op, memo=None, depth=0):
    """constant value of an SSA operand if it folds, else None"""
    if memo is None:
        memo = {}
    c = const_int(op)
    if c is not None:
        return c
    if op.get("k") != "i" or depth > 20:
        return None
    vid = op["v"]
    if vid in memo:
        return memo[vid]
    memo[vid] = None
    i = f.insts.get(vid)
    r = None
    if i is None:
        return None
    if i.op == "phi":
        vals = set()
        ok = True
        for (iv, pb) in i.d["incoming"]:
            if not f.reachable(pb) or i.block.name not in f.bmap[pb].succs:
                continue
            if iv.get("k") == "i" and iv["v"] == vid:
                continue
            v = fold(f, iv, memo, depth + 1)
            if v is None:
                # an increment of the phi itself that is only live on cut paths was removed above;
                ok = False
                break
            vals.add(v)
        if ok and len(vals) == 1:
            r = vals.pop()
    elif i.op in ("sext", "zext", "trunc"):
        r = fold(f, i.ops[0], memo, depth + 1)
    elif i.op == "icmp":
        a, b = fold(f, i.ops[0], memo, depth + 1), fold(f, i.ops[1], memo, depth + 1)
        if a is not None and b is not None:
            r = int({"eq": a == b, "ne": a != b, "slt": a < b, "sle": a <= b, "sgt": a > b, "sge": a >= b}.get(i.d["pred"], None) or 0) \
                if i.d["pred"] in ("eq", "ne", "slt", "sle", "sgt", "sge") else None
    elif i.op == "add":
        a, b = fold(f, i.ops[0], memo, depth + 1), fold(f, i.ops[1], memo, depth + 1)
        if a is not None and b is not None:
            r = a + b
    memo[vid] = r
    return r


class LexState(object):
    """ahead/pend as described above; nz / z: byte names known non-zero / zero"""
    __slots__ = ("ahead", "pend", "nz", "z")

    def __init__(self, ahead=0, pend=None, nz=frozenset(), z=frozenset()):
        self.ahead, self.pend, self.nz, self.z = ahead, pend, frozenset(nz), frozenset(z)

    def safe(self):
        return self.ahead <= 0 or (self.ahead == 1 and self.pend is not None and self.pend in self.nz)

    def eff(self):
        return 0 if (self.ahead == 1 and self.pend in self.nz) else self.ahead

    def key(self):
        return (self.ahead, self.pend, self.nz, self.z)

    def __eq__(self, o):
        return o is not None and self.key() == o.key()

    def __ne__(self, o):
        return not self.__eq__(o)

    def __repr__(self):
        return "(ahead=%s pend=%s%s)" % (self.ahead, self.pend, " known-NUL" if self.pend in self.z else (" non-NUL" if self.pend in self.nz else ""))


def join(a, b):
    if a is None:
        return b
    if b is None:
        return a
    if a == b:
        return a
    nz = a.nz & b.nz
    z = a.z & b.z
    if a.ahead == b.ahead and a.pend == b.pend:
        return LexState(a.ahead, a.pend, nz, z)
    if a.safe() and b.safe():
        return LexState(min(a.eff(), b.eff()), None, nz, z)
    worst = max(a.eff(), b.eff())
    return LexState(max(worst, 1), "?", nz, z)


def lexer_globals(p):
    """(cursor, line counter): the file-scope variables of the description scanner, found by their role -- the cursor is the char pointer that yaep_yylex steps
    by one (`p = p +/- 1' stored back into p), the line counter the integer it increments by one and yaep_yyerror hands to yaep_error"""
    from ..model import loaded_from, strip_int_casts
    f = p.fn("yaep_yylex")
    cur, ln = {}, {}
    for s_ in f.all_insts():
        if s_.op != "store":
            continue
        pa = resolve_addr(f, s_.ops[1])
        if pa.root[0] != "g" or pa.steps:
            continue
        v = f.inst(strip_casts(f, s_.ops[0]))
        if v is not None and v.op == "getelementptr" and len(v.d["path"]) == 1 and "ptr" in v.d["path"][0] and const_int(v.d["path"][0]["ptr"]) in (1, -1):
            lp = loaded_from(f, v.d["base"])
            if lp is not None and lp.root == pa.root and not lp.steps:
                cur[pa.root[1]] = cur.get(pa.root[1], 0) + 1
        v2 = f.inst(strip_int_casts(f, s_.ops[0]))
        if v2 is not None and v2.op == "add" and const_int(v2.ops[1]) == 1:
            lp = loaded_from(f, v2.ops[0])
            if lp is not None and lp.root == pa.root and not lp.steps:
                ln[pa.root[1]] = ln.get(pa.root[1], 0) + 1
    ye = p.m.functions.get("yaep_yyerror")
    if ye is not None and not ye.decl:
        used = set()
        for c in ye.calls():
            for a in c.args:
                lp = loaded_from(ye, a)
                if lp is not None and lp.root[0] == "g" and not lp.steps:
                    used.add(lp.root[1])
        ln = dict((k, v) for k, v in ln.items() if k in used) or ln
    if not cur or not ln:
        raise AnalysisBroken("the cursor / line counter of the description scanner were not found (a pointer stepped by one, an integer incremented by one)")
    return max(cur, key=cur.get), max(ln, key=ln.get)


def rule_R4b(ctx, rep, config="c-lib"):
    rep.rule("R4b", "abstract interpretation of the description lexer: every read through the cursor curr_ch happens while the cursor is known to point inside the "
                    "NUL-terminated text; a token other than end-of-input is never returned with the cursor beyond the terminator")
    p = ctx.prog(config)
    f = p.fn("yaep_yylex")
    rep.cover(p, ["yaep_yylex"])
    CUR = lexer_globals(p)[0]
    from ..sccp import sccp
    feasible, _vals = sccp(f)

    def is_cursor_load(i):
        if i is None or i.op != "load":
            return False
        pa = resolve_addr(f, i.ops[0])
        return pa.root == ("g", CUR) and not pa.steps

    # two loads of the cursor without a store to it in between denote the same position: the later one is an alias of the earlier
    # (a peek `*curr_ch == x' followed by `curr_ch++' tests and skips the same byte)
    from .r14 import path_exists
    cur_loads = [i for i in f.all_insts() if is_cursor_load(i)]
    cur_stores = [i for i in f.all_insts() if i.op == "store" and resolve_addr(f, i.ops[1]).root == ("g", CUR) and not resolve_addr(f, i.ops[1]).steps]
    canon = {}
    for l2 in cur_loads:
        best = None
        for l1 in cur_loads:
            if l1 is l2 or not f.inst_dominates(l1, l2) or l1.id in canon:
                continue
            if any(path_exists(f, l1, s_, []) and path_exists(f, s_, l2, [l1]) for s_ in cur_stores):
                continue
            if best is None or f.inst_dominates(l1, best):
                best = l1
        if best is not None:
            canon[l2.id] = canon.get(best.id, best.id)

    def cn(x):
        return canon.get(x, x)
    # local cursors: pointer values made from the cursor by +/- 1 steps and merges (`const char *next = curr_ch; ... next++; ... curr_ch = next;')
    CZ = set(l.id for l in cur_loads)
    grow = True
    while grow:
        grow = False
        for i in f.all_insts():
            if i.id in CZ:
                continue
            if i.op == "getelementptr" and len(i.d["path"]) == 1 and "ptr" in i.d["path"][0] and const_int(i.d["path"][0]["ptr"]) in (1, -1) \
                    and strip_casts(f, i.d["base"]).get("v") in CZ:
                CZ.add(i.id)
                grow = True
            elif i.op == "phi" and i.ty == "i8*" and all(_cursorish(f, v, i.id, CZ) for (v, _) in i.d["incoming"]) \
                    and any(strip_casts(f, v).get("v") in CZ for (v, _) in i.d["incoming"]):
                CZ.add(i.id)
                grow = True
    LOCAL_PHIS = set(x for x in CZ if f.insts[x].op == "phi")
    # byte symbols: value of `load i8 P' (P = a load of curr_ch, or a local cursor) is named by P's SSA id
    byte_of = {}
    for i in f.all_insts():
        if i.op == "load" and i.ty == "i8":
            pi = f.inst(strip_casts(f, i.ops[0]))
            if is_cursor_load(pi):
                byte_of[i.id] = cn(pi.id)
            elif pi is not None and pi.id in CZ:
                byte_of[i.id] = pi.id
    changed = True
    while changed:
        changed = False
        for i in f.all_insts():
            if i.id in byte_of:
                continue
            if i.op in ("sext", "zext"):
                o = i.ops[0]
                if o.get("k") == "i" and o["v"] in byte_of:
                    byte_of[i.id] = byte_of[o["v"]]
                    changed = True
            elif i.op == "phi":
                ins = [iv for (iv, pb) in i.d["incoming"] if (pb, i.block.name) in feasible]
                if ins and all(iv.get("k") == "i" and (iv["v"] in byte_of or iv["v"] == i.id) for iv in ins):
                    byte_of[i.id] = ("phi", i.id)
                    changed = True
        # a byte forwarded through a global (yylval.num = *curr_ch++; ... yylval.num) inside one block
        for b in f.rblocks():
            last = {}
            for i in b.insts:
                if i.op == "store":
                    pa = resolve_addr(f, i.ops[1])
                    if pa.root[0] == "g":
                        last[(pa.root[1], tuple(s[1] for s in pa.steps if s[0] == "f"))] = i.ops[0]
                elif i.op == "load" and i.id not in byte_of:
                    pa = resolve_addr(f, i.ops[0])
                    if pa.root[0] == "g":
                        v = last.get((pa.root[1], tuple(s[1] for s in pa.steps if s[0] == "f")))
                        if v is not None and v.get("k") == "i" and v["v"] in byte_of:
                            byte_of[i.id] = byte_of[v["v"]]
                            changed = True
                elif i.is_call():
                    last = {}

    def sym_of(op):
        if op is not None and op.get("k") == "i":
            return byte_of.get(op["v"])
        return None

    def through_phis(b, pred, e):
        """rename the pending byte when a phi of block b merges it"""
        for i in b.insts:
            if i.op != "phi":
                break
            ps = byte_of.get(i.id)
            if ps is None or not isinstance(ps, tuple):
                continue
            for (iv, pb) in i.d["incoming"]:
                if pb != pred:
                    continue
                sv = sym_of(iv)
                if sv is None:
                    continue
                nz, z = set(e.nz), set(e.z)
                nz.discard(ps)
                z.discard(ps)
                if sv in e.nz:
                    nz.add(ps)
                if sv in e.z:
                    z.add(ps)
                pend = ps if e.pend == sv else ("?" if e.pend == ps else e.pend)
                e = LexState(e.ahead, pend, nz, z)
        return e

    def cond_states(cur, cop):
        """(state if cop is true, state if false)"""
        c = f.inst(cop)
        if c is not None and c.op == "icmp" and c.d["pred"] in ("eq", "ne"):
            for (x, y) in ((c.ops[0], c.ops[1]), (c.ops[1], c.ops[0])):
                sy = sym_of(x)
                k = const_int(y)
                if sy is not None and k is not None:
                    eq_state = _assume(cur, sy, k == 0, k != 0)
                    ne_state = _assume(cur, sy, False, k == 0)
                    return (eq_state, ne_state) if c.d["pred"] == "eq" else (ne_state, eq_state)
        return cur, cur

    viol = {}
    IN = {b.name: None for b in f.rblocks()}
    EDGE = {}
    snap = {}
    work = True
    rounds = 0
    while work:
        work = False
        rounds += 1
        if rounds > 300:
            raise AnalysisBroken("lexer analysis does not converge")
        for b in f.rblocks():
            if b is f.entry:
                s = LexState()
            else:
                s = None
                for pn in set(b.preds):
                    e = EDGE.get((pn, b.name))
                    if e is not None:
                        s = join(s, through_phis(b, pn, e))
                if s is None:
                    continue
            cur = s
            for i in b.insts:
                if i.op == "phi" and i.id in LOCAL_PHIS:
                    # the position of a local cursor after a merge: every incoming position, made anonymous with what is known on its edge
                    acc = None
                    raw = []
                    for (iv, pb) in i.d["incoming"]:
                        e = EDGE.get((pb, b.name))
                        sv = snap.get(strip_casts(f, iv).get("v"))
                        if e is None or sv is None:
                            continue
                        raw.append((sv.ahead, sv.pend))
                        st = LexState(sv.ahead, sv.pend, sv.nz | e.nz, sv.z | e.z)
                        st = LexState(st.eff(), None) if st.safe() else LexState(max(st.ahead, 1), "?")
                        acc = join(acc, st)
                    if raw and len(set(raw)) == 1 and raw[0][1] not in (i.id, "?"):
                        # the same position on every way in (one step behind the same byte): what is known about that byte stays with the path
                        snap[i.id] = LexState(raw[0][0], raw[0][1])
                    elif acc is not None:
                        snap[i.id] = acc
                    # the merged pointer denotes a new position: what was known about the byte read through its previous value is forgotten
                    cur = LexState(cur.ahead, None if cur.pend == i.id else cur.pend, cur.nz - {i.id}, cur.z - {i.id}) if cur.pend != i.id or cur.safe() \
                        else LexState(max(cur.ahead, 1), "?", cur.nz - {i.id}, cur.z - {i.id})
                    continue
                if i.op == "getelementptr" and i.id in CZ:
                    src = f.inst(strip_casts(f, i.d["base"]))
                    if src is not None and src.id in snap:
                        snap[i.id] = _step(snap[src.id], cur, const_int(i.d["path"][0]["ptr"]), cn(src.id), src.id in canon or src.id in LOCAL_PHIS)
                    continue
                if i.op == "load":
                    if is_cursor_load(i) and i.id in canon:
                        snap[i.id] = cur      # same position as an earlier load: no new byte
                    elif is_cursor_load(i):
                        if i.id in cur.nz or i.id in cur.z or cur.pend == i.id:
                            # the same static read in a new iteration denotes a new byte
                            if cur.pend == i.id:
                                cur = LexState(0, None, cur.nz - {i.id}, cur.z - {i.id}) if cur.safe() else LexState(max(cur.ahead, 1), "?", cur.nz - {i.id}, cur.z - {i.id})
                            else:
                                cur = LexState(cur.ahead, cur.pend, cur.nz - {i.id}, cur.z - {i.id})
                        snap[i.id] = cur
                    elif i.ty == "i8":
                        bi = f.inst(strip_casts(f, i.ops[0]))
                        if bi is not None and bi.id in snap:
                            st = snap[bi.id]
                            st = LexState(st.ahead, st.pend, st.nz | cur.nz, st.z)
                            if not st.safe():
                                viol[i.id] = (i, st)
                            else:
                                viol.pop(i.id, None)
                elif i.op == "store":
                    pa = resolve_addr(f, i.ops[1])
                    if pa.root == ("g", CUR) and not pa.steps:
                        vi = f.inst(strip_casts(f, i.ops[0]))
                        delta, src = None, None
                        if vi is not None and vi.op == "getelementptr" and len(vi.d["path"]) == 1 and "ptr" in vi.d["path"][0]:
                            delta = const_int(vi.d["path"][0]["ptr"])
                            src = f.inst(strip_casts(f, vi.d["base"]))
                        if vi is not None and vi.id in LOCAL_PHIS and vi.id in snap:
                            # curr_ch = <local cursor>: the cursor takes the local cursor's position
                            st = snap[vi.id]
                            cur = LexState(st.ahead, st.pend, st.nz | cur.nz, st.z | cur.z)
                            continue
                        if delta not in (1, -1) or src is None or src.id not in snap:
                            raise AnalysisBroken("curr_ch is assigned a value that is not curr_ch +/- 1 at %s" % i.where())
                        st = snap[src.id]
                        st = LexState(st.ahead, st.pend, st.nz | cur.nz, st.z | cur.z)
                        a = st.eff()
                        if delta == 1:
                            if a < 0:
                                cur = LexState(a + 1, None, st.nz, st.z)
                            elif a == 0 and (src.id in canon or src.id in LOCAL_PHIS):
                                cur = LexState(1, cn(src.id), st.nz, st.z)      # what is known about the byte peeked at stays
                            elif a == 0:
                                cur = LexState(1, src.id, st.nz - {src.id}, st.z - {src.id})
                            else:
                                cur = LexState(2, "?", st.nz, st.z)
                        else:
                            if a >= 2:
                                cur = LexState(a - 1, "?", st.nz, st.z)
                            elif a == 1:
                                cur = LexState(0, None, st.nz, st.z)
                            else:
                                cur = LexState(a - 1, None, st.nz, st.z)
            t = b.term
            outs = {}
            cphi = f.inst(t.ops[0]) if (t is not None and t.op == "br" and len(t.ops) == 3) else None
            if cphi is not None and cphi.op == "phi" and cphi.block is b and all(x.op in ("phi", "br") for x in b.insts):
                # short-circuit value merged by a phi: route each predecessor's state by its incoming value
                td, fd = t.ops[2]["v"], t.ops[1]["v"]
                for (iv, pb) in cphi.d["incoming"]:
                    e = EDGE.get((pb, b.name))
                    if e is None:
                        continue
                    e = through_phis(b, pb, e)
                    k = const_int(iv)
                    st_t, st_f = cond_states(e, iv) if k is None else (e, e)
                    if k is None or k != 0:
                        outs[td] = join(outs.get(td), st_t)
                    if k is None or k == 0:
                        outs[fd] = join(outs.get(fd), st_f)
            elif t is not None and t.op == "br" and len(t.ops) == 3:
                td, fd = t.ops[2]["v"], t.ops[1]["v"]
                st_t, st_f = cond_states(cur, t.ops[0])
                outs[td] = join(outs.get(td), st_t)
                outs[fd] = join(outs.get(fd), st_f)
            elif t is not None and t.op == "switch":
                sy = sym_of(t.d["cond"])
                cases = t.d["cases"]
                has0 = any(v == 0 for (v, _) in cases)
                for (v, dest) in cases:
                    outs[dest] = join(outs.get(dest), _assume(cur, sy, v == 0, v != 0))
                outs[t.d["default"]] = join(outs.get(t.d["default"]), _assume(cur, sy, False, has0))
            else:
                for sn in b.succs:
                    outs[sn] = cur
                if t is not None and t.op == "ret":
                    outs[None] = cur
            for sn in list(outs):
                if sn is not None and (b.name, sn) not in feasible:
                    outs[sn] = None      # infeasible for every input (SCCP)
            if IN[b.name] != s:
                IN[b.name] = s
                work = True
            for sn, st in outs.items():
                if EDGE.get((b.name, sn)) != st:
                    EDGE[(b.name, sn)] = st
                    work = True
    allreads = [i for i in f.all_insts() if i.op == "load" and i.ty == "i8" and (is_cursor_load(f.inst(strip_casts(f, i.ops[0])))
                                                                                 or strip_casts(f, i.ops[0]).get("v") in CZ)]
    k = 0
    for i in allreads:
        k += 1
        key = "yaep_yylex/read#%d" % k
        if i.id in viol:
            st = viol[i.id][1]
            prev = f.insts.get(st.pend) if isinstance(st.pend, int) else None
            rep.violation("R4b", key, "the lexer reads the byte behind one that may have been the terminating NUL: out-of-bounds read for a description that ends there",
                          witness=["read at " + i.where()] + (["the previous byte, read through the cursor taken at " + prev.where() + ", is not tested against NUL"] if prev else []),
                          where=i.where())
        else:
            rep.ok("R4b", key, sample={"read": i.where()})
    for b in f.ret_blocks():
        t = b.term
        vals = []
        v = t.ops[0]
        vi = f.inst(v)
        if vi is not None and vi.op == "phi" and vi.block is b:
            for (iv, pb) in vi.d["incoming"]:
                if EDGE.get((pb, b.name)) is not None:
                    vals.append((iv, EDGE[(pb, b.name)], pb))
        elif EDGE.get((b.name, None)) is not None:
            vals.append((v, EDGE[(b.name, None)], b.name))
        for (iv, s, pb) in vals:
            c = const_int(iv)
            key = "yaep_yylex/return-from-%s" % pb
            if not s.safe() and c != 0:
                rep.violation("R4b", key, "a token is returned while the cursor may be beyond the terminating NUL: the next call reads out of bounds", where=t.where(),
                              witness=["return edge from block %s in state %r" % (pb, s)])
            else:
                rep.ok("R4b", key, nontrivial=False)
    rep.floor("R4b", "reads through the lexer cursor", len(allreads), 8)
    rep.assume("the bison skeleton does not call yylex again after it returned 0 (end of input)")


def _assume(cur, sym, is_zero, is_nonzero):
    if sym is None:
        return cur
    if is_nonzero:
        return LexState(cur.ahead, cur.pend, cur.nz | {sym}, cur.z)
    if is_zero:
        return LexState(cur.ahead, cur.pend, cur.nz, cur.z | {sym})
    return cur


def _step(st0, cur, delta, sym, keep_facts):
    """position state after moving a cursor by delta (+1 / -1) from the position st0 (facts of the current path merged in); sym names the byte at the old position"""
    st = LexState(st0.ahead, st0.pend, st0.nz | cur.nz, st0.z | cur.z)
    a = st.eff()
    if delta == 1:
        if a < 0:
            return LexState(a + 1, None, st.nz, st.z)
        if a == 0 and keep_facts:
            return LexState(1, sym, st.nz, st.z)
        if a == 0:
            return LexState(1, sym, st.nz - {sym}, st.z - {sym})
        return LexState(2, "?", st.nz, st.z)
    if a >= 2:
        return LexState(a - 1, "?", st.nz, st.z)
    if a == 1:
        return LexState(0, None, st.nz, st.z)
    return LexState(a - 1, None, st.nz, st.z)


def _cursorish(f, v, self_id, CZ):
    o = strip_casts(f, v).get("v")
    if o in CZ or o == self_id:
        return True
    x = f.insts.get(o)
    if x is not None and x.op == "getelementptr" and len(x.d["path"]) == 1 and "ptr" in x.d["path"][0] and const_int(x.d["path"][0]["ptr"]) in (1, -1):
        b = strip_casts(f, x.d["base"]).get("v")
        return b == self_id or b in CZ
    return False
