"""R14 -- no use of a pointer into a growable container across a growth of that container.

VLO_EXPAND / VLO_ADD_* and OS_TOP_EXPAND / OS_TOP_ADD_* may move the object
(realloc / new segment).  A pointer computed from the container's start -- or from a
file-scope variable that caches the start (sit_table, core_symb_table, toks, ...) --
before the growth is dangling afterwards.  In SSA form this is decidable exactly
for the intraprocedural case: a value derived from a load of the start (or of the
cache) that is used at a point reachable from the growth site without re-executing
its definition."""
from ..model import resolve_addr, strip_casts, const_int, loaded_from
from ..core import AnalysisBroken
from ..expr import addr_str

GROW_FUNS = ("_VLO_expand_memory", "_OS_expand_memory", "_OS_add_string_function", "_VLO_add_string_function", "_VLO_tailor_function")
START_FIELDS = ("vlo_t.vlo_start", "os_t.os_top_object_start")


def container_of(f, addr):
    """canonical name of the container object an address of one of its fields / the object itself denotes"""
    s = addr_str(f, addr, 0, 3)
    for fld in ("." + START_FIELDS[0], "." + START_FIELDS[1]):
        if s.endswith(fld):
            return s[: -len(fld)]
    return s


def caches(m):
    """file-scope pointers assigned from a container's start: global -> container name"""
    res = {}
    for f in m.defined():
        for s in f.all_insts():
            if s.op != "store":
                continue
            pa = resolve_addr(f, s.ops[1])
            if pa.root[0] != "g" or pa.steps:
                continue
            lp = loaded_from(f, s.ops[0])
            if lp is not None and lp.last_field() in START_FIELDS and lp.root[0] == "g":
                res.setdefault(pa.root[1], set()).add("@" + lp.root[1])
    return res


def rule_R14(ctx, rep, config="c-lib"):
    rep.rule("R14", "a pointer derived from the start of a growable container (or from the file-scope variable caching it) before an operation that may move the container "
                    "is not used afterwards: for every growth site G and every SSA value P derived from a load of the start/cache that reaches G, no use of P is "
                    "reachable from G without re-executing P's definition; after a growth the cache is re-assigned before it is read")
    p = ctx.prog(config)
    m = p.m
    cache = caches(m)
    # frozen from today's tree (discovery alone would forget a cache whose refresh was deleted)
    for g_, c_ in (("toks", "@toks_vlo"), ("sit_table", "@sit_table_vlo"), ("core_symb_table", "@core_symb_table_vlo"),
                   ("new_sits", "@set_sits_os"), ("new_dists", "@set_dists_os")):
        if g_ in m.globals and c_[1:] in m.globals:
            cache.setdefault(g_, set()).add(c_)
    nsites = 0
    nptr = 0
    for f in m.defined():
        if f.module and not (f.module.startswith("yaep.") or f.module.startswith("sgramm")):
            continue
        grows = []
        for i in f.calls():
            if i.callee in GROW_FUNS and i.args:
                grows.append((i, container_of(f, i.args[0])))
        if not grows:
            continue
        rep.cover(p, [f.name])
        os_conts = set(c for (g_, c) in grows if g_.callee.startswith("_OS_"))
        # base loads
        bases = []
        for i in f.all_insts():
            if i.op != "load":
                continue
            pa = resolve_addr(f, i.ops[0])
            if pa.last_field() in START_FIELDS:
                bases.append((i, container_of(f, i.ops[0])))
            elif pa.root[0] == "g" and not pa.steps and pa.root[1] in cache:
                for c in cache[pa.root[1]]:
                    bases.append((i, c))
        for (g, cont) in grows:
            nsites += 1
            for (b, bc) in bases:
                if bc != cont:
                    continue
                # g must be reachable after b; for an object stack only while the object is still
                # the (movable) top object, i.e. without an OS_TOP_FINISH of that stack in between
                finishes = []
                if "os_t" in (resolve_addr(f, b.ops[0]).last_field() or "") or cont in os_conts:
                    finishes = [s_ for s_ in f.all_insts() if s_.op == "store" and resolve_addr(f, s_.ops[1]).last_field() == "os_t.os_top_object_start"
                                and container_of(f, s_.ops[1]) == cont]
                if not path_exists(f, b, g, finishes):
                    continue
                # derived values
                der = set([b.id])
                work = [b.id]
                while work:
                    x = work.pop()
                    for u in f.uses().get(x, []):
                        if u.op in ("getelementptr", "bitcast") and u.id not in der:
                            if u.op == "getelementptr" and strip_casts(f, u.d["base"]) != {"k": "i", "v": x} and strip_casts(f, u.d["base"]).get("v") not in der:
                                continue
                            der.add(u.id)
                            work.append(u.id)
                # the same through merges: a local that holds the pointer over several rounds of a loop (`states = VLO_BEGIN (..)' in the first round, used in all)
                via_phi = set()
                work = list(der)
                while work:
                    x = work.pop()
                    for u in f.uses().get(x, []):
                        if u.id in der or u.id in via_phi:
                            continue
                        if u.op == "phi" and u.ty.endswith("*"):
                            via_phi.add(u.id)
                            work.append(u.id)
                        elif x in via_phi and u.op in ("getelementptr", "bitcast"):
                            if u.op == "getelementptr" and strip_casts(f, u.d["base"]).get("v") != x:
                                continue
                            via_phi.add(u.id)
                            work.append(u.id)
                # a new load of the start whose value enters the same merges takes the pointer again
                fresh = []
                phi_in = set()
                for d in via_phi:
                    di_ = f.insts[d]
                    if di_.op == "phi":
                        for (v_, _) in di_.d["incoming"]:
                            o_ = strip_casts(f, v_)
                            if o_.get("k") == "i":
                                phi_in.add(o_["v"])
                for (b2, bc2) in bases:
                    if bc2 != cont:
                        continue
                    d2, w2 = set([b2.id]), [b2.id]
                    while w2:
                        x2 = w2.pop()
                        for u2 in f.uses().get(x2, []):
                            if u2.op in ("getelementptr", "bitcast") and u2.id not in d2:
                                d2.add(u2.id)
                                w2.append(u2.id)
                    if d2 & phi_in:
                        fresh.append(b2)
                for d in via_phi:
                    for u in f.uses().get(d, []):
                        is_use = (u.op == "load" and strip_casts(f, u.ops[0]).get("v") == d) or (u.op == "store" and strip_casts(f, u.ops[1]).get("v") == d)
                        if not is_use:
                            continue
                        nptr += 1
                        # the value can come from the load before the growth: the growth is followed by the use without any new load of the start in between
                        if path_exists(f, g, u, fresh):
                            rep.violation("R14", "%s/%s" % (f.name, cont), "a pointer into `%s' is kept in a local over an operation that may move the container and used "
                                          "afterwards without being taken again: dangling after the realloc / segment change" % cont, where=u.where(),
                                          witness=["pointer taken at " + b.where(), "container may move at " + g.where(), "stale use at " + u.where()])
                # the pointer parked in a local cell (a field of a local struct) and read back after the growth
                for d in der:
                    for S in f.uses().get(d, []):
                        if S.op != "store" or S.ops[0].get("k") != "i" or S.ops[0].get("v") != d:
                            continue
                        cell = resolve_addr(f, S.ops[1])
                        if cell.root[0] == "a" and f.args[cell.root[1]].get("name") == "agg.result" and all(st[0] == "f" for st in cell.steps):
                            # the object the function returns by value: the pointer leaves with the return
                            ckey0 = (cell.root, tuple(cell.steps))
                            over = [x for x in f.all_insts() if x.op == "store" and x is not S and (lambda q: (q.root, tuple(q.steps)) == ckey0)(resolve_addr(f, x.ops[1]))]
                            if path_exists(f, S, g, over + finishes):
                                rets = [r_ for r_ in f.all_insts() if r_.op == "ret" and path_exists(f, g, r_, over)]
                                if rets:
                                    nptr += 1
                                    rep.violation("R14", "%s/%s" % (f.name, cont), "a pointer into `%s' is put into the object the function returns before an operation "
                                                  "that may move the container, and not taken again afterwards: the caller gets a dangling pointer" % cont, where=S.where(),
                                                  witness=["pointer saved at " + S.where(), "container may move at " + g.where(), "returned at " + rets[0].where()])
                            continue
                        if cell.root[0] != "alloca" or any(st[0] != "f" for st in cell.steps):
                            continue
                        ckey = (cell.root, tuple(cell.steps))
                        cell_stores = [x for x in f.all_insts() if x.op == "store" and (lambda q: (q.root, tuple(q.steps)) == ckey)(resolve_addr(f, x.ops[1]))]
                        if not path_exists(f, S, g, [x for x in cell_stores if x is not S] + finishes):
                            continue
                        # the whole local object is copied out (pushed on a stack, stored into a table) after the growth: the stale pointer leaves with it
                        for C in f.calls():
                            if not C.args or not ((C.callee or "").startswith("llvm.memcpy") or C.callee in ("memcpy",)):
                                continue
                            srcp = resolve_addr(f, C.args[1])
                            if srcp.root != cell.root or srcp.steps and tuple(srcp.steps) != tuple(cell.steps)[:len(srcp.steps)]:
                                continue
                            if not path_exists(f, g, C, cell_stores):
                                continue
                            nptr += 1
                            rep.violation("R14", "%s/%s" % (f.name, cont), "a pointer into `%s' is saved in a local object before an operation that may move the container, "
                                          "and the object is copied out afterwards: the copy carries a dangling pointer" % cont, where=C.where(),
                                          witness=["pointer saved at " + S.where(), "container may move at " + g.where(), "object copied at " + C.where()])
                        for L in f.all_insts():
                            if L.op != "load" or (lambda q: (q.root, tuple(q.steps)) != ckey)(resolve_addr(f, L.ops[0])):
                                continue
                            if not path_exists(f, g, L, cell_stores):
                                continue
                            for u in f.uses().get(L.id, []):
                                deref = (u.op == "load" and strip_casts(f, u.ops[0]).get("v") == L.id) or (u.op == "store" and strip_casts(f, u.ops[1]).get("v") == L.id) or \
                                        (u.op == "getelementptr" and any((w.op == "load" and strip_casts(f, w.ops[0]).get("v") == u.id) or
                                                                        (w.op == "store" and strip_casts(f, w.ops[1]).get("v") == u.id) for w in f.uses().get(u.id, [])))
                                if not deref:
                                    continue
                                nptr += 1
                                rep.violation("R14", "%s/%s" % (f.name, cont), "a pointer into `%s' is saved in a local before an operation that may move the container and "
                                              "dereferenced afterwards: dangling after the realloc / segment change" % cont, where=u.where(),
                                              witness=["pointer saved at " + S.where(), "container may move at " + g.where(), "read back at " + L.where(), "dereferenced at " + u.where()])
                for d in der:
                    di = f.insts[d]
                    for u in f.uses().get(d, []):
                        if u.op in ("getelementptr", "bitcast", "phi", "icmp", "ptrtoint", "sub"):
                            continue
                        is_use = (u.op == "load" and strip_casts(f, u.ops[0]).get("v") == d) or \
                                 (u.op == "store") or u.is_call()
                        if not is_use:
                            continue
                        nptr += 1
                        if path_exists(f, g, u, [di]):
                            key = "%s/%s" % (f.name, cont)
                            rep.violation("R14", key, "a pointer into `%s' taken before an operation that may move it is used afterwards: dangling after the realloc / segment change" % cont,
                                          where=u.where(), witness=["pointer taken at " + b.where(), "container may move at " + g.where(), "stale use at " + u.where()])
    # caches are refreshed after every growth of their container
    inv = {}
    for g_, cs in cache.items():
        for c in cs:
            inv.setdefault(c, set()).add(g_)
    ncache = 0
    for f in m.defined():
        for i in f.calls():
            if i.callee not in GROW_FUNS or not i.args:
                continue
            cont = container_of(f, i.args[0])
            for cg in sorted(inv.get(cont, ())):
                ncache += 1
                key = "%s/cache-%s" % (f.name, cg)
                refresh = []
                for s_ in f.all_insts():
                    if s_.op == "store":
                        pa = resolve_addr(f, s_.ops[1])
                        if pa.root == ("g", cg) and not pa.steps:
                            lp = loaded_from(f, s_.ops[0])
                            if lp is not None and lp.last_field() in START_FIELDS and f.inst_postdominates(s_, i) and not (s_.block is i.block and s_.idx < i.idx):
                                refresh.append(s_)
                if refresh:
                    rep.ok("R14", key, nontrivial=True)
                else:
                    rep.violation("R14", key, "`%s' caches the start of `%s', which may move here, and is not re-assigned afterwards: later readers use a dangling pointer" % (cg, cont),
                                  where=i.where(), witness=[i.where()])
    rep.floor("R14", "growth sites of cached containers", ncache, 5)
    if not rep.findings or all(x.rule != "R14" for x in rep.findings):
        rep.ok("R14", "all-growth-sites", sample={"growth_sites": nsites, "pointer_uses_examined": nptr, "cached_starts": dict((k, sorted(v)) for k, v in cache.items())})
    rep.floor("R14", "container growth sites", nsites, 60)
    rep.floor("R14", "file-scope caches of a container start", len(cache), 3)


def path_exists(f, a, b, avoid):
    """is there an execution path from just after instruction a to instruction b on which none of
    the instructions in `avoid' executes?"""
    av = {}
    for x in avoid:
        av.setdefault(x.block.name, []).append(x.idx)

    def blocked(bn, lo, hi):
        # any avoided instruction with lo < idx < hi in block bn
        return any(lo < k < hi for k in av.get(bn, []))

    if a.block is b.block and b.idx > a.idx and not blocked(a.block.name, a.idx, b.idx):
        return True
    if blocked(a.block.name, a.idx, 10 ** 9):
        return False
    seen = set()
    st = list(a.block.succs)
    while st:
        n = st.pop()
        if n in seen:
            continue
        seen.add(n)
        if n == b.block.name and not blocked(n, -1, b.idx):
            return True
        if blocked(n, -1, 10 ** 9):
            continue
        st.extend(f.bmap[n].succs)
    return False




GROW_METHODS = ("expand", "add_memory", "add_byte", "add_string", "top_expand", "top_add_memory", "top_add_byte", "top_add_string", "tailor")
START_METHODS = ("begin", "bound", "top_begin", "top_bound")


def rule_R14_cxx(ctx, rep, config="cxx-lib"):
    rep.rule("R14-c++", "the same for the C++ branches of yaep.c, where the containers are objects: a pointer obtained from vlo::begin / bound or os::top_begin / "
                        "top_bound before a call of a growing method (expand, add_*, tailor) of the same object is not used after that call (every use reachable from "
                        "the call without re-executing the getter is reported)")
    p = ctx.prog(config)
    m = p.m
    nsites = nptr = 0

    def meth(i):
        g = m.functions.get(i.callee or "")
        sn = (g.d.get("srcname") if g is not None else None)
        if sn and ("3vlo" in (i.callee or "") or "2os" in (i.callee or "")):
            return sn
        return None
    for f in m.defined():
        if not f.module or not f.module.startswith("yaep."):
            continue
        grows, bases, fins = [], [], []
        for i in f.calls():
            sn = meth(i)
            if sn in GROW_METHODS and i.args:
                grows.append((i, addr_str(f, i.args[0], 0, 3)))
            elif sn in START_METHODS and i.args:
                bases.append((i, addr_str(f, i.args[0], 0, 3)))
            elif sn in ("top_finish", "top_nullify") and i.args:
                fins.append((i, addr_str(f, i.args[0], 0, 3)))      # the top object is finished: it does not move any more
        if not grows or not bases:
            continue
        rep.cover(p, [f.name])
        for (g, cont) in grows:
            nsites += 1
            for (b, bc) in bases:
                if bc != cont or not path_exists(f, b, g, [x for (x, c_) in fins if c_ == cont]):
                    continue
                der = set([b.id])
                work = [b.id]
                while work:
                    x = work.pop()
                    for u in f.uses().get(x, []):
                        if u.op in ("getelementptr", "bitcast") and u.id not in der:
                            der.add(u.id)
                            work.append(u.id)
                for d in der:
                    for u in f.uses().get(d, []):
                        if u.op in ("getelementptr", "bitcast", "phi", "icmp", "ptrtoint", "sub"):
                            continue
                        is_use = (u.op == "load" and strip_casts(f, u.ops[0]).get("v") == d) or u.op == "store" or u.is_call()
                        if not is_use:
                            continue
                        nptr += 1
                        if path_exists(f, g, u, [b]):
                            rep.violation("R14-c++", "%s/%s" % (f.name, cont), "a pointer into `%s' obtained before a call that may move the object is used afterwards: "
                                          "dangling after the realloc / segment change" % cont, where=u.where(),
                                          witness=["pointer obtained at " + b.where(), "object may move at " + g.where(), "stale use at " + u.where()])
    if not any(x.rule == "R14-c++" for x in rep.findings):
        rep.ok("R14-c++", "all-growth-sites", sample={"growing_calls": nsites, "pointer_uses_examined": nptr})
    rep.floor("R14-c++", "calls of growing methods in the C++ branches of yaep.c", nsites, 20)


def rule_R14_entries(ctx, rep, config="c-lib"):
    rep.rule("R14-entry", "the pointer that find_hash_table_entry returns points into the array of the table, and every later lookup in the same table may expand the table "
                          "(the expansion test runs at the start of every lookup) and release that array: an entry pointer is not read or written through after another "
                          "lookup in the same table -- a reserved entry is filled at once, before the next lookup")
    p = ctx.prog(config)
    n = 0
    for f in p.m.defined():
        if f.module and not f.module.startswith("yaep."):
            continue
        finds = []
        for c in f.calls():
            g = p.m.functions.get(c.callee or "")
            sn = (g.d.get("srcname") if g is not None else None) or (c.callee or "")
            if c.callee == "find_hash_table_entry" or (sn == "find_entry" and "hash_table" in (c.callee or "")):
                lp = loaded_from(f, c.args[0])
                finds.append((c, repr(lp) if lp is not None else None))
        if len(finds) < 2:
            continue
        rep.cover(p, [f.name])
        for (K, tab) in finds:
            if tab is None:
                continue
            uses = [i for i in f.all_insts() if i.op in ("load", "store") and strip_casts(f, i.ops[1] if i.op == "store" else i.ops[0]) == {"k": "i", "v": K.id}]
            if not uses:
                continue
            n += 1
            key = "%s/entry-of-lookup@%s" % (f.name, K.where().rsplit("/", 1)[-1])
            bad = None
            for (K2, tab2) in finds:
                if K2 is K or tab2 != tab:
                    continue
                if not path_exists(f, K, K2, []):
                    continue
                for u in uses:
                    if path_exists(f, K2, u, [K]):
                        bad = (K2, u)
                        break
                if bad:
                    break
            if bad:
                rep.violation("R14-entry", key, "the entry returned by the lookup at %s is used at %s after another lookup in the same table (%s): that lookup can expand the "
                              "table and release the array the entry points into (write into freed memory), and while the reserved entry is still empty the second "
                              "lookup can hand out the same place" % (K.where(), bad[1].where(), bad[0].where()), where=bad[1].where(),
                              witness=[K.where(), bad[0].where(), bad[1].where()])
            else:
                rep.ok("R14-entry", key, sample={"lookup": K.where(), "uses": len(uses)})
    rep.floor("R14-entry", "entry pointers in functions with several lookups", n, 2)
