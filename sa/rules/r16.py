"""R16 -- index spaces of the parser list and of the token array.

`pl' is indexed by set numbers, `toks' (and every array allocated with toks_len elements) by
token numbers.  The translation pass may derive a token number from a set number only if the two
advance together, i.e. if every set appended to the parser list is the result of shifting a token."""
from ..model import resolve_addr, strip_casts, strip_int_casts, const_int, loaded_from
from ..core import AnalysisBroken
from .. import expr


def _alloc_call(f, op, depth=0):
    """the allocation call an array pointer comes from (through casts and phis with undef/one source)"""
    if depth > 6:
        return None
    o = strip_casts(f, op)
    i = f.inst(o)
    if i is None:
        return None
    if i.is_call() and i.callee in ("yaep_malloc", "yaep_calloc"):
        return i
    if i.op == "phi":
        srcs = set()
        for (v, _) in i.d["incoming"]:
            if v.get("k") in ("undef", "null"):
                continue
            c = _alloc_call(f, v, depth + 1)
            if c is None:
                return None
            srcs.add(c.id)
        if len(srcs) == 1:
            return f.insts[srcs.pop()]
    return None


def _index_uses(p, f):
    """[(space, array name, index Lin, instruction)] for element accesses of pl / toks / toks_len-sized arrays"""
    out = []
    expr.NAMED[0] = True
    try:
        for i in f.all_insts():
            if i.op not in ("load", "store"):
                continue
            addr = i.ops[0] if i.op == "load" else i.ops[1]
            pa = resolve_addr(f, addr)
            if pa.root[0] != "val" or not pa.steps or pa.steps[0][0] not in ("idx", "ptr"):
                continue
            base = pa.root[1]
            lp = loaded_from(f, base)
            space = arr = None
            if lp is not None and lp.root[0] == "g" and not lp.steps:
                if lp.root[1] == "pl":
                    space, arr = "SET", "pl"
                elif lp.root[1] == "toks":
                    space, arr = "TOK", "toks"
            else:
                c = _alloc_call(f, base)
                if c is not None:
                    sz = expr.lin(f, c.args[-1], 0, 1)
                    if not sz.is_const() and len(sz.t) == 1 and list(sz.t.keys())[0] == "L[@toks_len]" and sz.c == 0:
                        space = "TOK"
                        bi = f.inst(strip_casts(f, base))
                        arr = (bi.d.get("var") if bi is not None else None) or "array of toks_len elements"
            if space is None:
                continue
            out.append((space, arr, expr.lin(f, pa.steps[0][1], 0, 1), i))
    finally:
        expr.NAMED[0] = False
    return out


def _symbol_of_vect(f, op, depth=0):
    """the symbol operand(s) of the core_symb_vect_find call(s) an operand comes from"""
    res = []
    if depth > 6:
        return [None]
    i = f.inst(strip_casts(f, op))
    if i is None:
        return [None]
    if i.is_call() and i.callee == "core_symb_vect_find":
        return [i.args[1]]
    if i.op == "phi":
        for (v, _) in i.d["incoming"]:
            if v.get("k") in ("undef",):
                continue
            res += _symbol_of_vect(f, v, depth + 1)
        return res
    return [None]


def rule_index_spaces(ctx, rep, config="c-lib"):
    rep.rule("R16", "the parser list is indexed by set numbers, the token array (and every array of toks_len elements) by token numbers; a token number may be derived "
                    "from a set number only if every set appended to the parser list results from shifting a token of the input (the symbol given to "
                    "core_symb_vect_find for the appended set is toks[..].symb).  An append after shifting `error' makes the two numberings diverge, and an element "
                    "access toks[set number - k] then reads another token's data or runs past the array")
    p = ctx.prog(config)
    m = p.m
    # appends to pl and what was shifted for them
    appends = []
    for f in m.defined():
        if f.module and not f.module.startswith("yaep."):
            continue
        for s in f.all_insts():
            if s.op != "store":
                continue
            pa = resolve_addr(f, s.ops[1])
            if pa.root[0] != "val" or not pa.steps or pa.steps[0][0] not in ("idx", "ptr"):
                continue
            lp = loaded_from(f, pa.root[1])
            if lp is None or lp.root != ("g", "pl") or lp.steps:
                continue
            vp = loaded_from(f, s.ops[0])
            if vp is None or vp.root != ("g", "new_set") or vp.steps:
                continue
            # nearest dominating build_new_set call
            calls = [c for c in f.calls() if c.callee == "build_new_set" and f.inst_dominates(c, s)]
            if calls:
                # the last one on the dominator chain: the one dominated by all others
                c = calls[0]
                for c_ in calls:
                    if all(f.inst_dominates(o, c_) for o in calls if o is not c_):
                        c = c_
                calls = [c]
            else:
                # the set may come from a cache: every construction site of the function counts
                calls = [c for c in f.calls() if c.callee == "build_new_set"]
                if not calls:
                    continue
                c = calls[0]
            kinds = []
            for so in [x for c_ in calls for x in _symbol_of_vect(f, c_.args[1])]:
                if so is None:
                    kinds.append("unknown")
                    continue
                sp = loaded_from(f, so)
                if sp is not None and sp.last_field() == "grammar.term_error":
                    kinds.append("error")
                elif sp is not None and sp.last_field() == "tok.symb":
                    kinds.append("token")
                else:
                    li = f.inst(strip_casts(f, so))
                    kinds.append("token" if (li is not None and li.d.get("var") == "term") else "unknown")
            appends.append((f, s, c, kinds))
    rep.cover(p, sorted(set(f.name for (f, _, _, _) in appends)))
    if len(appends) < 3:
        raise AnalysisBroken("R16: only %d appends to the parser list recognised (3 confirmed by reading: build_pl, error_recovery x2)" % len(appends))
    if any("unknown" in k for (_, _, _, k) in appends):
        bad = [(f.name, s.where()) for (f, s, _, k) in appends if "unknown" in k]
        raise AnalysisBroken("R16: the symbol shifted for the set appended at %s is not recognised" % bad)
    # a merge of `error' and a token (the vector variable is reused) is decided by the token: only a definite `error' shift counts
    non_token = [(f, s) for (f, s, _, k) in appends if set(k) == set(["error"])]
    for n_, (f, s, c, k) in enumerate(appends):
        rep.ok("R16", "%s/append#%d@%s" % (f.name, n_ + 1, "error-shift" if set(k) == set(["error"]) else "token-shift"), nontrivial=True,
               sample={"append": s.where(), "set_built_at": c.where(), "shifted": sorted(set(k))})
    # cross-space uses
    ncross = 0
    nuses = 0
    for f in m.defined():
        if f.module and not f.module.startswith("yaep."):
            continue
        uses = _index_uses(p, f)
        if not uses:
            continue
        rep.cover(p, [f.name])
        nuses += len(uses)
        set_terms = {}
        for (sp, arr, ix, i) in uses:
            if sp == "SET" and ix.t:
                set_terms.setdefault(tuple(sorted(ix.t.items())), []).append((ix, i))
        seen = set()
        for (sp, arr, ix, i) in uses:
            if sp != "TOK" or not ix.t:
                continue
            k = tuple(sorted(ix.t.items()))
            if k not in set_terms:
                continue
            key = "%s/%s[set-number]" % (f.name, arr)
            if key in seen:
                continue
            seen.add(key)
            ncross += 1
            six, si = set_terms[k][0]
            if non_token:
                nf, ns = non_token[0]
                rep.violation("R16", key, "`%s' is indexed with %r, a set number (the same value indexes the parser list as %r), but %s appends a set for the `error' "
                              "shift without consuming a token: after an error recovery that ignores another number of tokens than it inserts `error' sets the element "
                              "belongs to another token (wrong attribute in TERM nodes) or lies outside the array" % (arr, ix, six, nf.name),
                              where=i.where(), witness=["token-space access " + i.where(), "set-space access " + si.where(), "append without a token " + ns.where()])
            else:
                rep.ok("R16", key, sample={"access": i.where(), "index": repr(ix)})
    rep.floor("R16", "element accesses of pl / toks / toks_len arrays", nuses, 20)
    if not ncross:
        rep.ok("R16", "no-token-number-derived-from-a-set-number", sample={"accesses_examined": nuses})


def rule_pl_capacity(ctx, rep, config="c-lib"):
    rep.rule("R16-cap", "the parser list has room for the start set, one set per token and one `error' set per token: pl_create gives pl at least 2 * toks_len + 1 "
                        "elements, and each array that is kept parallel to it (placed behind it in the same block) as many; the block is large enough for all of them "
                        "(sizes compared as linear forms over toks_len; larger passes); nothing else bounds the unchecked appends pl[++pl_curr]")
    p = ctx.prog(config)
    f = p.fn("pl_create")
    rep.cover(p, [f.name])
    st = [s for s in f.all_insts() if s.op == "store" and resolve_addr(f, s.ops[1]).root == ("g", "pl") and not resolve_addr(f, s.ops[1]).steps]
    if len(st) != 1:
        raise AnalysisBroken("R16-cap: pl_create does not assign pl exactly once")
    c = _alloc_call(f, st[0].ops[0])
    if c is None:
        raise AnalysisBroken("R16-cap: pl is not assigned from an allocation call")
    expr.NAMED[0] = True
    try:
        sz = expr.lin(f, c.args[-1], 0, 1)
        # arrays carved out of the same block:  G = previous array + offset
        chain = []        # (global, offset in bytes from the previous one)
        prev = "L[@pl]"
        progress = True
        while progress:
            progress = False
            for s in f.all_insts():
                if s.op != "store":
                    continue
                pa = resolve_addr(f, s.ops[1])
                if pa.root[0] != "g" or pa.steps or pa.root[1] in [g for (g, _) in chain] or pa.root[1] == "pl":
                    continue
                v = expr.lin(f, s.ops[0], 0, 1)
                if v.t.get(prev) == 1:
                    off = expr.Lin(v.c, dict((a, k) for a, k in v.t.items() if a != prev))
                    chain.append((pa.root[1], off))
                    prev = "L[@%s]" % pa.root[1]
                    progress = True
    finally:
        expr.NAMED[0] = False
    if set(sz.t.keys()) - set(["L[@toks_len]"]):
        raise AnalysisBroken("R16-cap: the size of the parser list (%r) is not a linear form over toks_len" % sz)

    def ge(a, b):
        d = a.add(b, -1)
        return d.c >= 0 and all(v >= 0 for v in d.t.values())
    need_sets = expr.Lin(8, {"L[@toks_len]": 16})     # (2 * toks_len + 1) pointers
    need_ints = expr.Lin(4, {"L[@toks_len]": 8})      # (2 * toks_len + 1) ints
    # extents: pl up to the first parallel array, each parallel array up to the next, the last one up to the end of the block
    used = expr.Lin(0)
    okk = True
    why = ""
    exts = []
    for k, (g, off) in enumerate(chain):
        exts.append(("pl" if k == 0 else chain[k - 1][0], off))
        used = used.add(off)
    last_name = chain[-1][0] if chain else "pl"
    exts.append((last_name, sz.add(used, -1)))
    for (name, ext) in exts:
        need = need_sets if name == "pl" else need_ints
        if set(ext.t.keys()) - set(["L[@toks_len]"]) or not ge(ext, need):
            okk = False
            why = "`%s' gets %r bytes, fewer than the %r bytes of 2 * toks_len + 1 elements" % (name, ext, need)
    if okk:
        rep.ok("R16-cap", "pl_create/capacity", sample={"allocation": c.where(), "bytes": repr(sz), "arrays": [n_ for (n_, _) in exts]})
    else:
        rep.violation("R16-cap", "pl_create/capacity", "%s: an input whose every token (and the end marker) is accepted only after an `error' shift appends 2 * toks_len + 1 sets, the "
                      "last one behind the array" % why, where=c.where(), witness=[c.where()])


def rule_total_loss(ctx, rep, config="c-lib"):
    rep.rule("R16-recover", "error recovery always has a candidate: yaep_read_grammar adds the rule `$S : error $eof' for every grammar (the creation of a rule of the axiom "
                            "whose first symbol is the `error' terminal is not control dependent on what rules the user's grammar has).  Without it error_recovery can "
                            "end without any recovery state; it then leaves *start == *stop == -1 and build_pl reads toks[-1]")
    from .r5 import _controlling_conditions
    p = ctx.prog(config)
    f = p.fn("yaep_read_grammar")
    rep.cover(p, [f.name, "error_recovery", "build_pl"])
    # rule_new_start (grammar->axiom, ..) followed by rule_new_symb_add (grammar->term_error)
    sites = []
    for c in f.calls():
        if c.callee != "rule_new_start":
            continue
        lp = loaded_from(f, c.args[0])
        if lp is None or lp.last_field() != "grammar.axiom":
            continue
        adds = [a for a in f.calls() if a.callee == "rule_new_symb_add" and f.inst_dominates(c, a)]
        adds = [a for a in adds if not any(o is not c and o.callee == "rule_new_start" and f.inst_dominates(c, o) and f.inst_dominates(o, a) for o in f.calls())]
        if adds:
            first = min(adds, key=lambda a: (len([b for b in adds if f.inst_dominates(b, a)])))
            fp = loaded_from(f, first.args[0])
            if fp is not None and fp.last_field() == "grammar.term_error":
                sites.append(c)
    if not sites:
        rep.violation("R16-recover", "yaep_read_grammar/total-loss-rule", "no rule `$S : error ...' is added by yaep_read_grammar: an input that matches no user `error' rule has no "
                      "recovery at all", where=f.where())
        return
    c = sites[0]
    user = []
    for (cc, pol) in _controlling_conditions(f, c.block.name):
        # conditions about the user's rules (loop over the start symbol's rules / the rule found)
        blk = cc.block.name
        desc = None
        for o in cc.ops:
            lp = loaded_from(f, o)
            if lp is not None and (lp.last_field() or "").startswith(("rule.", "symb.u")):
                desc = lp.last_field()
            oi = f.inst(strip_casts(f, o))
            if oi is not None and oi.op == "phi" and oi.d.get("var") == "rule":
                desc = "the rule found by the search over the start symbol's rules"
        if desc:
            user.append((cc, desc))
    if user:
        rep.violation("R16-recover", "yaep_read_grammar/total-loss-rule", "the rule `$S : error $eof' is added depending on %s: a grammar whose start symbol has its own rule starting "
                      "with `error' gets no such rule, and an input on which that rule cannot recover (e.g. the empty input for `S : error \';\'') has no recovery at all -- "
                      "error_recovery returns -1/-1 and build_pl reads toks[-1]" % user[0][1], where=c.where(), witness=[user[0][0].where(), c.where()])
    else:
        rep.ok("R16-recover", "yaep_read_grammar/total-loss-rule", sample={"rule_added_at": c.where()})


def rule_parallel_arrays(ctx, rep, config="c-lib"):
    rep.rule("R16-parallel", "pl_tok_nums is kept parallel to pl: every store of a set into pl[k] is followed, in the same block, by a store into pl_tok_nums[k] with the same "
                             "index (as linear forms; a reload of a variable is taken as the value stored to it before in the block) -- the token whose shift gave the set, "
                             "or -1; make_parse takes token numbers only from that array")
    from ..model import strip_int_casts
    p = ctx.prog(config)
    if "pl_tok_nums" not in p.m.globals:
        raise AnalysisBroken("R16-parallel: the array of token numbers parallel to the parser list does not exist")

    def elem(f, addr, gname):
        """index operand (or the constant 0) when addr is an element of the array the global pointer gname points to"""
        pa = resolve_addr(f, addr)
        if pa.root[0] != "val" or pa.fields():
            return None
        lp = loaded_from(f, pa.root[1])
        if lp is None or lp.root != ("g", gname) or lp.steps:
            return None
        ixs = [st for st in pa.steps if st[0] in ("idx", "ptr")]
        if len(ixs) > 1:
            return None
        return ixs[0][1] if ixs else {"k": "c", "v": 0, "w": 32}

    def index_lin(f, op, at):
        """linear form of an index; a load of a global that was stored to earlier in the block of `at' is replaced by the stored value"""
        o = strip_int_casts(f, op)
        i = f.inst(o)
        if i is not None and i.op == "load":
            pa = resolve_addr(f, i.ops[0])
            if pa.root[0] == "g" and not pa.steps:
                prev = [t for t in at.block.insts if t.op == "store" and t.idx < i.idx and resolve_addr(f, t.ops[1]).root == pa.root and not resolve_addr(f, t.ops[1]).steps]
                if prev and i.block is at.block:
                    return expr.lin(f, prev[-1].ops[0], 0, 1)
        return expr.lin(f, op, 0, 1)
    n = 0
    for f in p.m.defined():
        if f.module and not f.module.startswith("yaep."):
            continue
        for s_ in f.all_insts():
            if s_.op != "store":
                continue
            ixo = elem(f, s_.ops[1], "pl")
            if ixo is None:
                continue
            n += 1
            rep.cover(p, [f.name])
            key = "%s/pl-store#%d" % (f.name, n)
            ix = index_lin(f, ixo, s_)
            mate = None
            for t in s_.block.insts:
                if t.op != "store" or t.idx <= s_.idx:
                    continue
                tio = elem(f, t.ops[1], "pl_tok_nums")
                if tio is not None and index_lin(f, tio, t) == ix:
                    mate = t
                    break
            if mate is not None:
                rep.ok("R16-parallel", key, sample={"set_stored_at": s_.where(), "token_number_at": mate.where()})
            else:
                rep.violation("R16-parallel", key, "a set is stored into the parser list without its token number being stored into pl_tok_nums at the same index: the "
                              "translation pass reads a stale number there -- TERM nodes with the attribute of another token, or an index outside the token array",
                              where=s_.where(), witness=[s_.where()])
    rep.floor("R16-parallel", "stores of sets into the parser list", n, 7)


def _is_term_test(f, o):
    x = f.inst(strip_int_casts(f, o))
    if x is None or x.op != "icmp" or x.d["pred"] != "ne":
        return False
    a, b = loaded_from(f, x.ops[0]), loaded_from(f, x.ops[1])
    return set([(a.last_field() if a is not None else None), (b.last_field() if b is not None else None)]) == set(["set_core.term", "grammar.term_error"])


def rule_back_cost(ctx, rep, config="c-lib"):
    rep.rule("R16-back", "find_error_pl_set counts one token for every set it walks back over except the sets made by a shift of `error' (they consumed no token): the "
                         "increment of *cost is controlled by  core->term != term_error")
    from .r5 import _controlling_conditions
    p = ctx.prog(config)
    f = p.fn("find_error_pl_set")
    rep.cover(p, [f.name])
    incs = []
    stores = [s_ for s_ in f.all_insts() if s_.op == "store" and resolve_addr(f, s_.ops[1]).root == ("a", 1)]
    if not stores:
        raise AnalysisBroken("R16-back: find_error_pl_set does not store the cost")
    # the increments: +1 on the cost kept in memory, or +1 on a local counter (a phi) that flows into the stored value
    seen = set()
    arith_ok = False
    work = [s_.ops[0] for s_ in stores]
    while work:
        o = work.pop()
        x = f.inst(strip_int_casts(f, o))
        if x is None or x.id in seen:
            continue
        seen.add(x.id)
        if x.op == "phi":
            work.extend(v for (v, _) in x.d["incoming"])
        elif x.op == "add" and (const_int(x.ops[0]) == 1 or const_int(x.ops[1]) == 1):
            other = x.ops[1] if const_int(x.ops[0]) == 1 else x.ops[0]
            oi = f.inst(strip_int_casts(f, other))
            if oi is not None and (oi.op == "phi" or (oi.op == "load" and resolve_addr(f, oi.ops[0]).root == ("a", 1))):
                incs.append(x)
                work.append(other)
        elif x.op == "add" and any(_is_term_test(f, o_) for o_ in x.ops):
            arith_ok = True      # cost += (core->term != term_error)
        elif x.op in ("add", "sub", "select"):
            work.extend(x.ops[-2:])
    if arith_ok and not incs:
        rep.ok("R16-back", "find_error_pl_set/error-sets-not-counted", sample={"form": "cost += (core->term != term_error)"})
        rep.floor("R16-back", "stores of the backward cost", len(stores), 1)
        return
    if not incs:
        rep.violation("R16-back", "find_error_pl_set/error-sets-not-counted", "the backward cost is not counted set by set (no increment of the cost found): a closed form "
                      "over the positions also counts the sets made by shifting `error' in an earlier recovery, which consumed no token", where=stores[-1].where(),
                      witness=[x.where() for x in stores])
        rep.floor("R16-back", "stores of the backward cost", len(stores), 1)
        return
    if len(incs) != 1:
        raise AnalysisBroken("R16-back: %d increments of the cost in find_error_pl_set" % len(incs))
    s_ = incs[0]
    okc = False
    for (c, pol) in _controlling_conditions(f, s_.block.name):
        a, b = loaded_from(f, c.ops[0]), loaded_from(f, c.ops[1])
        fields = set([(a.last_field() if a is not None else None), (b.last_field() if b is not None else None)])
        if fields == set(["set_core.term", "grammar.term_error"]) and c.d["pred"] in ("eq", "ne") and (c.d["pred"] == "ne") == pol:
            okc = True
    if okc:
        rep.ok("R16-back", "find_error_pl_set/error-sets-not-counted", sample={"increment": s_.where()})
    else:
        rep.violation("R16-back", "find_error_pl_set/error-sets-not-counted", "the backward cost also counts the sets made by shifting `error' in an earlier recovery: the first "
                      "ignored token reported for the next recovery is too small (it can be -1, and build_pl then reads toks[-1])", where=s_.where(), witness=[s_.where()])


def rule_parallel_save(ctx, rep, config="c-lib"):
    rep.rule("R16-parallel-save", "new_recovery_state saves the tail of the parser list and the token numbers of the same sets: the block of pl_tok_nums that is copied "
                                  "starts at the index at which the loop over the saved sets starts, and has as many elements as the tail (linear forms over the same "
                                  "values)")
    from ..model import strip_int_casts
    p = ctx.prog(config)
    f = p.fn("new_recovery_state")
    rep.cover(p, [f.name])

    def elem_index(addr, gname):
        pa = resolve_addr(f, addr)
        if pa.root[0] != "val" or pa.fields():
            return None
        lp = loaded_from(f, pa.root[1])
        if lp is None or lp.root != ("g", gname) or lp.steps:
            return None
        ixs = [st for st in pa.steps if st[0] in ("idx", "ptr")]
        return ixs[0][1] if len(ixs) == 1 else ({"k": "c", "v": 0, "w": 32} if not ixs else None)
    # the loop over the saved sets: reads &pl[i]
    start = None
    for c in f.calls():
        if not (c.callee or "").startswith("llvm.memcpy"):
            continue
        ix = elem_index(c.args[1], "pl")
        if ix is None:
            continue
        ph = f.inst(strip_int_casts(f, ix))
        if ph is not None and ph.op == "phi":
            inits = [v for (v, pb) in ph.d["incoming"] if not any(pb in L["body"] and ph.block.name == L["header"] for L in f.loops())]
            if len(inits) == 1:
                start = expr.lin(f, inits[0], 0, 1)
    toks = None
    for c in f.calls():
        if not (c.callee or "").startswith("llvm.memcpy"):
            continue
        ix = elem_index(c.args[1], "pl_tok_nums")
        if ix is not None:
            toks = (c, expr.lin(f, ix, 0, 1), expr.lin(f, c.args[2], 0, 1))
    if start is None or toks is None:
        raise AnalysisBroken("R16-parallel-save: the copies of the parser list tail / of its token numbers in new_recovery_state were not found")
    c, tix, tlen = toks
    key = "new_recovery_state/token-numbers-of-the-saved-sets"
    if tix == start:
        rep.ok("R16-parallel-save", key, sample={"copy": c.where(), "from_index": repr(tix)})
    else:
        rep.violation("R16-parallel-save", key, "the saved sets start at pl[%r] but their token numbers are copied from pl_tok_nums[%r]: after a restore every set of the "
                      "tail carries the token number of its neighbour -- TERM nodes with the attribute of another token, or token number -1 (toks[-1] read)" % (start, tix),
                      where=c.where(), witness=[c.where()])


def rule_frontiers(ctx, rep, config="c-lib"):
    rep.rule("R16-frontiers", "error_recovery moves two frontiers while it tries recovery states.  (1) The block that advances the back frontier works with a temporary "
                              "parser-list position and token position: every file-scope position it assigns (pl_curr, tok_curr) is set back, on every path out of the "
                              "block, to the value it had when the block was entered.  (2) The state that starts one token later is pushed whenever a token is left, "
                              "the end marker included: the push is controlled by  position < toks_len  for the advanced position (not by a smaller bound -- `ignore "
                              "everything up to the end' is the recovery of last resort)")
    from ..model import strip_int_casts
    from .r5 import _controlling_conditions
    from .r14 import path_exists
    p = ctx.prog(config)
    f = p.fn("error_recovery")
    rep.cover(p, [f.name])
    # (1) the back-frontier block: the blocks controlled by `back_pl_frontier > 0' (a phi / local compared with 0, true side), identified by the call of find_error_pl_set
    fe = [c for c in f.calls() if c.callee == "find_error_pl_set" and any(L for L in f.loops() if c.block.name in L["body"])]
    if not fe:
        raise AnalysisBroken("R16-frontiers: the advance of the back frontier (find_error_pl_set inside the loop of error_recovery) was not found")
    c0 = fe[-1]
    region = set(b.name for b in f.rblocks() if f.dominates(c0.block.name, b.name))
    exits = set(s_ for bn in region for s_ in f.bmap[bn].succs if s_ not in region)
    n = 0
    for gname in ("pl_curr", "tok_curr"):
        sts = [s_ for s_ in f.all_insts() if s_.op == "store" and s_.block.name in region and resolve_addr(f, s_.ops[1]).root == ("g", gname)
               and not resolve_addr(f, s_.ops[1]).steps]
        if not sts:
            continue
        n += 1
        key = "error_recovery/back-frontier-restores-%s" % gname

        def is_saved(v):
            x = f.inst(strip_int_casts(f, v))
            while x is not None and x.op == "phi":
                nx = [f.inst(strip_int_casts(f, w)) for (w, _) in x.d["incoming"]]
                nx = [y for y in nx if y is not None]
                x = nx[0] if len(set(id(y) for y in nx)) == 1 else None
            return x is not None and x.op == "load" and resolve_addr(f, x.ops[0]).root == ("g", gname) and x.block.name not in region or \
                (x is not None and x.op == "load" and resolve_addr(f, x.ops[0]).root == ("g", gname) and x.block.name == c0.block.name and x.idx < c0.idx)
        restores = [s_ for s_ in sts if is_saved(s_.ops[0])]
        dirty = [s_ for s_ in sts if not is_saved(s_.ops[0])]
        bad = None
        for d in dirty:
            # a path from the temporary assignment out of the block that avoids every restore
            for ex in exits:
                tgt = f.bmap[ex].insts[0] if f.bmap[ex].insts else f.bmap[ex].term
                if tgt is not None and path_exists(f, d, tgt, restores + [x for x in dirty if x is not d and False]):
                    later = [x for x in dirty if x is not d and path_exists(f, d, x, restores)]
                    bad = (d, ex)
        if bad and not restores:
            rep.violation("R16-frontiers", key, "the block that advances the back frontier assigns %s (%s) and does not set it back: the state that was popped before is then "
                          "tried from another position than the one its cost was computed for (the positions reported for the recovery run past the tokens)" % (
                              gname, bad[0].where()), where=bad[0].where(), witness=[bad[0].where()])
        elif bad:
            rep.violation("R16-frontiers", key, "the block that advances the back frontier can be left with %s still holding its temporary value (assigned at %s)" % (
                gname, bad[0].where()), where=bad[0].where(), witness=[bad[0].where()])
        else:
            rep.ok("R16-frontiers", key, sample={"temporary": [d.where() for d in dirty][:2], "restored_at": [r.where() for r in restores][:2]})
    # (2) the head frontier
    pushes = [c for c in f.calls() if c.callee == "push_recovery_state"]
    head = None
    for c in pushes:
        conds = _controlling_conditions(f, c.block.name)
        if not conds:
            continue
        cc, pol = conds[0]      # the innermost test: the guard of this push itself
        bl = expr.lin(f, cc.ops[1], 0, 1)
        if any(k.endswith("@toks_len]") for k in bl.t) and cc.d["pred"] in ("slt", "sle", "sgt", "sge", "ult", "ule"):
            head = (c, cc, pol)
    if head is None:
        raise AnalysisBroken("R16-frontiers: the push of the state that starts one token later (controlled by a comparison with toks_len) was not found")
    c, cc, pol = head
    n += 1
    bl = expr.lin(f, cc.ops[1], 0, 1)
    pr = cc.d["pred"]
    if not pol:
        pr = {"slt": "sge", "sge": "slt", "sle": "sgt", "sgt": "sle"}.get(pr, pr)
    # position < toks_len   (or  position <= toks_len - 1)
    okh = (pr == "slt" and bl.c == 0 and list(bl.t.values()) == [1]) or (pr == "sle" and bl.c == -1 and list(bl.t.values()) == [1])
    key = "error_recovery/head-frontier-up-to-end-marker"
    if okh:
        rep.ok("R16-frontiers", key, sample={"push": c.where(), "guard": cc.where()})
    else:
        rep.violation("R16-frontiers", key, "the state that starts one token later is pushed under `position %s %r', not while a token (the end marker included) is left: no "
                      "state ever starts at the end marker, and an input whose only repair is to ignore everything up to the end finds no recovery (best_state is used "
                      "unset: start and stop are -1)" % ({"slt": "<", "sle": "<=", "sge": ">=", "sgt": ">"}.get(pr, pr), bl), where=cc.where(), witness=[cc.where(), c.where()])
    rep.floor("R16-frontiers", "frontier obligations", n, 2)   # pl_curr and the head frontier; tok_curr only where the block assigns it (R16-frontier-state decides what the pushed state starts at)


def rule_acceptance_at_end(ctx, rep, config="c-lib"):
    rep.rule("R16-accept", "error_recovery accepts a recovery alternative when enough tokens were matched or when ALL tokens were consumed, the end marker included: the "
                           "second way into the block that compares the cost with the best one is the test  tok_curr >= toks_len  (as a linear form: tok_curr - toks_len "
                           ">= 0, no slack) -- with a smaller bound an alternative that stopped in front of an end marker it cannot shift is accepted, the parser list "
                           "ends without the accepting situation and yaep_parse returns 0 with a NULL tree")
    from .c10 import _norm
    from ..model import strip_int_casts
    p = ctx.prog(config)
    f = p.fn("error_recovery")
    rep.cover(p, [f.name])
    heads = []
    for c in f.all_insts():
        if c.op != "icmp" or c.d["pred"] not in ("sgt", "slt", "sge", "sle"):
            continue
        vs = [f.inst(strip_int_casts(f, o)) for o in c.ops]
        names = [(v.d.get("var") if v is not None else None) for v in vs]
        if "best_cost" in names and "cost" in names and any(u.op == "br" for u in f.uses().get(c.id, [])):
            # the one followed by the store of the best state
            if any(x.is_call() and x.callee == "new_recovery_state" for bn in f.reachable_from(c.block.name) for x in f.bmap[bn].insts):
                heads.append(c)
    heads = [c for c in heads if any(f.dominates(c.block.name, x.block.name) for x in f.calls() if x.callee == "new_recovery_state")]
    if not heads:
        raise AnalysisBroken("R16-accept: the comparison of the cost of an accepted alternative with the best cost was not found")
    H = heads[-1].block.name
    found = []
    for b in f.rblocks():
        if H not in b.succs:
            continue
        t = b.term
        if t is None or t.op != "br" or len(t.ops) != 3:
            continue
        c = f.inst(t.ops[0])
        if c is None or c.op != "icmp":
            continue
        pol = (t.ops[2]["v"] == H)
        txt = _norm(f, c, pol)
        if txt and "toks_len" in txt:
            found.append((c, txt))
            continue
        # the test kept in a flag (`found_p = a || b; if (found_p)'): the comparisons merged into the truth value that is tested again
        if c.d["pred"] in ("ne", "eq") and const_int(c.ops[1]) == 0 and pol == (c.d["pred"] == "ne"):
            x = f.inst(strip_int_casts(f, c.ops[0]))
            work, seen = [x], set()
            while work:
                y = work.pop()
                if y is None or y.id in seen:
                    continue
                seen.add(y.id)
                if y.op == "phi":
                    work.extend(f.inst(strip_int_casts(f, v)) for (v, _) in y.d["incoming"])
                elif y.op in ("zext", "or", "select"):
                    work.extend(f.inst(strip_int_casts(f, v)) for v in y.ops if isinstance(v, dict))
                elif y.op == "icmp":
                    txt2 = _norm(f, y, True)
                    if txt2 and "toks_len" in txt2:
                        found.append((y, txt2))
    if not found:
        raise AnalysisBroken("R16-accept: no test of the token position against toks_len leads into the acceptance block")
    for (c, txt) in found:
        key = "error_recovery/accepted-when-all-tokens-consumed"
        if txt.replace(" ", "") in ("L[@tok_curr]+-1*L[@toks_len]>=0",):
            rep.ok("R16-accept", key, sample={"test": c.where(), "form": txt})
        else:
            rep.violation("R16-accept", key, "the alternative is accepted under `%s', not under tok_curr - toks_len >= 0: an alternative that has matched too few tokens and "
                          "stopped before the end marker counts as a recovery -- the parse then ends on a set without the accepting situation (0 returned, NULL tree)" % txt,
                          where=c.where(), witness=[c.where()])


def rule_push_costs(ctx, rep, config="c-lib"):
    rep.rule("R16-push-cost", "a recovery state that continues the state being tried (it is pushed with that state's back_toks) carries the cost accumulated so far -- the "
                              "running `cost', which counts the tokens skipped forward as well -- never the cost the state was popped with (the tokens already skipped would "
                              "be forgotten: fewer tokens are reported ignored than the tree shows replaced)")
    from ..model import strip_int_casts
    p = ctx.prog(config)
    f = p.fn("error_recovery")
    rep.cover(p, [f.name])
    n = 0
    for c in f.calls():
        if c.callee != "push_recovery_state" or len(c.args) < 3:
            continue
        bt = loaded_from(f, c.args[2])
        if bt is None or bt.last_field() != "recovery_state.back_toks":
            continue
        n += 1
        key = "error_recovery/continuing-state-cost#%d" % n
        v = f.inst(strip_int_casts(f, c.args[1]))
        while v is not None and v.op == "add" and const_int(v.ops[1]) is not None:
            v = f.inst(strip_int_casts(f, v.ops[0]))
        lp = None
        if v is not None and v.op == "load":
            lp = resolve_addr(f, v.ops[0]).last_field()
        # the running cost: the loop-carried value that starts as the popped cost and is incremented for every token skipped
        incs, inits = [], []
        for ph in f.all_insts():
            if ph.op != "phi":
                continue
            vals = [f.inst(strip_int_casts(f, x)) for (x, _) in ph.d["incoming"]]
            il = [x for x in vals if x is not None and x.op == "load" and resolve_addr(f, x.ops[0]).last_field() == "recovery_state.backward_move_cost"]
            if il:
                inits += il
                incs += [x for x in vals if x is not None and x.op == "add" and strip_int_casts(f, x.ops[0]).get("v") == ph.id]
        from .r14 import path_exists
        # the push can be reached from an increment of the running cost without the cost being re-initialised from the next popped state
        after_skip = any(path_exists(f, x, c, inits) for x in incs)
        if lp == "recovery_state.backward_move_cost" and after_skip:
            rep.violation("R16-push-cost", key, "the state is pushed with the cost its predecessor was popped with (state.backward_move_cost), not with the running cost: the "
                          "tokens the predecessor skipped forward before this point are not counted -- syntax_error reports fewer ignored tokens than were replaced",
                          where=c.where(), witness=[c.where()])
        else:
            rep.ok("R16-push-cost", key, sample={"push": c.where()})
    rep.floor("R16-push-cost", "pushes of continuing recovery states", n, 2)


def rule_hop_cost(ctx, rep, config="c-lib"):
    rep.rule("R16-hop", "find_error_pl_set (s, &cost) counts the tokens of the sets it walks over, from s down to the set it returns (exclusive).  When the back frontier "
                        "moves on from an old frontier F the walk starts at F - 1 (F itself would be found again), so the token whose shift gave pl[F] must be "
                        "counted by the caller: a call with start `F - 1' is followed by an increment of the same cost variable under "
                        "pl[F]->core->term != term_error -- otherwise every hop of the frontier forgets one token, fewer tokens are reported ignored than were replaced")
    from ..model import strip_int_casts
    from .r5 import _controlling_conditions
    from .r14 import path_exists
    p = ctx.prog(config)
    f = p.fn("error_recovery")
    rep.cover(p, [f.name])
    n = 0
    for c in f.calls():
        if c.callee != "find_error_pl_set":
            continue
        a0 = expr.lin(f, c.args[0], 0, 0)
        if not (a0.c == -1 and len(a0.t) == 1 and list(a0.t.values()) == [1]):
            continue        # the first search starts at the current set itself
        n += 1
        key = "error_recovery/hop-counts-the-old-frontier#%d" % n
        out = resolve_addr(f, c.args[1])
        comp = None
        wrong_set = None
        for s_ in f.all_insts():
            if s_.op != "store" or resolve_addr(f, s_.ops[1]).root != out.root:
                continue
            v = f.inst(strip_int_casts(f, s_.ops[0]))
            if v is None or v.op != "add":
                continue
            conds_ = None
            if const_int(v.ops[1]) == 1:
                l_ = f.inst(strip_int_casts(f, v.ops[0]))
                conds_ = list(_controlling_conditions(f, s_.block.name))
            else:
                # cost + (the truth value of the test, kept in a local): the comparison the 0 / 1 is made from
                l_ = None
                for (x_, y_) in ((0, 1), (1, 0)):
                    lx = f.inst(strip_int_casts(f, v.ops[x_]))
                    if lx is not None and lx.op == "load" and resolve_addr(f, lx.ops[0]).root == out.root:
                        l_ = lx
                        work_, seen_, conds_ = [v.ops[y_]], set(), []
                        while work_:
                            o_ = strip_int_casts(f, work_.pop())
                            if o_.get("k") != "i" or o_["v"] in seen_:
                                continue
                            seen_.add(o_["v"])
                            i_ = f.insts.get(o_["v"])
                            if i_ is None:
                                continue
                            if i_.op == "icmp":
                                conds_.append((i_, True))
                            elif i_.op in ("zext", "sext", "select"):
                                work_.extend(x for x in i_.ops if isinstance(x, dict))
                            elif i_.op == "phi" and all(const_int(x) in (0, 1) for (x, _) in i_.d["incoming"]):
                                for (x, pb) in i_.d["incoming"]:
                                    if const_int(x) == 1:
                                        from .r4 import _edge_conditions
                                        conds_.extend(_edge_conditions(f, pb, i_.block.name))
            if l_ is None or l_.op != "load" or resolve_addr(f, l_.ops[0]).root != out.root or conds_ is None:
                continue
            if not path_exists(f, c, s_, []):
                continue
            for (cc, pol) in conds_:
                a, b = loaded_from(f, cc.ops[0]), loaded_from(f, cc.ops[1])
                flds = set([(a.last_field() if a is not None else None), (b.last_field() if b is not None else None)])
                if flds == set(["set_core.term", "grammar.term_error"]) and (cc.d["pred"] == "ne") == pol:
                    # the set looked at is the one of the OLD frontier: pl[F] for the F whose F - 1 the walk started at
                    tl = f.inst(strip_casts(f, cc.ops[0] if (a is not None and a.last_field() == "set_core.term") else cc.ops[1]))
                    idx = None
                    for _ in range(3):
                        if tl is None or tl.op != "load":
                            break
                        pa_ = resolve_addr(f, tl.ops[0])
                        if pa_.steps and pa_.steps[-1][0] in ("idx", "ptr") and not pa_.fields():
                            idx = pa_.steps[-1][1]
                            break
                        tl = f.inst(strip_casts(f, pa_.root[1])) if pa_.root[0] == "val" else None
                    expr.NAMED[0] = True
                    try:
                        want = expr.lin(f, c.args[0], 0, 2)
                        got = expr.lin(f, idx, 0, 2) if idx is not None else None
                    finally:
                        expr.NAMED[0] = False
                    if got is not None and repr(got.add(want, -1)) == "1":
                        comp = s_
                    elif got is not None:
                        wrong_set = (s_, got, want)
        if comp is not None:
            rep.ok("R16-hop", key, sample={"walk": c.where(), "old_frontier_counted_at": comp.where()})
        elif wrong_set is not None:
            rep.violation("R16-hop", key, "the token of the old frontier is counted under a test of another set than the old frontier's: pl[%r] is looked at, the walk "
                          "started at %r (the old frontier minus one) -- after a hop onto a set made by an `error' shift the cost is off by one, the range reported to "
                          "syntax_error does not cover the tokens the tree lost" % (wrong_set[1], wrong_set[2]), where=wrong_set[0].where(), witness=[c.where(), wrong_set[0].where()])
        else:
            rep.violation("R16-hop", key, "the backward walk of a further hop starts one set below the old frontier and the token of the old frontier's own set is not "
                          "counted: back_to_frontier_move_cost is one too small per hop -- the first ignored token reported to syntax_error is too large and fewer "
                          "tokens are reported ignored than the tree shows replaced by `error'", where=c.where(), witness=[c.where()])
    rep.floor("R16-hop", "hops of the back frontier", n, 1)


def rule_frontier_state(ctx, rep, config="c-lib"):
    rep.rule("R16-frontier-state", "a recovery state made for a set found by find_error_pl_set (a new back frontier) has skipped nothing forward yet: the cost it is pushed "
                                   "with is the number of tokens between that set and the error token, and that same number is its back_toks -- syntax_error's range is "
                                   "[error token - back_toks, ... + cost): a back_toks smaller than the distance gone back puts the range behind the tokens really "
                                   "dropped (past the end of the input when the recovery only meets the end marker)")
    p = ctx.prog(config)
    f = p.fn("error_recovery")
    rep.cover(p, [f.name])
    finds = set(c.id for c in f.calls() if c.callee == "find_error_pl_set")

    def from_find(op, depth=0):
        o = strip_int_casts(f, op)
        if o.get("k") != "i" or depth > 4:
            return False
        if o["v"] in finds:
            return True
        i = f.inst(o)
        if i is not None and i.op == "phi":
            return all(from_find(v, depth + 1) for (v, _) in i.d["incoming"])
        if i is not None and i.op == "load":
            # a file-level variable: what every store of this function that reaches the load put there
            a = resolve_addr(f, i.ops[0])
            if a.root[0] != "g" or a.steps:
                return False
            sts = [s_ for s_ in f.all_insts() if s_.op == "store" and resolve_addr(f, s_.ops[1]).root == a.root and not resolve_addr(f, s_.ops[1]).steps]
            reach = [s_ for s_ in sts if path_exists(f, s_, i, [x for x in sts if x is not s_])]
            return bool(reach) and all(from_find(s_.ops[0], depth + 1) for s_ in reach)
        return False
    from .r14 import path_exists
    n = 0
    for c in f.calls():
        if c.callee != "push_recovery_state" or len(c.args) < 3 or not from_find(c.args[0]):
            continue
        n += 1
        key = "error_recovery/frontier-state#%d" % n
        a, b = expr.lin(f, c.args[1], 0, 0), expr.lin(f, c.args[2], 0, 0)
        same = repr(a) == repr(b)
        if not same:
            # two reads of one variable whose address was handed out (`&backward_move_cost'), with nothing in between that can write it
            expr.NAMED[0] = True
            try:
                na, nb = expr.lin(f, c.args[1], 0, 4), expr.lin(f, c.args[2], 0, 4)
            finally:
                expr.NAMED[0] = False
            la, lb = f.inst(strip_int_casts(f, c.args[1])), f.inst(strip_int_casts(f, c.args[2]))
            if repr(na) == repr(nb) and la is not None and lb is not None and la.op == "load" and lb.op == "load" and la.block is lb.block:
                lo, hi = sorted((la.idx, lb.idx))
                same = not any(x.op in ("store", "call") for x in la.block.insts[lo + 1:hi])
                a = na
        if same:
            rep.ok("R16-frontier-state", key, sample={"push": c.where(), "cost = back_toks": repr(a)})
        else:
            rep.violation("R16-frontier-state", key, "the state of a new back frontier is pushed with cost %r but back_toks %r: the first token reported ignored "
                          "(error token - back_toks) is not the first token dropped, and the range runs past the tokens replaced" % (a, b),
                          where=c.where(), witness=[c.where()])
    # (2) the token such a state starts at (new_recovery_state takes it from the file-level tok_curr) is the error token: start_tok_curr
    def writes(g, names, memo, depth=0):
        if g.name in memo:
            return memo[g.name]
        memo[g.name] = False
        r = False
        for i in g.all_insts():
            if i.op == "store":
                a = resolve_addr(g, i.ops[1])
                if a.root[0] == "g" and a.root[1] in names and not a.steps:
                    r = True
            elif i.is_call() and depth < 8:
                for t in p.call_targets(g, i):
                    h = p.m.functions.get(t)
                    if h is not None and not h.decl and writes(h, names, memo, depth + 1):
                        r = True
            if r:
                break
        memo[g.name] = r
        return r
    names = ("tok_curr", "start_tok_curr")
    memo = {}
    good, bad = [], []
    for i in f.all_insts():
        if i.op == "store":
            a = resolve_addr(f, i.ops[1])
            if a.root[0] != "g" or a.root[1] not in names or a.steps:
                continue
            src = loaded_from(f, i.ops[0])
            other = names[1 - names.index(a.root[1])]
            if src is not None and src.root == ("g", other) and not src.steps:
                good.append(i)
            else:
                bad.append(i)
        elif i.is_call() and i.callee != "push_recovery_state":
            for t in p.call_targets(f, i):
                h = p.m.functions.get(t)
                if h is not None and not h.decl and writes(h, names, memo):
                    bad.append(i)
                    break
    if not good:
        raise AnalysisBroken("R16-frontier-state: no assignment between tok_curr and start_tok_curr found in error_recovery")
    entry = f.blocks[0].insts[0]
    k = 0
    for c in f.calls():
        if c.callee != "push_recovery_state" or len(c.args) < 3 or not from_find(c.args[0]):
            continue
        k += 1
        key = "error_recovery/frontier-state-starts-at-error-token#%d" % k
        off = [b for b in bad + [entry] if b is not c and path_exists(f, b, c, good)]
        if off:
            rep.violation("R16-frontier-state", key, "the state of a new back frontier is made while tok_curr need not be the error token (start_tok_curr): after %s "
                          "the push is reached without `tok_curr = start_tok_curr' -- the state starts behind tokens that were skipped for another state and are "
                          "counted nowhere: fewer tokens are reported ignored than the tree lost" % off[0].where(), where=c.where(),
                          witness=[off[0].where(), c.where()])
        else:
            rep.ok("R16-frontier-state", key, sample={"push": c.where(), "tok_curr = start_tok_curr at": [g.where() for g in good][:3]})
    rep.floor("R16-frontier-state", "pushes of back-frontier states", n, 2)
