"""R7 -- provenance rules of the caller-visible tree and of the syntax_error arguments (T1, T3)."""
from ..model import resolve_addr, strip_casts, strip_int_casts, const_int, loaded_from
from ..core import AnalysisBroken
from .. import expr
from .r13 import via_global, chain_types, NODE_T
from .r5 import _controlling_conditions


def _l(f, op):
    expr.NAMED[0] = True
    try:
        return repr(expr.lin(f, op, 0, 3))
    finally:
        expr.NAMED[0] = False


def rule_T3(ctx, rep, config="c-lib"):
    rep.rule("T3", "syntax_error call sites: every attribute argument is the attribute of the token whose index is the preceding argument (load of toks[index].attr with the "
                   "same index expression); with recovery off the recovery arguments are the constants (-1, NULL, -1, NULL), the call is the only one (no path from it to "
                   "another syntax_error call or back into the token loop) and the error token is the current token")
    p = ctx.prog(config)
    m = p.m
    sites = []
    for f in m.defined():
        for i in f.calls():
            if via_global(f, i, "syntax_error"):
                sites.append((f, i))
    if len(sites) < 2:
        raise AnalysisBroken("fewer than two syntax_error call sites")
    n = 0
    for (f, i) in sites:
        rep.cover(p, [f.name])
        n += 1
        key = "%s/syntax_error#%d" % (f.name, n)
        a = i.args
        if len(a) != 6:
            rep.violation("T3", key, "syntax_error is called with %d arguments" % len(a), where=i.where())
            continue
        off = all(const_int(a[k]) == -1 for k in (2, 4)) and all(a[k].get("k") == "null" for k in (3, 5))
        pairs = [(0, 1)] if off else [(0, 1), (2, 3), (4, 5)]
        bad = None
        for (ki, ka) in pairs:
            idx = _l(f, a[ki])
            lp = loaded_from(f, a[ka])
            if lp is None or lp.last_field() != "tok.attr":
                bad = "argument %d is not the attribute field of a token" % (ka + 1)
                break
            # address = toks + index
            ai = f.inst(strip_casts(f, a[ka]))
            pa = resolve_addr(f, ai.ops[0])
            base = loaded_from(f, pa.root[1]) if pa.root[0] == "val" else None
            if base is None or base.root != ("g", "toks"):
                bad = "argument %d is not taken from the token array" % (ka + 1)
                break
            ix = [s for s in pa.steps if s[0] in ("idx", "ptr")]
            if len(ix) != 1 or _l(f, ix[0][1]) != idx:
                bad = "argument %d is the attribute of token %s but argument %d reports token %s" % (ka + 1, _l(f, ix[0][1]) if ix else "?", ki + 1, idx)
                break
        if bad:
            rep.violation("T3", key, "inconsistent syntax_error arguments: %s" % bad, where=i.where(), witness=[i.where()])
            continue
        if off:
            # only call: nothing reachable from here calls syntax_error again
            after = _reachable_following_flags(f, i.block)
            again = [j for (g, j) in sites if g is f and j.block.name in after]
            if again:
                rep.violation("T3", key, "with error recovery off the parser can report a second syntax error (or continue parsing) after the first one", where=i.where(),
                              witness=[i.where(), again[0].where()])
                continue
        rep.ok("T3", key, sample={"site": i.where(), "recovery": "off" if off else "on"})
    # recovery on/off selection: the off-site is under error_recovery_p == 0
    from .r5 import _controlling_conditions
    offs = [(f, i) for (f, i) in sites if const_int(i.args[2]) == -1]
    ons = [(f, i) for (f, i) in sites if const_int(i.args[2]) is None]
    if len(offs) == 1 and len(ons) == 1:
        f, i = offs[0]
        conds = _controlling_conditions(f, i.block.name)
        okc = any(loaded_from(f, c.ops[0]) is not None and loaded_from(f, c.ops[0]).last_field() == "grammar.error_recovery_p" and ((c.d["pred"] == "eq") == pol) for (c, pol) in conds)
        g, j = ons[0]
        conds2 = _controlling_conditions(g, j.block.name)
        okc2 = any(loaded_from(g, c.ops[0]) is not None and loaded_from(g, c.ops[0]).last_field() == "grammar.error_recovery_p" and ((c.d["pred"] == "ne") == pol) for (c, pol) in conds2)
        rec = [x for x in g.calls() if x.callee == "error_recovery" and g.inst_dominates(x, j)]
        if okc and okc2 and rec:
            rep.ok("T3", "recovery-switch", sample={"off_site": i.where(), "on_site": j.where()})
        else:
            rep.violation("T3", "recovery-switch", "the choice between plain reporting and error recovery is not made by the error recovery flag", where=j.where())
    else:
        rep.violation("T3", "recovery-switch", "expected one recovery-on and one recovery-off syntax_error site", where=sites[0][1].where())
    rep.floor("T3", "syntax_error call sites", n, 2)


def rule_T1(ctx, rep, config="c-lib"):
    rep.rule("T1", "what the caller-visible tree contains: TERM.attr is assigned only the attribute of the token at the derived position (load of toks[pl_ind].attr), TERM.code "
                   "only the terminal's code (load of symb.u.term.code); token attributes come only from the read_token callback's out-parameter or NULL (end marker); "
                   "*root receives only make_parse's result or NULL; child arrays live inside their node's parse_alloc block")
    p = ctx.prog(config)
    m = p.m
    n = 0
    for f in m.defined():
        for s in f.all_insts():
            if s.op != "store":
                continue
            pa = resolve_addr(f, s.ops[1])
            fld = pa.last_field()
            if pa.root[0] == "alloca":
                # local struct tok in tok_add
                if fld == "tok.attr":
                    n += 1
                    v = strip_casts(f, s.ops[0])
                    key = "%s/tok.attr" % f.name
                    if v.get("k") == "a" and f.args[v["v"]]["name"] == "attr":
                        rep.ok("T1", key)
                    else:
                        rep.violation("T1", key, "a token's attribute is not the attribute handed to tok_add", where=s.where())
                continue
            if fld == "yaep_term.attr":
                n += 1
                key = "%s/term.attr" % f.name
                lp = loaded_from(f, s.ops[0])
                ok = lp is not None and lp.last_field() == "tok.attr"
                if ok:
                    # index is pl_ind (the token position the terminal derives)
                    ai = f.inst(strip_casts(f, s.ops[0]))
                    pa2 = resolve_addr(f, ai.ops[0])
                    ix = [st for st in pa2.steps if st[0] in ("idx", "ptr")]
                    # the same index selects term_node_array / the asserted symbol: it must be the variable pl_ind
                    ok = len(ix) == 1 and _l(f, ix[0][1]) in ("pl_ind", "pl_ind + -1", "-1 + pl_ind") or (len(ix) == 1 and "pl_ind" in _l(f, ix[0][1]))
                if ok:
                    rep.ok("T1", key, sample={"store": s.where()})
                else:
                    rep.violation("T1", key, "a TERM node's attribute is not the attribute of the input token at the position it derives", where=s.where(), witness=[s.where()])
            elif fld == "yaep_term.code":
                n += 1
                key = "%s/term.code" % f.name
                lp = loaded_from(f, s.ops[0])
                if lp is not None and lp.last_field() == "symb.u.term.code":
                    rep.ok("T1", key, sample={"store": s.where()})
                else:
                    rep.violation("T1", key, "a TERM node's code is not the code of the terminal symbol", where=s.where(), witness=[s.where()])
            elif fld == "yaep_anode.children":
                n += 1
                key = "%s/anode.children" % f.name
                hdr = m.structs["yaep_tree_node"]["size"]
                node = pa.root[1] if pa.root[0] == "val" else None
                ok = node is not None and expr.lin(f, s.ops[0], 0, 0) == expr.lin(f, node, 0, 0).add(expr.Lin(hdr))
                if ok:
                    rep.ok("T1", key, sample={"store": s.where()})
                else:
                    rep.violation("T1", key, "an abstract node's child array is not the tail of the node's own block", where=s.where(), witness=[s.where()])
            elif fld == "yaep_anode.cost":
                pass
    # read_toks: attribute passed to tok_add is the callback's out-parameter
    rt = p.fn("read_toks")
    cb = [i for i in rt.calls() if via_global(rt, i, "read_token")]
    adds = [i for i in rt.calls() if i.callee == "tok_add"]
    ok = len(cb) == 1
    if ok:
        out = resolve_addr(rt, cb[0].args[0])
        for a in adds:
            v = a.args[1]
            if v.get("k") == "null":
                continue
            lp = loaded_from(rt, v)
            if lp is None or lp.root != out.root:
                ok = False
    n += 1
    if ok:
        rep.ok("T1", "read_toks/attribute-source")
    else:
        rep.violation("T1", "read_toks/attribute-source", "a token attribute does not come from the read_token callback", where=rt.where())
    # *root
    yp = p.fn("yaep_parse")
    k = [j for j, a in enumerate(yp.args) if a["name"] == "root"][0]
    for s in yp.all_insts():
        if s.op == "store" and resolve_addr(yp, s.ops[1]).root == ("a", k) and not resolve_addr(yp, s.ops[1]).steps:
            n += 1
            v = strip_casts(yp, s.ops[0])
            vi = yp.inst(v)
            if v.get("k") == "null" or (vi is not None and vi.is_call() and vi.callee == "make_parse"):
                rep.ok("T1", "yaep_parse/*root@%d" % n)
            else:
                rep.violation("T1", "yaep_parse/*root@%d" % n, "*root is assigned something else than make_parse's result", where=s.where())
    rep.floor("T1", "tree-content assignments", n, 7)


def rule_translation_reading(ctx, rep, config="c-lib"):
    rep.rule("T1-transl", "reading of a rule's translation list in yaep_read_grammar: for the i-th element el >= 0 of the list, order[el] = i is stored (index = the element, "
                          "value = its position) and trans_len is incremented once per accepted element, including the NIL element; the implicit start rule translates "
                          "its first symbol (order[0] = 0, trans_len = 1) and the implicit error rule nothing (trans_len = 0)")
    p = ctx.prog(config)
    f = p.fn("yaep_read_grammar")
    rep.cover(p, [f.name])
    from .c10 import roles_of
    expr.NAMED[0] = True
    expr.ROLES[0] = roles_of(f)
    try:
        stores = []
        for s in f.all_insts():
            if s.op != "store":
                continue
            pa = resolve_addr(f, s.ops[1])
            if pa.root[0] != "val" or pa.fields():
                continue
            lp = loaded_from(f, pa.root[1])
            if lp is None or lp.last_field() != "rule.order":
                continue
            ixs = [st for st in pa.steps if st[0] in ("ptr", "idx")]
            if len(ixs) > 1:
                continue
            stores.append((s, repr(expr.lin(f, ixs[0][1], 0, 3)) if ixs else "0", repr(expr.lin(f, s.ops[0], 0, 3))))
    finally:
        expr.NAMED[0] = False
        expr.ROLES[0] = None
    listed = [(s, ix, v) for (s, ix, v) in stores if "out3(read_rule)" in ix]
    start = [(s, ix, v) for (s, ix, v) in stores if ix == "0"]
    if len(listed) == 1 and listed[0][1].startswith("L[(L[&out3(read_rule)])[") and listed[0][2] in listed[0][1] and "[" + listed[0][2] + "]" in listed[0][1]:
        rep.ok("T1-transl", "yaep_read_grammar/order[el]=i", sample={"store": listed[0][0].where(), "index": listed[0][1], "value": listed[0][2]})
    else:
        rep.violation("T1-transl", "yaep_read_grammar/order[el]=i", "the translation order of a rule is not recorded as order[element] = position: %s" % [(ix, v) for (_, ix, v) in listed],
                      where=listed[0][0].where() if listed else f.where())
    if len(start) == 1 and start[0][2] == "0":
        rep.ok("T1-transl", "yaep_read_grammar/start-rule-order")
    else:
        rep.violation("T1-transl", "yaep_read_grammar/start-rule-order", "the implicit rule $S : <start> $eof does not translate its first symbol", where=f.where())
    # trans_len: increments (+1 of its own load) and constant stores
    incs, consts = [], []
    for s in f.all_insts():
        if s.op == "store" and resolve_addr(f, s.ops[1]).last_field() == "rule.trans_len":
            c = const_int(s.ops[0])
            if c is not None:
                consts.append((s, c))
            else:
                l = expr.lin(f, s.ops[0], 0, 1)
                if l.c == 1 and len(l.t) == 1 and list(l.t.values())[0] == 1 and list(l.t.keys())[0].endswith("rule.trans_len]"):
                    incs.append(s)
                else:
                    consts.append((s, None))
    if len(incs) == 2 and sorted(c for (_, c) in consts if c is not None) == [0, 1] and all(c is not None for (_, c) in consts):
        rep.ok("T1-transl", "yaep_read_grammar/trans_len", sample={"increments": [s.where() for s in incs], "constants": [c for (_, c) in consts]})
    else:
        rep.violation("T1-transl", "yaep_read_grammar/trans_len", "trans_len is not counted once per accepted translation element (increments: %d, constant stores: %s)" % (
            len(incs), [c for (_, c) in consts]), where=f.where())
    # consumer/producer agreement: make_parse gives an anode-less rule the NIL translation exactly when trans_len == 0 (nothing else places a
    # node for it), so the reader may count a NIL element (an increment without order[] store) only for rules with an abstract node
    roles = roles_of(f)
    order_blocks = set(s.block.name for (s, _, _) in stores)
    for s in incs:
        if s.block.name in order_blocks:
            continue
        key = "yaep_read_grammar/nil-element-counted-only-with-abstract-node"
        okc = False
        for (c, pol) in _controlling_conditions(f, s.block.name):
            a = f.inst(c.ops[0])
            if a is not None and a.op == "load" and c.ops[1].get("k") == "null":
                pa = resolve_addr(f, a.ops[0])
                if pa.root[0] == "alloca" and roles.get(("alloca", pa.root[1])) == "out1(read_rule)" and (c.d["pred"] == "ne") == pol:
                    okc = True
        if okc:
            rep.ok("T1-transl", key, sample={"increment": s.where()})
        else:
            rep.violation("T1-transl", key, "a `-' (NIL) element is counted into trans_len also for a rule without abstract node: make_parse places the NIL node for such a "
                          "rule only when trans_len == 0, so `A : x # -' translates to nothing -- a NULL root, or a lost alternative when all parses are requested",
                          where=s.where(), witness=[s.where()])
    # rule_new_start: a fresh rule starts with trans_len 0 and anode cost 0 without abstract node
    g = p.fn("rule_new_start")
    z = [s for s in g.all_insts() if s.op == "store" and resolve_addr(g, s.ops[1]).last_field() == "rule.trans_len" and const_int(s.ops[0]) == 0]
    if z:
        rep.ok("T1-transl", "rule_new_start/trans_len=0")
    else:
        rep.violation("T1-transl", "rule_new_start/trans_len=0", "a new rule does not start with an empty translation", where=g.where())


def rule_first_ignored(ctx, rep, config="c-lib"):
    rep.rule("T3-start", "the first ignored token reported after a recovery is  error token - (tokens dropped behind the error token): the value subtracted from "
                         "start_tok_curr is a pure backward distance -- its reaching definitions are the distances returned by find_error_pl_set (and sums of them) "
                         "handed from state to state, never a cost that also counts the tokens skipped ahead (cost + 1 per skipped token).  Otherwise the index can pass "
                         "below 0 and build_pl reads toks[-1]")
    p = ctx.prog(config)
    f = p.fn("error_recovery")
    rep.cover(p, [f.name, "new_recovery_state", "push_recovery_state"])
    # the store to *start whose value is start_tok_curr - X
    target = None
    for s_ in f.all_insts():
        if s_.op != "store":
            continue
        pa = resolve_addr(f, s_.ops[1])
        if pa.root != ("a", 0):
            continue
        v = f.inst(strip_int_casts(f, s_.ops[0]))
        if v is not None and v.op == "sub":
            lp = loaded_from(f, v.ops[0])
            if lp is not None and lp.root == ("g", "start_tok_curr"):
                target = (s_, v.ops[1])
    if target is None:
        raise AnalysisBroken("T3-start: the computation  *start = start_tok_curr - ..  was not found in error_recovery")
    s_, sub = target
    xp = loaded_from(f, sub)
    if xp is None or not (xp.last_field() or "").startswith("recovery_state."):
        raise AnalysisBroken("T3-start: the subtrahend is not a member of a recovery state")
    fld = xp.last_field()
    # which parameter of new_recovery_state feeds the field
    g = p.fn("new_recovery_state")
    pk = None
    for st in g.all_insts():
        if st.op == "store" and resolve_addr(g, st.ops[1]).last_field() == fld:
            o = strip_int_casts(g, st.ops[0])
            if o.get("k") == "a":
                pk = o["v"]
    if pk is None:
        raise AnalysisBroken("T3-start: new_recovery_state does not store a parameter into %s" % fld)
    h = p.fn("push_recovery_state")
    hk = None
    for c in h.calls():
        if c.callee == "new_recovery_state":
            o = strip_int_casts(h, c.args[pk])
            if o.get("k") == "a":
                hk = o["v"]
    out_allocas = set()
    for c in f.calls():
        if c.callee == "find_error_pl_set":
            pa = resolve_addr(f, c.args[1])
            if pa.root[0] == "alloca":
                out_allocas.add(pa.root[1])

    def backward_only(op, seen):
        o = strip_int_casts(f, op)
        if const_int(o) == 0:
            return True
        if o.get("k") != "i":
            return False
        if o["v"] in seen:
            return True
        seen = seen | set([o["v"]])
        i = f.inst(o)
        if i is None:
            return False
        if i.op == "load":
            pa = resolve_addr(f, i.ops[0])
            if pa.root[0] == "alloca" and pa.root[1] in out_allocas and not pa.steps:
                return True
            return pa.last_field() == fld
        if i.op == "add":
            return backward_only(i.ops[0], seen) and backward_only(i.ops[1], seen)
        if i.op == "phi":
            return all(backward_only(v, seen) for (v, _) in i.d["incoming"] if v.get("k") != "undef")
        return False
    n = 0
    bad = []
    for c in f.calls():
        k = pk if c.callee == "new_recovery_state" else (hk if c.callee == "push_recovery_state" else None)
        if k is None:
            continue
        n += 1
        if not backward_only(c.args[k], set()):
            bad.append(c)
    if n < 4:
        raise AnalysisBroken("T3-start: %d creations of recovery states in error_recovery (5 confirmed by reading)" % n)
    if bad:
        rep.violation("T3-start", "error_recovery/first-ignored", "`%s', which is subtracted from the error token's number to give the first ignored token, receives a cost that "
                      "also counts tokens skipped after the error token (state created at %s): for a recovery that skips ahead the reported first ignored index is too "
                      "small, it can be negative, and build_pl reads toks[-1]" % (fld.split(".")[-1], bad[0].where()), where=s_.where(), witness=[c.where() for c in bad][:4] + [s_.where()])
    else:
        rep.ok("T3-start", "error_recovery/first-ignored", sample={"member": fld, "state_creations": n})


def _reachable_following_flags(f, start):
    """blocks reachable from the end of `start', following a truth value that is carried in a phi of constants (`ok = FALSE; ... if (ok) continue; else break;',
    an inlined helper that returns whether to go on) along the path it was set on"""
    def ev(op, env, depth=0):
        k = const_int(op)
        if k is not None:
            return k
        if op.get("k") != "i" or depth > 6:
            return None
        if op["v"] in env:
            return env[op["v"]]
        x = f.insts.get(op["v"])
        if x is None:
            return None
        if x.op in ("zext", "sext", "trunc"):
            v = ev(x.ops[0], env, depth + 1)
            return None if v is None else (v & 1 if x.ty == "i1" else v)
        if x.op == "icmp" and x.d["pred"] in ("eq", "ne"):
            a, b = ev(x.ops[0], env, depth + 1), ev(x.ops[1], env, depth + 1)
            if a is None or b is None:
                return None
            return int((a == b) == (x.d["pred"] == "eq"))
        if x.op == "xor" and x.ty == "i1":
            a = ev(x.ops[0], env, depth + 1)
            return None if a is None else 1 - a
        return None
    seen = set()
    out = set()
    work = [(start.name, s_, ()) for s_ in start.succs]
    while work:
        pb, bn, envt = work.pop()
        env = dict(envt)
        b = f.bmap[bn]
        for x in b.insts:
            if x.op != "phi":
                break
            env.pop(x.id, None)
            for (v, p_) in x.d["incoming"]:
                if p_ == pb:
                    val = ev(v, dict(envt))
                    if val is not None:
                        env[x.id] = val
        key = (bn, tuple(sorted(env.items())))
        if key in seen or len(seen) > 20000:
            continue
        seen.add(key)
        out.add(bn)
        t = b.term
        succs = list(b.succs)
        if t is not None and t.op == "br" and len(t.ops) == 3:
            c = ev(t.ops[0], env)
            if c is not None:
                succs = [t.ops[2]["v"]] if c else [t.ops[1]["v"]]
        for s_ in succs:
            work.append((bn, s_, tuple(sorted(env.items()))))
    return out
