"""R1 -- current-object and per-call state discipline (upward-exposed uses).

Forward "definitely written" dataflow over every function, bottom-up over the
call graph with per-function summaries:

  UE(f)  cells that may be read before being written on some path from f's entry
  MW(f)  cells written on every path from f's entry to a normal return

Cells: ('g', G) for scalar file-scope variables, ('gf', G, field) for the fields of
struct-typed file-scope variables (the C containers os_t / vlo_t), and, inside a
callee, ('pf', argno, field) for fields reached through a pointer parameter (mapped
to the caller's cell when the actual argument is the address of a struct global).

Guard-qualified facts.  The library creates some per-parse tables only under a
condition on global state (`!grammar->one_parse_p', `parse_free != NULL') and
uses them under the same condition.  The state therefore also carries
  A  guards (canonical condition over global memory, polarity) known to hold
  Q  pairs (cell, guard): "if guard holds now, cell has been written"
and a may-set K of global locations possibly stored to since function entry.  A
store (or a call that may store) to a location a guard reads kills the guard.
Nothing here is a heuristic: a read is accepted only if on every path a write
precedes it, or the guard under which it is read implies such a write.
"""
from ..model import resolve_addr, strip_casts, const_int
from ..core import AnalysisBroken, setjmp_regions

CONTEXT_GLOBALS = ["grammar", "symbs_ptr", "term_sets_ptr", "rules_ptr"]


def tracked_globals(m):
    """mutable file-scope variables defined by the library: scalars and structs"""
    scal, strc = set(), set()
    for n, g in m.globals.items():
        if g.get("const") or g.get("decl"):
            continue
        if "@" in n and (n.startswith(".str") or n.startswith("__")):
            continue
        ty = g["ty"]
        if ty.startswith("["):
            continue
        if ty.startswith("%") and not ty.endswith("*"):
            strc.add(n)
        else:
            scal.add(n)
    return scal, strc


class State(object):
    __slots__ = ("W", "Q", "A", "K")

    def __init__(self, W=frozenset(), Q=frozenset(), A=frozenset(), K=frozenset()):
        self.W, self.Q, self.A, self.K = W, Q, A, K

    def key(self):
        return (self.W, self.Q, self.A, self.K)

    def __eq__(self, o):
        return o is not None and self.key() == o.key()

    def __ne__(self, o):
        return not self.__eq__(o)


def neg(g):
    return (g[0], not g[1])


def join(s1, s2):
    W = s1.W & s2.W
    A = s1.A & s2.A
    K = s1.K | s2.K
    cands = set(s1.Q) | set(s2.Q)
    for (a, b) in ((s1, s2), (s2, s1)):
        for c in a.W - b.W:
            for g in b.A:
                cands.add((c, neg(g)))
    Q = set()
    for (c, g) in cands:
        if c in W:
            continue
        ok = True
        for s in (s1, s2):
            if not (c in s.W or (c, g) in s.Q or neg(g) in s.A):
                ok = False
                break
        if ok:
            Q.add((c, g))
    return State(W, frozenset(Q), A, K)


class R1(object):
    def __init__(self, prog):
        self.p = prog
        self.m = prog.m
        self.scal, self.strc = tracked_globals(self.m)
        self.ue = {}      # fn -> {cell: list of alt-guard frozensets; [] with an empty set = unconditional}
        self.mw = {}      # fn -> set of cells
        self.mwq = {}     # fn -> set of (cell, guard)
        self.ue_site = {}  # fn -> {cell: witness path (list of str)}
        self.mayw = {}
        self.mw_status = {}
        self._simple = {}
        self.guard_support = {}
        self.handler_blocks = {}
        self._mayw()
        self._solve()

    # -- may-write summary (locations: ('g',name) / ('fld',key)) -----------------------
    def _loc_of_addr(self, f, op):
        p = resolve_addr(f, op)
        fl = p.last_field()
        if fl is not None:
            return ("fld", fl)
        if p.root[0] == "g":
            return ("g", p.root[1])
        if p.root[0] == "alloca" and not p.steps:
            return ("al", f.name, p.root[1])
        return None

    def _mayw(self):
        direct = {}
        for f in self.m.defined():
            s = set()
            for i in f.all_insts():
                if i.op == "store":
                    l = self._loc_of_addr(f, i.ops[1])
                    if l is not None:
                        s.add(l)
            direct[f.name] = s
        for f in self.m.defined():
            acc = set()
            for g in self.p.reach(f.name):
                acc |= direct.get(g, set())
            self.mayw[f.name] = acc

    # -- guards -------------------------------------------------------------------------
    def _expr(self, f, op, sup, depth=0):
        """canonical string of an expression over global memory, or None"""
        if depth > 6:
            return None
        k = op.get("k")
        if k == "c":
            return str(op["v"])
        if k == "null":
            return "null"
        if k == "i":
            i = f.insts.get(op["v"])
            if i is None:
                return None
            if i.op == "load":
                return self._addr_expr(f, i.ops[0], sup, depth + 1)
            if i.op in ("zext", "sext", "trunc", "bitcast"):
                return self._expr(f, i.ops[0], sup, depth + 1)
            return None
        return None

    def _addr_expr(self, f, addr, sup, depth):
        p = resolve_addr(f, addr)
        if p.has_index():
            return None
        r = p.root
        if r[0] == "g":
            base = "@" + r[1]
            if not p.steps:
                sup.add(("g", r[1]))
        elif r[0] == "alloca" and not p.steps:
            sup.add(("al", f.name, r[1]))
            return "L[%%%s.alloca#%d]" % (f.name, r[1])
        elif r[0] == "val":
            inner = self._expr(f, r[1], sup, depth + 1)
            if inner is None:
                return None
            base = "(" + inner + ")"
        else:
            return None
        s = base
        for st in p.steps:
            if st[0] == "f":
                s += "." + st[1]
            elif st[0] == "cast":
                continue
            else:
                return None
        fl = p.last_field()
        if fl is not None:
            sup.add(("fld", fl))
        elif r[0] != "g":
            return None
        return "L[" + s + "]"

    def guard_of_cond(self, f, op, depth=0):
        """(guardkey, polarity-adjusted) for a branch condition operand, or None.
        Returned guard g means: condition true <=> g holds."""
        if op.get("k") != "i" or depth > 4:
            return None
        i = f.insts.get(op["v"])
        if i is None:
            return None
        if i.op == "xor" and const_int(i.ops[1]) in (1, -1) and i.ty == "i1":
            g = self.guard_of_cond(f, i.ops[0], depth + 1)
            return neg(g) if g else None
        if i.op == "icmp" and i.d["pred"] in ("eq", "ne"):
            # local guard on an SSA value (status result of a call, setjmp result)
            for x, y in ((i.ops[0], i.ops[1]), (i.ops[1], i.ops[0])):
                if (const_int(y) == 0 or y.get("k") == "null") and x.get("k") == "i":
                    xs = strip_casts(f, x)
                    xi = f.insts.get(xs["v"]) if xs.get("k") == "i" else None
                    if xi is not None and xi.is_call():
                        return ("%%%s#%d!=0" % (f.name, xi.id), i.d["pred"] == "ne")
        if i.op == "icmp":
            sup = set()
            a = self._expr(f, i.ops[0], sup)
            b = self._expr(f, i.ops[1], sup)
            if a is None or b is None or not sup:
                return None
            pred = i.d["pred"]
            if pred in ("eq", "ne") and b in ("0", "null"):
                gk = (a + "!=0", pred == "ne")
            elif pred in ("eq", "ne") and a in ("0", "null"):
                gk = (b + "!=0", pred == "ne")
            else:
                gk = ("%s %s %s" % (a, pred, b), True)
            self.guard_support[gk[0]] = frozenset(sup)
            return gk
        return None

    def support(self, g):
        return self.guard_support.get(g[0], frozenset())

    # -- cell helpers ---------------------------------------------------------------------
    def cell_of_addr(self, f, op):
        p = resolve_addr(f, op)
        r = p.root
        if r[0] == "g":
            g = r[1]
            if g in self.scal and not p.steps:
                return ("g", g)
            if g in self.strc:
                fl = [s for s in p.steps if s[0] == "f"]
                if fl and not any(s[0] in ("idx", "ptr") for s in p.steps[: p.steps.index(fl[0])]):
                    return ("gf", g, fl[0][1])
            return None
        if r[0] == "a":
            fl = [s for s in p.steps if s[0] == "f"]
            if fl and p.steps[0] == fl[0]:
                return ("pf", r[1], fl[0][1])
        if r[0] == "alloca" and not p.steps:
            a = f.insts[r[1]]
            ty = a.d.get("alloc_ty", "")
            if not ty.startswith("[") and not (ty.startswith("%") and not ty.endswith("*")) and self._simple_alloca(f, a):
                return ("al", f.name, r[1])
            return None
        if r[0] == "val":
            # field of the current grammar object:  grammar->F
            fl = [s for s in p.steps if s[0] == "f"]
            if fl and p.steps[0] == fl[0] and fl[0][1].startswith("grammar."):
                b = strip_casts(f, r[1])
                bi = f.insts.get(b["v"]) if b.get("k") == "i" else None
                if bi is not None and bi.op == "load":
                    bp = resolve_addr(f, bi.ops[0])
                    if bp.root == ("g", "grammar") and not bp.steps:
                        return ("cf", fl[0][1])
        return None

    def _simple_alloca(self, f, a):
        """a local that is only loaded and stored directly (a flag), never passed by address"""
        key = (f.name, a.id)
        if key not in self._simple:
            ok = True
            for u in f.uses().get(a.id, []):
                if u.op == "load":
                    continue
                if u.op == "store" and u.ops[1].get("k") == "i" and u.ops[1]["v"] == a.id and not (u.ops[0].get("k") == "i" and u.ops[0]["v"] == a.id):
                    continue
                ok = False
            self._simple[key] = ok
        return self._simple[key]

    def struct_fields(self, g):
        ty = self.m.globals[g]["ty"].lstrip("%")
        st = self.m.structs.get(ty)
        if st is None:
            return []
        return ["%s.%s" % (ty, fld["name"]) for fld in st["fields"]]

    def map_callee_cell(self, f, call, cell):
        if cell[0] in ("g", "gf", "cf"):
            return [cell]
        if cell[0] == "al":
            return []
        if cell[0] == "pf":
            k = cell[1]
            if k >= len(call.args):
                return []
            a = strip_casts(f, call.args[k])
            p = resolve_addr(f, a)
            if p.root[0] == "g" and p.root[1] in self.strc and not p.steps:
                return [("gf", p.root[1], cell[2])]
            if p.root[0] == "a" and not p.steps:
                return [("pf", p.root[1], cell[2])]
            if cell[2].startswith("grammar.") and a.get("k") == "i":
                ai = f.insts.get(a["v"])
                if ai is not None and ai.op == "load":
                    bp = resolve_addr(f, ai.ops[0])
                    if bp.root == ("g", "grammar") and not bp.steps:
                        return [("cf", cell[2])]
            return []
        return []

    def _loc_of_cell(self, c):
        if c[0] == "g":
            return ("g", c[1])
        if c[0] in ("gf", "pf"):
            return ("fld", c[2])
        if c[0] == "cf":
            return ("fld", c[1])
        return None

    # -- handler regions ---------------------------------------------------------------------
    def _handler_blocks(self, f):
        if f.name in self.handler_blocks:
            return self.handler_blocks[f.name]
        hb = set()
        for sj in self.p.setjmp_calls(f):
            h, n = setjmp_regions(f, sj)
            for b in f.rblocks():
                if f.dominates(h, b.name):
                    hb.add(b.name)
        self.handler_blocks[f.name] = hb
        return hb

    # -- per function analysis ---------------------------------------------------------------
    def _analyse(self, f):
        ue = {}
        ue_site = {}
        blocks = f.rblocks()
        hb = self._handler_blocks(f)
        armed = []
        for sj in self.p.setjmp_calls(f):
            h_, n_ = setjmp_regions(f, sj)
            armed.append((sj, h_, n_))
        hentry = set(h_ for (_, h_, _) in armed)
        self._handler_in = {}
        IN = {b.name: None for b in blocks}
        OUT = {b.name: None for b in blocks}   # per-successor states: dict succ -> State
        IN[f.entry.name] = State()
        work = True
        rounds = 0
        while work:
            work = False
            rounds += 1
            if rounds > 60:
                raise AnalysisBroken("R1: no convergence in " + f.name)
            for b in blocks:
                if b is f.entry:
                    s = State()
                elif b.name in hentry:
                    # a handler is entered only by longjmp: meet over the may-throw sites of the armed region
                    s = self._handler_in.get(b.name)
                    if s is None:
                        continue
                    # the fact established by the `setjmp (..) != 0' branch itself
                    for pn in b.preds:
                        t_ = f.bmap[pn].term
                        if t_ is not None and t_.op == "br" and len(t_.ops) == 3:
                            g_ = self.guard_of_cond(f, t_.ops[0])
                            if g_ is not None and t_.ops[1]["v"] != t_.ops[2]["v"]:
                                s = State(s.W, s.Q, s.A | {g_ if t_.ops[2]["v"] == b.name else neg(g_)}, s.K)
                else:
                    s = None
                    for pn in b.preds:
                        o = OUT.get(pn)
                        if o is None:
                            continue
                        e = o.get(b.name)
                        if e is None:
                            continue
                        s = e if s is None else join(s, e)
                    if s is None:
                        continue
                if IN[b.name] is not None and IN[b.name] == s and OUT[b.name] is not None:
                    continue
                IN[b.name] = s
                cur = [set(s.W), set(s.Q), set(s.A), set(s.K)]
                in_h = False
                regions = [h_ for (_, h_, n_) in armed if f.dominates(n_, b.name)]
                for i in b.insts:
                    if regions and i.is_call() and self.p.call_may_throw(f, i):
                        # state in which the handler may be entered from here: what is written before the
                        # call, minus the guards the callee may invalidate before it throws
                        snap = [set(cur[0]), set(cur[1]), set(cur[2]), set(cur[3])]
                        kl = set()
                        for t in self.p.call_targets(f, i):
                            kl |= self.mayw.get(t, set())
                        self._kill(snap, kl)
                        # what was known about the value setjmp returned the first time does not hold for the second return
                        sjkeys = set("%%%s#%d!=0" % (f.name, sj_.id) for (sj_, _, _) in armed)
                        snap[2] = set(g_ for g_ in snap[2] if g_[0] not in sjkeys)
                        snap[1] = set(x_ for x_ in snap[1] if x_[1][0] not in sjkeys)
                        st = State(frozenset(snap[0]), frozenset(snap[1]), frozenset(snap[2]), frozenset(snap[3]))
                        for h_ in regions:
                            old = self._handler_in.get(h_)
                            new = st if old is None else join(old, st)
                            if old is None or new != old:
                                self._handler_in[h_] = new
                                work = True
                    self._transfer(f, i, cur, ue, ue_site, in_h)
                base = State(frozenset(cur[0]), frozenset(cur[1]), frozenset(cur[2]), frozenset(cur[3]))
                outs = {}
                t = b.term
                if t is not None and t.op == "br" and len(t.ops) == 3:
                    g = self.guard_of_cond(f, t.ops[0])
                    td, fd = t.ops[2]["v"], t.ops[1]["v"]
                    if g is not None and td != fd:
                        outs[td] = State(base.W, base.Q, base.A | {g}, base.K)
                        outs[fd] = State(base.W, base.Q, base.A | {neg(g)}, base.K)
                    else:
                        outs[td] = base
                        outs[fd] = base
                else:
                    for sn in b.succs:
                        outs[sn] = base
                outs[None] = base
                if OUT[b.name] is None or any(OUT[b.name].get(k) != v for k, v in outs.items()):
                    OUT[b.name] = outs
                    work = True
        # exits, split by the status value returned (0 / non-0 / unknown)
        exits = {"z": [], "n": []}
        for b in f.ret_blocks():
            if OUT[b.name] is None:
                continue
            t = b.term
            vals = []
            if t.ops:
                v = t.ops[0]
                vi = f.insts.get(v["v"]) if v.get("k") == "i" else None
                if vi is not None and vi.op == "phi" and vi.block is b and all(x.op in ("phi", "ret") for x in b.insts):
                    for (iv, pb) in vi.d["incoming"]:
                        o = OUT.get(pb)
                        if o is not None and o.get(b.name) is not None:
                            vals.append((iv, o[b.name]))
                else:
                    vals.append((v, OUT[b.name][None]))
            else:
                vals.append((None, OUT[b.name][None]))
            for (v, st) in vals:
                kind = "u"
                if v is not None:
                    if const_int(v) == 0 or v.get("k") == "null":
                        kind = "z"
                    elif const_int(v) is not None:
                        kind = "n"
                    elif v.get("k") == "i":
                        vs = strip_casts(f, v)
                        vi2 = f.insts.get(vs["v"]) if vs.get("k") == "i" else None
                        if vi2 is not None and vi2.is_call():
                            lg = "%%%s#%d!=0" % (f.name, vi2.id)
                            if (lg, True) in st.A:
                                kind = "n"
                            elif (lg, False) in st.A:
                                kind = "z"
                if kind in ("z", "u"):
                    exits["z"].append(st)
                if kind in ("n", "u"):
                    exits["n"].append(st)

        def meet(lst):
            if not lst:
                return None
            st = lst[0]
            for x in lst[1:]:
                st = join(st, x)
            return st
        sz, sn = meet(exits["z"]), meet(exits["n"])
        glob = lambda Q: set((c, g) for (c, g) in Q if not g[0].startswith("%"))
        both = [x for x in (sz, sn) if x is not None]
        if both:
            sa_ = meet(both)
            mw, mwq = set(sa_.W), glob(sa_.Q)
        else:
            mw, mwq = set(), set()
        self.mw_status[f.name] = (set(sz.W) if sz is not None else None, set(sn.W) if sn is not None else None)
        return ue, mw, mwq, ue_site

    def _kill(self, cur, locs):
        if not locs:
            return
        cur[3].update(locs)
        dead = [g for g in cur[2] if self.support(g) & locs]
        for g in dead:
            cur[2].discard(g)
        deadq = [(c, g) for (c, g) in cur[1] if self.support(g) & locs]
        for x in deadq:
            cur[1].discard(x)

    def _read(self, f, cell, cur, ue, ue_site, site, extra_alts=None, in_h=False):
        """record a read of `cell' unless it is definitely written"""
        W, Q, A, K = cur
        if cell in W:
            return
        for g in A:
            if (cell, g) in Q:
                return
        if extra_alts is not None:
            for alt in extra_alts:
                if (cell, alt) in Q:
                    return
        if in_h and not (cell[0] == "g" and cell[1] in CONTEXT_GLOBALS):
            return  # judged by R2d (handler safety), see DESIGN R1b refinement (1)
        alts = set(g for g in A if not g[0].startswith("%") and not (self.support(g) & K))
        if extra_alts:
            alts |= set(a for a in extra_alts if not (self.support(a) & K))
        lst = ue.setdefault(cell, [])
        fa = frozenset(alts)
        if fa not in lst:
            lst.append(fa)
        if cell not in ue_site or (not fa and ue_site[cell][1]):
            ue_site[cell] = (site, bool(fa))

    def _transfer(self, f, i, cur, ue, ue_site, in_h):
        if i.op == "load":
            c = self.cell_of_addr(f, i.ops[0])
            if c is not None:
                self._read(f, c, cur, ue, ue_site, [i.where() + " read of " + cell_str(c) + " in " + f.name], None, in_h)
        elif i.op == "store":
            c = self.cell_of_addr(f, i.ops[1])
            l = self._loc_of_addr(f, i.ops[1])
            if l is not None:
                self._kill(cur, {l})
            if c == ("g", "grammar"):
                for x in [x for x in cur[0] if x[0] == "cf"]:
                    cur[0].discard(x)
                for x in [x for x in cur[1] if x[0][0] == "cf"]:
                    cur[1].discard(x)
            if c is not None:
                cur[0].add(c)
                # a constant stored into a flag is a known guard value
                k = const_int(i.ops[0])
                if k is None and i.ops[0].get("k") == "null":
                    k = 0
                if k is not None and c[0] in ("al", "g"):
                    sup = set()
                    e = self._addr_expr(f, i.ops[1], sup, 0)
                    if e is not None:
                        self.guard_support[e + "!=0"] = frozenset(sup)
                        cur[2].add((e + "!=0", k != 0))
        elif i.is_call():
            tg = self.p.call_targets(f, i)
            if not i.callee:
                co = strip_casts(f, i.d["callee_op"])
                if co.get("k") == "a":
                    # call through a callback parameter: resolved at the caller's call site
                    ue.setdefault(("cb", co["v"]), [frozenset()])
                    ue_site.setdefault(("cb", co["v"]), ([i.where() + " call through parameter %d of %s" % (co["v"], f.name)], False))
                    return
            mws = None
            mwqs = None
            killed = set()
            known_targets = [t for t in tg if t in self.ue]
            for t in list(known_targets):
                tu, ts = self.ue[t], self.ue_site.get(t, {})
                for c, altlist in list(tu.items()):
                    if c[0] == "cb":
                        if c[1] < len(i.args):
                            a = strip_casts(f, i.args[c[1]])
                            if a.get("k") == "f" and a["v"] in self.ue:
                                cbu, cbs = self.ue[a["v"]], self.ue_site.get(a["v"], {})
                                for c2, al2 in cbu.items():
                                    if c2[0] in ("g", "gf"):
                                        for alts in al2:
                                            site = [i.where() + " call " + t + " from " + f.name + " with callback " + a["v"]] + cbs.get(c2, ([], False))[0]
                                            self._read(f, c2, cur, ue, ue_site, site, alts, in_h)
                                killed |= self.mayw.get(a["v"], set())
                            elif a.get("k") == "a":
                                ue.setdefault(("cb", a["v"]), [frozenset()])
                        continue
                    for cc in self.map_callee_cell(f, i, c):
                        for alts in altlist:
                            site = [i.where() + " call " + t + " from " + f.name] + ts.get(c, ([], False))[0]
                            self._read(f, cc, cur, ue, ue_site, site, alts, in_h)
            for t in known_targets:
                killed |= self.mayw.get(t, set())
            self._kill(cur, killed)
            for t in known_targets:
                mapped = set()
                for c in self.mw[t]:
                    mapped.update(self.map_callee_cell(f, i, c))
                mq = set()
                for (c, g) in self.mwq[t]:
                    for cc in self.map_callee_cell(f, i, c):
                        mq.add((cc, g))
                mws = mapped if mws is None else (mws & mapped)
                mwqs = mq if mwqs is None else (mwqs & mq)
            if mws:
                cur[0].update(mws)
            if mwqs:
                cur[1].update(mwqs)
            if len(known_targets) == 1 and known_targets[0] in self.mw_status:
                z, n = self.mw_status[known_targets[0]]
                lg = "%%%s#%d!=0" % (f.name, i.id)
                for (cells, pol) in ((z, False), (n, True)):
                    if cells:
                        for c in cells:
                            for cc in self.map_callee_cell(f, i, c):
                                if cc not in cur[0]:
                                    cur[1].add((cc, (lg, pol)))
            if i.callee and i.callee.startswith("llvm.mem") and i.args:
                p = resolve_addr(f, strip_casts(f, i.args[0]))
                if p.root[0] == "g" and p.root[1] in self.strc and not p.steps:
                    for fl in self.struct_fields(p.root[1]):
                        cur[0].add(("gf", p.root[1], fl))

    def _solve(self):
        fns = self.m.defined()
        for f in fns:
            self.ue[f.name] = {}
            self.mw[f.name] = set()
            self.mwq[f.name] = set()
            self.ue_site[f.name] = {}
        for rnd in range(20):
            ch = False
            for f in fns:
                ue, mw, mwq, site = self._analyse(f)
                if mw != self.mw[f.name] or mwq != self.mwq[f.name]:
                    self.mw[f.name] = mw
                    self.mwq[f.name] = mwq
                    ch = True
                if ue != self.ue[f.name]:
                    self.ue[f.name] = ue
                    self.ue_site[f.name] = site
                    ch = True
            if not ch:
                break
        else:
            raise AnalysisBroken("R1 summaries did not converge")

    # -- client view -------------------------------------------------------------------------
    def exposed(self, fname):
        """cells upward-exposed in fname, each with its witness path"""
        res = {}
        for c in self.ue[fname]:
            if c[0] == "cb":
                continue
            res[c] = self.ue_site[fname].get(c, ([], False))[0]
        return res


def cell_str(c):
    if c[0] == "g":
        return c[1]
    if c[0] == "gf":
        return "%s.%s" % (c[1], c[2].split(".")[-1])
    if c[0] == "cb":
        return "callback-param%d" % c[1]
    if c[0] == "cf":
        return "grammar->%s" % c[1].split(".", 1)[1]
    if c[0] == "al":
        return "%s.local#%d" % (c[1], c[2])
    return "param%d->%s" % (c[1], c[2])


# ----------------------------------------------------------------------------------------
# rule front ends

# file-scope variables every entry point may legitimately see a predecessor's value of
R1B_EXCEPTIONS = {
    "all_searches": "hash-table statistics counter, only printed under the debug level",
    "all_collisions": "hash-table statistics counter, only printed under the debug level",
    "anode_cost": "bison action variable: the `cost' rule reduces (and assigns it) before `alt' reads it -- LALR order, invisible to a flow analysis of yyparse's switch",
    "slhs": "bison action variable: the mid-rule action of `rule' assigns it before any `alt' of that rule reduces",
    "yaep_yylval": "bison skeleton variable",
    "yaep_yynerrs": "bison skeleton variable (assigned at the top of yyparse, read only by the skeleton)",
    "yaep_yychar": "bison skeleton variable",
}


def get_r1(ctx, config="c-lib"):
    return ctx.memo(("r1", config), lambda: R1(ctx.prog(config)))


def rule_R1a(ctx, rep, config="c-lib"):
    """no API function reads `the current grammar' before making it the caller's object"""
    rep.rule("R1a", "for every API function F(g,..): the file-scope current-object pointers {grammar, symbs_ptr, term_sets_ptr, rules_ptr} are not "
                    "upward-exposed in F (flow-sensitive definitely-written analysis with callee summaries; may-throw calls read `grammar' through yaep_error), "
                    "and every value F stores into them is g / a field of g")
    p = ctx.prog(config)
    r1 = get_r1(ctx, config)
    rep.cover(p, [f.name for f in p.m.defined()])
    n = 0
    for a in p.api():
        exp = r1.exposed(a)
        for gname in CONTEXT_GLOBALS:
            key = "%s/%s" % (a, gname)
            n += 1
            c = ("g", gname)
            if c in exp:
                rep.violation("R1a", key, "`%s' may be read before %s made it the caller's object (stale pointer of another grammar object, or NULL)" % (gname, a),
                              witness=exp[c], where=p.m.functions[a].where())
            else:
                rep.ok("R1a", key, nontrivial=bool(("g", gname) in r1.mw[a] or True),
                       sample={"function": a, "cell": gname, "definitely_written_on_return": c in r1.mw[a]})
    rep.floor("R1a", "API functions x context pointers", n, 14 * 4 if config == "c-lib" else 4)
    # value agreement: wherever a context pointer is assigned, the value is the grammar
    # object handed to the enclosing function (or a field of it / of the current grammar)
    nv = 0
    for f in p.m.defined():
        for i in f.all_insts():
            if i.op != "store":
                continue
            pa = resolve_addr(f, i.ops[1])
            if pa.root[0] != "g" or pa.steps or pa.root[1] not in CONTEXT_GLOBALS:
                continue
            nv += 1
            gname = pa.root[1]
            v = strip_casts(f, i.ops[0])
            key = "%s/%s/value" % (f.name, gname)
            ok = False

            def is_grammar_param(o):
                return o.get("k") == "a" and f.args[o["v"]]["ty"] == "%grammar*"

            def is_current_grammar(o):
                bi = f.insts.get(o["v"]) if o.get("k") == "i" else None
                if bi is not None and bi.op == "load":
                    bp = resolve_addr(f, bi.ops[0])
                    return bp.root == ("g", "grammar") and not bp.steps
                return False
            vi = f.insts.get(v["v"]) if v.get("k") == "i" else None
            if v.get("k") == "null":
                ok = True
            elif gname == "grammar":
                ok = is_grammar_param(v)
                if not ok and vi is not None and vi.is_call() and vi.callee in ("yaep_malloc", "yaep_calloc") and f.name == "yaep_create_grammar":
                    ok = True
            else:
                if vi is not None and vi.op == "load":
                    pp = resolve_addr(f, vi.ops[0])
                    if pp.last_field() == "grammar." + gname and len(pp.fields()) == 1:
                        if pp.root[0] == "a" and is_grammar_param({"k": "a", "v": pp.root[1]}):
                            ok = True
                        elif pp.root[0] == "val" and is_current_grammar(strip_casts(f, pp.root[1])):
                            ok = True
                elif vi is not None and vi.is_call():
                    # create: the same value is stored into the new object's field of the same name
                    for u in f.uses().get(vi.id, []):
                        if u.op == "store" and resolve_addr(f, u.ops[1]).last_field() == "grammar." + gname:
                            ok = True
                    # ... or the field is assigned from the file-scope variable right after it got the value
                    for u in f.all_insts():
                        if u.op == "store" and resolve_addr(f, u.ops[1]).last_field() == "grammar." + gname:
                            ld = f.inst(strip_casts(f, u.ops[0]))
                            if ld is not None and ld.op == "load" and resolve_addr(f, ld.ops[0]).root == ("g", gname) and not resolve_addr(f, ld.ops[0]).steps \
                                    and f.inst_dominates(i, ld):
                                ok = True
            if ok:
                rep.ok("R1a", key, sample={"function": f.name, "store": i.where(), "cell": gname})
            else:
                rep.violation("R1a", key, "%s stores into `%s' a value that is not the grammar object it was given%s" % (f.name, gname, "" if gname == "grammar" else " (its field of the same name)"),
                              witness=[i.where()], where=i.where())
    rep.floor("R1a", "assignments of the context pointers", nv, 4 if config == "c-lib" else 0)


def rule_R1b(ctx, rep, config="c-lib", entries=None):
    """per-call freshness of all other file-scope state"""
    rep.rule("R1b", "for every API function: no other mutable file-scope variable (scalar, or field of a container global) is upward-exposed, i.e. no call can "
                    "observe a predecessor call's leftovers; guard-qualified must-writes (`!one_parse_p', `parse_free != NULL', status results, local cleanup flags) "
                    "are honoured; a setjmp handler is entered with the meet of the states at all may-throw call sites of the armed region (R2d: a handler "
                    "releases only what is created on every path that can reach it, or what its flag / NULL guard covers); frozen exceptions carry one reason each")
    p = ctx.prog(config)
    r1 = get_r1(ctx, config)
    n = 0
    tracked = len(r1.scal) + sum(len(r1.struct_fields(g)) for g in r1.strc)
    for a in (entries or p.api()):
        exp = r1.exposed(a)
        bad = {}
        for c, w in exp.items():
            if c[0] in ("pf", "al"):
                continue
            if c[0] == "cf" and a != "yaep_create_grammar":
                continue     # fields of an existing object are its persistent inputs
            if c[0] == "g" and c[1] in CONTEXT_GLOBALS:
                continue
            nm = c[1]
            if nm in R1B_EXCEPTIONS:
                continue
            bad[c] = w
        n += 1
        if bad:
            for c, w in sorted(bad.items()):
                what = ("`%s' may be read in %s before this call wrote it: the call sees what an earlier call (possibly on another grammar object) left behind" % (cell_str(c), a)
                        if c[0] != "cf" else
                        "`%s' of the object being created may be read (by the error exit) before it was initialised: indeterminate memory is finalised" % cell_str(c))
                rep.violation("R1b", "%s/%s" % (a, cell_str(c)), what, witness=w, where=p.m.functions[a].where())
        else:
            rep.ok("R1b", a, sample={"function": a, "tracked_cells": tracked,
                                     "exposed_only": sorted(cell_str(c) for c in exp if c[0] in ("g", "gf") and not (c[0] == "g" and c[1] in CONTEXT_GLOBALS))})
    rep.floor("R1b", "API entry points analysed", n, 3)
    rep.floor("R1b", "tracked file-scope cells", tracked, 120 if config == "c-lib" else 40)
    rep.assume("user callbacks (read_token, syntax_error, parse_alloc, parse_free, read_terminal, read_rule, termcb) do not re-enter yaep and do not write library state")
