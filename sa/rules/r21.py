"""R21 -- decoding of the distances of a set (sibling agreement over all decode sites).

struct set_core / struct set:  dists has n_start_sits elements; a situation with index
n_start_sits <= i < n_all_dists takes the distance of the start situation parent_indexes[i];
a situation with index >= n_all_dists has distance 0.  Every site that reads dists[..] or
parent_indexes[..] follows this three-way decode; a site that tests another bound reads behind
dists (its length is n_start_sits) or takes the distance of the wrong situation."""
from ..model import resolve_addr, strip_casts, strip_int_casts, const_int, loaded_from
from ..core import AnalysisBroken
from .. import expr
from .r5 import _controlling_conditions

BUILDERS = ("set_add_new_nonstart_sit", "set_new_add_start_sit", "set_new_add_initial_sit", "set_insert", "set_new_start")


def _rel(c, pol):
    pr = c.d["pred"]
    m = {"slt": "lt", "ult": "lt", "sge": "ge", "uge": "ge", "sgt": "gt", "ugt": "gt", "sle": "le", "ule": "le"}
    if pr not in m:
        return None
    r = m[pr]
    if not pol:
        r = {"lt": "ge", "ge": "lt", "gt": "le", "le": "gt"}[r]
    return r


def rule_R21(ctx, rep, config="c-lib"):
    rep.rule("R21", "every element read of set->dists uses (a) an index i that the controlling branches bound by i < n_start_sits, (b) parent_indexes[i] with "
                    "n_start_sits <= i < n_all_dists established by the controlling branches, (c) an induction variable of a loop over [0, n_start_sits), or (d) the "
                    "constant 0; every element read of parent_indexes outside the functions that build a core is bounded the same way (indices and bounds compared as "
                    "named linear forms)")
    p = ctx.prog(config)
    n = 0
    kinds = {}
    for f in p.m.defined():
        if f.module and not f.module.startswith("yaep."):
            continue
        for i in f.all_insts():
            if i.op != "load":
                continue
            pa = resolve_addr(f, i.ops[0])
            if pa.root[0] != "val" or not pa.steps or pa.steps[-1][0] not in ("idx", "ptr") or pa.fields():
                continue
            lp = loaded_from(f, pa.root[1])
            if lp is None or lp.last_field() not in ("set.dists", "set_core.parent_indexes"):
                continue
            arr = lp.last_field()
            if f.name in BUILDERS:
                continue
            n += 1
            rep.cover(p, [f.name])
            key = "%s/%s#%d" % (f.name, arr.split(".")[-1], n)
            ix = pa.steps[-1][1]

            def core_of(b):
                """the set core a bound field is loaded from, as the canonical text of its address"""
                if b is None or b.root[0] != "val" or not b.steps:
                    return None
                prev_ = expr.NAMED[0]
                expr.NAMED[0] = True
                try:
                    return repr(expr.lin(f, b.root[1], 0, 3))
                finally:
                    expr.NAMED[0] = prev_
            arr_core = core_of(lp) if arr == "set_core.parent_indexes" else None

            def conds_of(raw):
                expr.NAMED[0] = True
                try:
                    out = []
                    for (c, pol) in raw:
                        r = _rel(c, pol)
                        if r is None:
                            continue
                        b = loaded_from(f, c.ops[1])
                        bf = b.last_field() if b is not None else None
                        # a bound taken from another set core than the one whose parent_indexes are read says nothing about this array
                        if arr_core is not None and bf in ("set_core.n_start_sits", "set_core.n_all_dists") and core_of(b) not in (None, arr_core):
                            other_core.append((c, core_of(b)))
                            continue
                        out.append((repr(expr.lin(f, c.ops[0], 0, 2)), r, bf, repr(expr.lin(f, c.ops[1], 0, 2))))
                    return out
                finally:
                    expr.NAMED[0] = False
            other_core = []

            def named(op):
                expr.NAMED[0] = True
                try:
                    return repr(expr.lin(f, op, 0, 2))
                finally:
                    expr.NAMED[0] = False

            def judge(ix, conds, depth=0):
                """how the index is bounded (text), or (None, reason)"""
                ixs = named(ix)

                def bounded(v, lo_needed):
                    lt_start = any(a == v and r == "lt" and bf == "set_core.n_start_sits" for (a, r, bf, _) in conds)
                    ge_start = any(a == v and r == "ge" and bf == "set_core.n_start_sits" for (a, r, bf, _) in conds)
                    lt_all = any(a == v and r == "lt" and bf == "set_core.n_all_dists" for (a, r, bf, _) in conds)
                    return (ge_start and lt_all) if lo_needed else lt_start
                if const_int(ix) == 0:
                    return "constant 0", None
                ixi = f.inst(strip_int_casts(f, ix))
                # `cond ? i : parent_indexes[i]' / a merged index: every alternative with the conditions of its own edge
                if ixi is not None and ixi.op in ("phi", "select") and depth < 2 and not _loop_bounded(f, ix, i):
                    from .r4 import _edge_conditions
                    alts = []
                    if ixi.op == "phi":
                        for (v, pb) in ixi.d["incoming"]:
                            if v.get("k") != "undef":
                                alts.append((v, conds + conds_of(_edge_conditions(f, pb, ixi.block.name))))
                    else:
                        c_ = f.inst(ixi.ops[0])
                        for (v, pol_) in ((ixi.ops[1], True), (ixi.ops[2], False)):
                            alts.append((v, conds + (conds_of([(c_, pol_)]) if c_ is not None and c_.op == "icmp" else [])))
                    hows = []
                    for (v, cs) in alts:
                        h, why = judge(v, cs, depth + 1)
                        if h is None:
                            return None, why
                        hows.append(h)
                    return " | ".join(sorted(set(hows))), None
                if arr == "set.dists":
                    inner = None
                    if ixi is not None and ixi.op == "load":
                        ipa = resolve_addr(f, ixi.ops[0])
                        ilp = loaded_from(f, ipa.root[1]) if ipa.root[0] == "val" else None
                        if ilp is not None and ilp.last_field() == "set_core.parent_indexes" and ipa.steps and ipa.steps[-1][0] in ("idx", "ptr"):
                            inner = named(ipa.steps[-1][1])
                    if inner is not None:
                        if bounded(inner, True):
                            return "parent_indexes[i], n_start_sits <= i < n_all_dists", None
                        return None, ("the distance of a non-start situation is read as dists[parent_indexes[%s]] without the controlling branches establishing "
                                      "n_start_sits <= %s < n_all_dists (found: %s)" % (inner, inner, [(a, r, bf) for (a, r, bf, _) in conds if a == inner]))
                    if bounded(ixs, False):
                        return "i < n_start_sits", None
                    if _loop_bounded(f, ix, i):
                        return "loop over the start situations", None
                else:
                    if bounded(ixs, True):
                        return "n_start_sits <= i < n_all_dists", None
                return None, ("%s[%s] is read without the bound of the three-way decode (dists: index < n_start_sits; parent_indexes: n_start_sits <= index < "
                              "n_all_dists); the controlling branches establish %s" % (arr.split(".")[-1], ixs, [(a, r, bf) for (a, r, bf, _) in conds if a == ixs] or "nothing about it"))
            ixs = named(ix)
            how, why = judge(ix, conds_of(_controlling_conditions(f, i.block.name)))
            if how is None:
                if other_core:
                    why += " -- the bounds tested (%s) belong to another set core (%s) than the array (%s)" % (other_core[0][0].where(), other_core[0][1], arr_core)
                rep.violation("R21", key, why, where=i.where(), witness=[i.where()])
                continue
            if how:
                kinds[how] = kinds.get(how, 0) + 1
                rep.ok("R21", key, sample={"read": i.where(), "index": ixs, "bound": how})
    rep.floor("R21", "element reads of dists / parent_indexes", n, 10)


def _loop_bounded(f, ix, at):
    """ix is  counter + c1  for the counter (header phi, step +1 / -1) of a loop containing `at', and the indices of the iterations that run stay inside
    [0, n_start_sits): an iteration runs while (counter + c2) REL bound"""
    il = expr.lin(f, ix, 0, 0)
    if len(il.t) != 1 or list(il.t.values()) != [1]:
        return False
    atom = list(il.t.keys())[0]
    if not atom.startswith("phi#"):
        return False
    v = f.insts.get(int(atom[4:]))
    c1 = il.c
    if v is None or v.op != "phi":
        return False
    for L in f.loops():
        if v.block.name != L["header"] or at.block.name not in L["body"]:
            continue
        inits = [val for (val, pb) in v.d["incoming"] if pb not in L["body"]]
        steps = [val for (val, pb) in v.d["incoming"] if pb in L["body"]]
        if len(inits) != 1 or len(steps) != 1:
            continue
        st = expr.lin(f, steps[0], 0, 0).add(il, -1).add(expr.Lin(c1))
        if not st.is_const() or st.c not in (1, -1):
            continue
        t = f.bmap[L["header"]].term
        c = f.inst(t.ops[0]) if (t is not None and len(t.ops) == 3) else None
        if c is None or c.op != "icmp":
            continue
        stay_true = t.ops[2]["v"] in L["body"]
        pred = c.d["pred"]
        if not stay_true:
            pred = {"slt": "sge", "sle": "sgt", "sgt": "sle", "sge": "slt", "ult": "uge", "uge": "ult"}.get(pred, pred)
        xl = expr.lin(f, c.ops[0], 0, 0)
        if set(xl.t.keys()) != set([atom]) or xl.t[atom] != 1:
            continue
        c2 = xl.c
        if st.c == 1 and const_int(inits[0]) is not None and pred in ("slt", "ult"):
            b = loaded_from(f, c.ops[1])
            # indices  init + c1 .. bound - 1 - c2 + c1
            if b is not None and b.last_field() == "set_core.n_start_sits" and const_int(inits[0]) + c1 >= 0 and c1 - c2 <= 0:
                return True
        if st.c == -1 and pred in ("sge", "sgt") and const_int(c.ops[1]) is not None:
            lo = const_int(c.ops[1]) + (1 if pred == "sgt" else 0) - c2 + c1
            initl = expr.lin(f, inits[0], 0, 1)
            if len(initl.t) == 1 and list(initl.t.keys())[0].endswith("set_core.n_start_sits]") and list(initl.t.values()) == [1] and initl.c + c1 <= -1 and lo >= 0:
                return True
    return False


def rule_R21_dedupe(ctx, rep, config="c-lib"):
    rep.rule("R21-dedupe", "when a situation is added to the set being formed, the duplicate test compares (situation, distance): a loop that compares the situation "
                           "only may range over one distance class only -- the zero-distance situations start at n_all_dists; a loop that starts at the first non-start "
                           "situation also compares parent_indexes (the distance of the derived ones)")
    p = ctx.prog(config)
    n = 0
    for fn in ("set_add_new_nonstart_sit", "set_new_add_initial_sit"):
        f = p.fn(fn)
        rep.cover(p, [fn])
        found = False
        for L in f.loops():
            hdr = f.bmap[L["header"]]
            phis = [i for i in hdr.insts if i.op == "phi"]
            if len(phis) != 1:
                continue
            ind = phis[0]
            inits = [v for (v, pb) in ind.d["incoming"] if pb not in L["body"]]
            if len(inits) != 1:
                continue
            # what the body compares
            cmp_sit = cmp_parent = False
            for bn in L["body"]:
                for c in f.bmap[bn].insts:
                    if c.op != "icmp" or c.d["pred"] not in ("eq", "ne"):
                        continue
                    for o in c.ops:
                        l_ = f.inst(strip_int_casts(f, o))
                        if l_ is None or l_.op != "load":
                            continue
                        pa = resolve_addr(f, l_.ops[0])
                        if pa.root[0] != "val" or not pa.steps or pa.steps[-1][0] not in ("idx", "ptr"):
                            continue
                        b = loaded_from(f, pa.root[1])
                        if b is None:
                            continue
                        if b.root == ("g", "new_sits") and not b.steps:
                            cmp_sit = True
                        if b.last_field() == "set_core.parent_indexes":
                            cmp_parent = True
            if not cmp_sit:
                continue
            found = True
            n += 1
            ib = loaded_from(f, inits[0])
            lower = "n_all_dists" if (ib is not None and ib.last_field() == "set_core.n_all_dists") else \
                    ("n_start_sits" if (ib is not None and (ib.root == ("g", "new_n_start_sits") or ib.last_field() == "set_core.n_start_sits")) else "other")
            key = "%s/duplicate-test" % fn
            if cmp_parent and lower in ("n_start_sits", "n_all_dists"):
                rep.ok("R21-dedupe", key, sample={"loop_from": lower, "compares": "situation and parent index"})
            elif not cmp_parent and lower == "n_all_dists":
                rep.ok("R21-dedupe", key, sample={"loop_from": lower, "compares": "situation (zero-distance class)"})
            else:
                rep.violation("R21-dedupe", key, "%s looks for an equal situation from %s on but does not compare the distance: a situation that is already in the set as a "
                              "derived situation with the distance of its parent suppresses the same situation with distance 0 (origin here) -- that item is lost and "
                              "sentences that need it are rejected" % (fn, lower), where=hdr.term.where(), witness=[hdr.term.where()])
        if not found:
            raise AnalysisBroken("R21-dedupe: duplicate test loop of %s not found" % fn)
    rep.floor("R21-dedupe", "duplicate tests of added situations", n, 2)
