"""R24 -- writes into a container stay inside its memory; clearing a table clears all of it.

  room     a block copy to the end of a variable length object / top object (memcpy (obj->free, src, n))
           is preceded on every path by the room test  free + m > boundary -> expand (m)  with m >= n
           (sizes as linear forms; the same entities);
  clear    empty_hash_table / hash_table::empty scans the whole entries array: the loop runs from
           entries to entries + size and has no other exit."""
from ..model import resolve_addr, strip_casts, strip_int_casts, const_int, loaded_from
from ..core import AnalysisBroken
from .. import expr
from .r5 import _controlling_conditions

MODULES = ("objstack.", "vlobject.")


def rule_R24_room(ctx, rep, config="c-lib", tag=""):
    rep.rule("R24-room", "in the object stack and variable length object implementations every memcpy whose destination is the free end of the object is dominated by a room "
                         "test `free + m > boundary' whose true branch grows the object by m, with m - n >= 0 for the n bytes copied (linear forms over the same values)")
    p = ctx.prog(config)
    n = 0
    expr.NAMED[0] = True
    try:
        for f in p.m.defined():
            if not f.module or not f.module.startswith(MODULES):
                continue
            for c in f.calls():
                if not (c.callee or "").startswith("llvm.memcpy"):
                    continue
                dp = loaded_from(f, c.args[0])
                if dp is None or not (dp.last_field() or "").endswith(("vlo_free", "os_top_object_free")) or dp.root != ("a", 0):
                    continue
                n += 1
                rep.cover(p, [f.name])
                key = tag + "%s/copy-to-free-end#%d" % (f.name, n)
                size = expr.lin(f, c.args[2], 0, 1)
                # room tests that dominate the copy: icmp ugt (free + m), boundary  with a call growing the object on the true side
                best = None
                for b in f.rblocks():
                    t = b.term
                    if t is None or t.op != "br" or len(t.ops) != 3:
                        continue
                    cc = f.inst(t.ops[0])
                    if cc is None or cc.op != "icmp" or cc.d["pred"] not in ("ugt", "uge", "sgt"):
                        continue
                    bp = loaded_from(f, cc.ops[1])
                    if bp is None or not (bp.last_field() or "").endswith(("vlo_boundary", "os_boundary")):
                        continue
                    if not f.dominates(b.name, c.block.name):
                        continue
                    lhs = expr.lin(f, cc.ops[0], 0, 1)
                    fa = [a for a in lhs.t if a.endswith(("vlo_free]", "os_top_object_free]"))]
                    if len(fa) != 1 or lhs.t[fa[0]] != 1:
                        continue
                    m = expr.Lin(lhs.c, dict((a, k) for a, k in lhs.t.items() if a != fa[0]))
                    # the object is not made longer between the test and the copy other than by the growth itself
                    best = (cc, m)
                if best is None:
                    rep.violation("R24-room", key, "%s copies %r bytes to the free end of the object without a room test" % (f.name, size), where=c.where(), witness=[c.where()])
                    continue
                cc, m = best
                d = m.add(size, -1)
                if d.c >= 0 and all(v >= 0 for v in d.t.values()):
                    rep.ok("R24-room", key, sample={"copy": c.where(), "bytes": repr(size), "room_tested_for": repr(m)})
                else:
                    rep.violation("R24-room", key, "%s makes room for %r bytes (test at %s) and then copies %r bytes to the free end: when the object is exactly full the last "
                                  "byte(s) are written behind the allocated block" % (f.name, m, cc.where(), size), where=c.where(), witness=[cc.where(), c.where()])
    finally:
        expr.NAMED[0] = False
    rep.floor("R24-room", tag + "copies to the free end", n, 2)


def rule_R24_room_cxx(ctx, rep, config="cxx-lib"):
    rule_R24_room(ctx, rep, config="cxx-lib", tag="[c++] ")


def rule_R24_clear(ctx, rep, config="c-lib", tag=""):
    rep.rule("R24-clear", "empty_hash_table / hash_table::empty marks every entry empty: a loop with a pointer running from entries in steps of one entry, left only when "
                          "the pointer reaches entries + size, stores the EMPTY mark through the pointer")
    p = ctx.prog(config)
    fs = [f for f in p.m.defined() if f.module and f.module.startswith("hashtab.") and (f.name == "empty_hash_table" or f.d.get("srcname") == "empty")]
    if len(fs) != 1:
        raise AnalysisBroken("R24-clear: %d candidates for the table-emptying function" % len(fs))
    f = fs[0]
    rep.cover(p, [f.name])
    okl = None
    why = "no loop over the entries array"
    for L in f.loops():
        hdr = f.bmap[L["header"]]
        phis = [i for i in hdr.insts if i.op == "phi"]
        ptrs = []
        for ph in phis:
            inits = [v for (v, pb) in ph.d["incoming"] if pb not in L["body"]]
            if len(inits) == 1:
                ip = loaded_from(f, inits[0])
                if ip is not None and (ip.last_field() or "").endswith("entries"):
                    ptrs.append(ph)
        if not ptrs:
            # index form:  for (i = 0; i < size; i++) entries[i] = EMPTY
            for ph in phis:
                inits = [v for (v, pb) in ph.d["incoming"] if pb not in L["body"]]
                if len(inits) != 1 or const_int(inits[0]) != 0:
                    continue
                exits = [(bn, s_) for bn in L["body"] for s_ in f.bmap[bn].succs if s_ not in L["body"]]
                good = True
                for (bn, s_) in exits:
                    t = f.bmap[bn].term
                    cc = f.inst(t.ops[0]) if (t is not None and len(t.ops) == 3) else None
                    sz = loaded_from(f, cc.ops[1]) if (cc is not None and cc.op == "icmp") else None
                    if not (cc is not None and cc.op == "icmp" and strip_int_casts(f, cc.ops[0]).get("v") == ph.id and sz is not None and (sz.last_field() or "").endswith("size")):
                        good = False
                        why = "the scan can be left at %s before the index reaches size" % (t.where() if t is not None else bn)
                sts = []
                for bn in L["body"]:
                    for s_ in f.bmap[bn].insts:
                        if s_.op == "store" and strip_casts(f, s_.ops[0]).get("k") == "null":
                            pa = resolve_addr(f, s_.ops[1])
                            bp = loaded_from(f, pa.root[1]) if pa.root[0] == "val" else None
                            if bp is not None and (bp.last_field() or "").endswith("entries") and pa.steps and strip_int_casts(f, pa.steps[-1][1]).get("v") == ph.id:
                                sts.append(s_)
                if good and sts:
                    okl = (L, sts[0])
            continue
        ph = ptrs[0]
        # exits
        exits = [(bn, s_) for bn in L["body"] for s_ in f.bmap[bn].succs if s_ not in L["body"]]
        bound_ok = True
        for (bn, s_) in exits:
            t = f.bmap[bn].term
            cc = f.inst(t.ops[0]) if (t is not None and len(t.ops) == 3) else None
            good = False
            if cc is not None and cc.op == "icmp" and strip_casts(f, cc.ops[0]).get("v") == ph.id:
                b_ = f.inst(strip_casts(f, cc.ops[1]))
                if b_ is not None and b_.op == "getelementptr":
                    bp = loaded_from(f, b_.d["base"])
                    szs = [loaded_from(f, st["ptr"]) for st in b_.d["path"] if "ptr" in st]
                    if bp is not None and (bp.last_field() or "").endswith("entries") and szs and szs[0] is not None and (szs[0].last_field() or "").endswith("size"):
                        good = True
            if not good:
                bound_ok = False
                why = "the scan can be left at %s before the pointer reaches entries + size" % (t.where() if t is not None else bn)
        stores = [s_ for bn in L["body"] for s_ in f.bmap[bn].insts if s_.op == "store" and strip_casts(f, s_.ops[1]).get("v") == ph.id and strip_casts(f, s_.ops[0]).get("k") == "null"]
        if bound_ok and stores:
            okl = (L, stores[0])
        elif bound_ok:
            why = "the loop does not store the EMPTY mark through its pointer"
    if okl:
        rep.ok("R24-clear", tag + f.name + "/whole-array", sample={"store": okl[1].where()})
    else:
        rep.violation("R24-clear", tag + f.name + "/whole-array", "emptying the table does not clear the whole entries array (%s): elements (or DELETED marks) that stay behind "
                      "are found by later searches although the table counts as empty" % why, where=f.where())


def rule_R24_clear_cxx(ctx, rep, config="cxx-lib"):
    rule_R24_clear(ctx, rep, config="cxx-lib", tag="[c++] ")


def rule_R24_tomb(ctx, rep, config="c-lib", tag=""):
    rep.rule("R24-tomb", "open addressing with double hashing: probe sequences of other elements pass through any entry, so the removal of an element leaves the DELETED "
                         "mark and never the EMPTY mark (an EMPTY entry ends the probe sequence of every element that was stored behind it): every store through the entry "
                         "pointer in the remove operation stores the constant DELETED_ENTRY, unconditionally")
    p = ctx.prog(config)
    fs = [f for f in p.m.defined() if f.module and f.module.startswith("hashtab.")
          and (f.name == "remove_element_from_hash_table_entry" or f.d.get("srcname") == "remove_element_from_entry")]
    if len(fs) != 1:
        raise AnalysisBroken("R24-tomb: %d candidates for the remove operation" % len(fs))
    f = fs[0]
    rep.cover(p, [f.name])
    sts = []
    for s_ in f.all_insts():
        if s_.op != "store":
            continue
        pa = resolve_addr(f, s_.ops[1])
        if pa.root[0] in ("a", "val") and not pa.fields() and pa.root[0] != "alloca":
            # not a field of the table object: the entry (the result of the lookup, or a pointer parameter)
            sts.append(s_)
    if not sts:
        raise AnalysisBroken("R24-tomb: no store through the entry pointer in %s" % f.name)
    bad = None
    for s_ in sts:
        v = s_.ops[0]
        is_del = v.get("k") == "ce" and v.get("op") == "inttoptr" and const_int(v["ops"][0]) == 1
        if not is_del:
            bad = (s_, "stores a value other than DELETED_ENTRY (%s)" % ("EMPTY_ENTRY" if strip_casts(f, v).get("k") == "null" else "not a constant"))
    # unconditional: the block of the DELETED store post-dominates the entry (asserts aside, the function is straight-line)
    if bad is None:
        from .r5 import _controlling_conditions
        for s_ in sts:
            cs = [c for (c, pol) in _controlling_conditions(f, s_.block.name)]
            if cs:
                bad = (s_, "marks the entry under a condition (%s)" % cs[0].where())
    key = tag + f.name + "/removal-leaves-tombstone"
    if bad:
        rep.violation("R24-tomb", key, "the remove operation %s: elements whose probe sequence passes through this entry are no longer found, a later insertion duplicates "
                      "them" % bad[1], where=bad[0].where(), witness=[bad[0].where()])
    else:
        rep.ok("R24-tomb", key, sample={"stores": [s_.where() for s_ in sts]})
    rep.floor("R24-tomb", tag + "stores through the entry pointer of the remove operation", len(sts), 1)


def rule_R24_tomb_cxx(ctx, rep, config="cxx-lib"):
    rule_R24_tomb(ctx, rep, config="cxx-lib", tag="[c++] ")


def _shape(f, op, seg, depth=0):
    """canonical text of an address computation over the segment pointer (the values whose ids are in `seg' print as SEG)"""
    k = const_int(op)
    if k is not None:
        return str(k)
    if op.get("k") == "null":
        return "0"
    i = f.inst(op)
    if i is None or depth > 12:
        return "?%s" % (op.get("k"),)
    if i.id in seg:
        return "SEG"
    if i.op in ("bitcast", "ptrtoint", "inttoptr", "zext", "sext", "trunc"):
        return _shape(f, i.ops[0], seg, depth + 1)
    if i.op == "load":
        lp = loaded_from(f, op)
        if lp is not None and (lp.last_field() or "").endswith("os_current_segment"):
            return "SEG"
        return "load(%s)" % (lp.last_field() if lp is not None else "?")
    if i.op == "getelementptr":
        parts = []
        for st in i.d["path"]:
            if "f" in st:
                parts.append("." + st["f"])
            elif "idx" in st:
                parts.append("[%s]" % _shape(f, st["idx"], seg, depth + 1))
            elif "ptr" in st:
                parts.append("+%s*%s" % (_shape(f, st["ptr"], seg, depth + 1), st.get("eltsize")))
        parts = [x for x in parts if x != "[0]"]
        return _shape(f, i.d["base"], seg, depth + 1) + "".join(parts)
    if i.op in ("add", "sub", "mul", "udiv", "sdiv", "and", "or", "shl", "lshr"):
        return "%s(%s,%s)" % (i.op, _shape(f, i.ops[0], seg, depth + 1), _shape(f, i.ops[1], seg, depth + 1))
    return "%s#%d" % (i.op, i.id)


def rule_R24_sole(ctx, rep, config="c-lib", tag=""):
    rep.rule("R24-sole", "_OS_expand_memory releases the current segment only when the top object is the segment's first object: the release is controlled by an "
                         "equality of os_top_object_start with the address of the first object of os_current_segment, computed exactly as the function computes the "
                         "first object's address in the segment it creates (same alignment arithmetic over the segment pointer) -- otherwise a segment that still holds "
                         "finished objects is released")
    from .r5 import _controlling_conditions
    p = ctx.prog(config)
    fs = [f for f in p.m.defined() if f.module and f.module.startswith("objstack.") and (f.name == "_OS_expand_memory" or f.d.get("srcname") == "_OS_expand_memory")]
    if len(fs) != 1:
        raise AnalysisBroken("R24-sole: %d candidates for _OS_expand_memory" % len(fs))
    f = fs[0]
    rep.cover(p, [f.name])
    rel = []
    for c in f.calls():
        g = p.m.functions.get(c.callee or "")
        nm = (g.d.get("srcname") if g is not None else None) or (c.callee or "")
        if nm in ("yaep_free", "free") or (c.callee or "") in ("_ZdlPv",):
            for a in c.args:
                lp = loaded_from(f, a)
                if lp is not None and (lp.last_field() or "").endswith("os_current_segment"):
                    rel.append(c)
    if len(rel) != 1:
        raise AnalysisBroken("R24-sole: %d releases of the current segment in %s" % (len(rel), f.name))
    c = rel[0]
    new_start = [s_ for s_ in f.all_insts() if s_.op == "store" and (resolve_addr(f, s_.ops[1]).last_field() or "").endswith("os_top_object_start")]
    news = [i for i in f.calls() if (i.callee or "") in ("yaep_malloc", "_Znwm") or ((p.m.functions.get(i.callee or "") is not None) and p.m.functions[i.callee].d.get("srcname") == "yaep_malloc")]
    if len(new_start) != 1 or len(news) != 1:
        raise AnalysisBroken("R24-sole: %d stores of os_top_object_start, %d segment allocations" % (len(new_start), len(news)))
    seg_new = set([news[0].id] + [u.id for u in f.uses().get(news[0].id, []) if u.op == "bitcast"])
    want = _shape(f, new_start[0].ops[0], seg_new)
    key = tag + f.name + "/segment-released-only-when-sole-object"
    good = None
    seen = []
    for (cc, pol) in _controlling_conditions(f, c.block.name):
        sides = []
        for o in cc.ops:
            lp = loaded_from(f, o)
            sides.append("TOP" if (lp is not None and (lp.last_field() or "").endswith("os_top_object_start")) else _shape(f, o, set()))
        seen.append("%s %s %s%s" % (sides[0], cc.d["pred"], sides[1], "" if pol else " (false)"))
        if "TOP" in sides and cc.d["pred"] == "eq" and pol and want in sides:
            good = cc
        if "TOP" in sides and cc.d["pred"] == "ne" and not pol and want in sides:
            good = cc
    if good is not None and "SEG" in want:
        rep.ok("R24-sole", key, sample={"release": c.where(), "test": good.where(), "first_object": want})
    else:
        rep.violation("R24-sole", key, "the current segment is released under `%s', which is not `os_top_object_start == %s' (the address of the first object of a "
                      "segment as this function lays it out): a segment whose first, finished object is shorter than the slack of the test is released while the object "
                      "is still in use" % ("; ".join(seen) or "no condition", want), where=c.where(), witness=[c.where()])


def rule_R24_sole_cxx(ctx, rep, config="cxx-lib"):
    rule_R24_sole(ctx, rep, config="cxx-lib", tag="[c++] ")


def rule_R24_reserve(ctx, rep, config="c-lib", tag=""):
    rep.rule("R24-reserve", "the lookup with reservation returns an EMPTY entry for an absent element also when it reuses a deleted entry: the only store of the EMPTY "
                            "mark in the lookup goes through the remembered deleted entry (the pointer that may be NULL while no deleted entry was seen), never through "
                            "the probe position, which is EMPTY already -- otherwise the caller gets an entry that still holds the DELETED mark and takes the element "
                            "for present")
    p = ctx.prog(config)
    fs = [f for f in p.m.defined() if f.module and f.module.startswith("hashtab.") and (f.name == "find_hash_table_entry" or f.d.get("srcname") == "find_entry")]
    if len(fs) != 1:
        raise AnalysisBroken("R24-reserve: %d candidates for the lookup" % len(fs))
    f = fs[0]
    rep.cover(p, [f.name])
    n = 0
    for s_ in f.all_insts():
        if s_.op != "store" or strip_casts(f, s_.ops[0]).get("k") != "null" or not (s_.ops[0].get("ty") or "i8*").endswith("*"):
            continue
        a = f.inst(strip_casts(f, s_.ops[1]))
        if a is None or a.ty != "i8**":
            continue
        n += 1
        key = tag + f.name + "/empty-mark-through-deleted-entry#%d" % n

        def may_be_null(x, depth=0):
            if x is None or depth > 4:
                return False
            if x.op == "phi":
                return any(strip_casts(f, v).get("k") == "null" or may_be_null(f.inst(strip_casts(f, v)), depth + 1) for (v, _) in x.d["incoming"] if strip_casts(f, v).get("v") != x.id)
            return False
        if may_be_null(a):
            rep.ok("R24-reserve", key, sample={"store": s_.where()})
        else:
            rep.violation("R24-reserve", key, "the EMPTY mark is stored through the probe position (%s), not through the remembered deleted entry: the entry handed to the "
                          "caller for an absent element still holds the DELETED mark, the caller takes the element for present and never stores it" % a.op,
                          where=s_.where(), witness=[s_.where()])
    rep.floor("R24-reserve", tag + "stores of the EMPTY mark in the lookup", n, 1)


def rule_R24_reserve_cxx(ctx, rep, config="cxx-lib"):
    rule_R24_reserve(ctx, rep, config="cxx-lib", tag="[c++] ")


def rule_R24_first_length(ctx, rep, config="c-lib", tag=""):
    rep.rule("R24-first-length", "initial_segment_length of an object stack describes its first segment (OS_EMPTY keeps that segment and recomputes the boundary from the "
                                 "field): it is written by the constructor only, or under a test that the segment in question has no predecessor")
    from .r5 import _controlling_conditions
    p = ctx.prog(config)
    n = 0
    for f in p.m.defined():
        if not f.module or not f.module.startswith("objstack."):
            continue
        nm = f.d.get("srcname") or f.name
        for s_ in f.all_insts():
            if s_.op != "store" or (resolve_addr(f, s_.ops[1]).last_field() or "").split(".")[-1] != "initial_segment_length":
                continue
            n += 1
            rep.cover(p, [f.name])
            key = tag + "%s/initial_segment_length#%d" % (nm, n)
            if nm in ("_OS_create_function", "os") or "C2E" in f.name or "C1E" in f.name:
                rep.ok("R24-first-length", key, sample={"store": s_.where(), "in": "constructor"})
                continue
            guarded = False
            for (cc, pol) in _controlling_conditions(f, s_.block.name):
                for o in cc.ops:
                    lp = loaded_from(f, o)
                    if lp is not None and (lp.last_field() or "").endswith("os_previous_segment") and cc.d["pred"] in ("eq", "ne") and (cc.d["pred"] == "eq") == pol:
                        guarded = True
            if guarded:
                rep.ok("R24-first-length", key, sample={"store": s_.where(), "in": "under `no previous segment'"})
            else:
                rep.violation("R24-first-length", key, "%s records a new length of the first segment without knowing that the segment it replaced was the first one: OS_EMPTY "
                              "later keeps the real first segment and sets its boundary by this length -- additions write behind the segment" % nm,
                              where=s_.where(), witness=[s_.where()])
    rep.floor("R24-first-length", tag + "stores of initial_segment_length", n, 1)


def rule_R24_first_length_cxx(ctx, rep, config="cxx-lib"):
    rule_R24_first_length(ctx, rep, config="cxx-lib", tag="[c++] ")


def rule_R24_walk_free(ctx, rep, config="c-lib", tag=""):
    rep.rule("R24-walk-free", "the object stack releases its chain of segments by walking it: a release inside a walking loop releases the segment the walk is at (the "
                              "loop's own variable), not a field of the object that the loop does not advance -- that segment would be released once per iteration "
                              "and the others never")
    p = ctx.prog(config)
    n = 0
    for f in p.m.defined():
        if not f.module or not f.module.startswith("objstack."):
            continue
        for L in f.loops():
            hph = set(i.id for i in f.bmap[L["header"]].insts if i.op == "phi")
            for bn in L["body"]:
                for c in f.bmap[bn].insts:
                    if not c.is_call():
                        continue
                    g = p.m.functions.get(c.callee or "")
                    nm = (g.d.get("srcname") if g is not None else None) or (c.callee or "")
                    if nm not in ("yaep_free", "free") or not c.args:
                        continue
                    n += 1
                    rep.cover(p, [f.name])
                    key = tag + "%s/release-in-walk#%d" % (f.d.get("srcname") or f.name, n)
                    x = f.inst(strip_casts(f, c.args[-1]))
                    k = 0
                    while x is not None and x.op in ("bitcast",) and k < 3:
                        x = f.inst(strip_casts(f, x.ops[0]))
                        k += 1
                    if x is not None and x.id in hph:
                        rep.ok("R24-walk-free", key, sample={"release": c.where()})
                    else:
                        rep.violation("R24-walk-free", key, "the release inside the loop over the segments does not release the segment the loop is at (its argument is %s): "
                                      "one segment is released again in every iteration, the others are never released" % (
                                          "a member of the object" if x is not None and x.op == "load" else "not the loop variable"), where=c.where(), witness=[c.where()])
    rep.floor("R24-walk-free", tag + "releases inside segment walks", n, 2)


def rule_R24_walk_free_cxx(ctx, rep, config="cxx-lib"):
    rule_R24_walk_free(ctx, rep, config="cxx-lib", tag="[c++] ")


def rule_R24_prime(ctx, rep, config="c-lib", tag=""):
    rep.rule("R24-prime", "the size of a hash table is a prime (double hashing: the probe step 1 + h % (size - 2) must be coprime to the size, otherwise a probe sequence "
                          "visits a part of the table only and a lookup of an absent element need not end).  higher_prime_number tries the odd divisors while "
                          "i * i <= number and leaves that loop early when one divides: the candidate is returned exactly when the loop ran out, i.e. under the "
                          "negation of the loop's own condition (with `>=' the square of a prime, left early at i * i == number, is returned as a prime)")
    p = ctx.prog(config)
    fs = [f for f in p.m.defined() if f.module and f.module.startswith("hashtab.") and (f.name == "higher_prime_number" or f.d.get("srcname") == "higher_prime_number")]
    if len(fs) != 1:
        raise AnalysisBroken("R24-prime: higher_prime_number not found in %s (%d)" % (config, len(fs)))
    f = fs[0]
    rep.cover(p, [f.name])
    inner = None
    for L in f.loops():
        if any(i.op in ("urem", "srem") and i.block.name in L["body"] for i in f.all_insts()):
            if inner is None or len(L["body"]) < len(inner["body"]):
                inner = L
    if inner is None:
        raise AnalysisBroken("R24-prime: the trial-division loop of higher_prime_number was not found")
    hdr = f.bmap[inner["header"]]
    t = hdr.term
    c1 = f.inst(t.ops[0]) if (t is not None and len(t.ops) == 3) else None
    if c1 is None or c1.op != "icmp":
        raise AnalysisBroken("R24-prime: the trial-division loop is not controlled by a comparison in its header")
    stay = t.ops[2]["v"] in inner["body"]      # operand order of br: condition, false target, true target

    def norm(c, pol):
        a, b = repr(expr.lin(f, c.ops[0], 0, 1)), repr(expr.lin(f, c.ops[1], 0, 1))
        pr = c.d["pred"]
        if not pol:
            pr = {"ule": "ugt", "ult": "uge", "uge": "ult", "ugt": "ule", "sle": "sgt", "slt": "sge", "sge": "slt", "sgt": "sle", "eq": "ne", "ne": "eq"}[pr]
        if pr[1:] in ("gt", "ge"):
            a, b, pr = b, a, pr[0] + {"gt": "lt", "ge": "le"}[pr[1:]]
        return (a, pr, b)
    loop_c = norm(c1, stay)
    out_c = norm(c1, not stay)
    rets = [r for r in f.all_insts() if r.op == "ret"]
    from .r5 import _controlling_conditions
    got = []
    for r in rets:
        for (cc, pol) in _controlling_conditions(f, r.block.name):
            if cc.block.name in inner["body"] and cc.block.name != inner["header"]:
                continue
            got.append(norm(cc, pol))
    # the same through a truth value (a helper `return 0' at a divisor / `return 1' when the loop ran out, inlined): the return is controlled by `flag != 0'
    # and the flag is non-zero exactly on the ways in that come from the exit of the loop
    from .r4 import _edge_conditions
    for r in rets:
        for (cc, pol) in _controlling_conditions(f, r.block.name):
            if cc.d["pred"] not in ("eq", "ne") or const_int(cc.ops[1]) != 0:
                continue
            ph = f.inst(strip_int_casts(f, cc.ops[0]))
            if ph is None or ph.op != "phi":
                continue
            want_nonzero = (cc.d["pred"] == "ne") == pol
            okp = True
            for (v, pb) in ph.d["incoming"]:
                k = const_int(v)
                if k is None:
                    okp = False
                    break
                passes = (k != 0) == want_nonzero
                from_exit = out_c in [norm(c_, p_) for (c_, p_) in _edge_conditions(f, pb, ph.block.name) if c_.block.name == inner["header"]]
                if passes != from_exit:
                    okp = False
            if okp:
                got.append(out_c)
    key = tag + "higher_prime_number/returned-when-loop-ran-out"
    if out_c in got:
        rep.ok("R24-prime", key, sample={"loop": c1.where(), "loop_condition": " ".join(loop_c), "returned_under": " ".join(out_c)})
    else:
        rep.violation("R24-prime", key, "the candidate is returned under %s, which is not the negation of the condition `%s' of the trial-division loop: a candidate at "
                      "which the loop was left early (a divisor was found) can be returned -- the square of a prime becomes a table size, a probe step that is a "
                      "multiple of that prime visits only a part of the table, and a lookup of an absent element does not end once that part is full" % (
                          [" ".join(g) for g in got] or "no comparison", " ".join(loop_c)), where=c1.where(), witness=[c1.where()] + [r.where() for r in rets])


def rule_R24_prime_cxx(ctx, rep, config="cxx-lib"):
    rule_R24_prime(ctx, rep, config="cxx-lib", tag="[c++] ")
