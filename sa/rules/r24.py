"""R24 -- writes into a container stay inside its memory; clearing a table clears all of it.

  room     a block copy to the end of a variable length object / top object (memcpy (obj->free, src, n))
           is preceded on every path by the room test  free + m > boundary -> expand (m)  with m >= n
           (sizes as linear forms; the same entities);
  clear    empty_hash_table / hash_table::empty scans the whole entries array: the loop runs from
           entries to entries + size and has no other exit."""
from ..model import resolve_addr, strip_casts, strip_int_casts, const_int, loaded_from
from ..core import AnalysisBroken
from .. import expr
from .r5 import _controlling_conditions

MODULES = ("objstack.", "vlobject.")


def rule_R24_room(ctx, rep, config="c-lib", tag=""):
    rep.rule("R24-room", "in the object stack and variable length object implementations every memcpy whose destination is the free end of the object is dominated by a room "
                         "test `free + m > boundary' whose true branch grows the object by m, with m - n >= 0 for the n bytes copied (linear forms over the same values)")
    p = ctx.prog(config)
    n = 0
    expr.NAMED[0] = True
    try:
        for f in p.m.defined():
            if not f.module or not f.module.startswith(MODULES):
                continue
            for c in f.calls():
                if not (c.callee or "").startswith("llvm.memcpy"):
                    continue
                dp = loaded_from(f, c.args[0])
                if dp is None or not (dp.last_field() or "").endswith(("vlo_free", "os_top_object_free")) or dp.root != ("a", 0):
                    continue
                n += 1
                rep.cover(p, [f.name])
                key = tag + "%s/copy-to-free-end#%d" % (f.name, n)
                size = expr.lin(f, c.args[2], 0, 1)
                # room tests that dominate the copy: icmp ugt (free + m), boundary  with a call growing the object on the true side
                best = None
                for b in f.rblocks():
                    t = b.term
                    if t is None or t.op != "br" or len(t.ops) != 3:
                        continue
                    cc = f.inst(t.ops[0])
                    if cc is None or cc.op != "icmp" or cc.d["pred"] not in ("ugt", "uge", "sgt"):
                        continue
                    bp = loaded_from(f, cc.ops[1])
                    if bp is None or not (bp.last_field() or "").endswith(("vlo_boundary", "os_boundary")):
                        continue
                    if not f.dominates(b.name, c.block.name):
                        continue
                    lhs = expr.lin(f, cc.ops[0], 0, 1)
                    fa = [a for a in lhs.t if a.endswith(("vlo_free]", "os_top_object_free]"))]
                    if len(fa) != 1 or lhs.t[fa[0]] != 1:
                        continue
                    m = expr.Lin(lhs.c, dict((a, k) for a, k in lhs.t.items() if a != fa[0]))
                    # the object is not made longer between the test and the copy other than by the growth itself
                    best = (cc, m)
                if best is None:
                    rep.violation("R24-room", key, "%s copies %r bytes to the free end of the object without a room test" % (f.name, size), where=c.where(), witness=[c.where()])
                    continue
                cc, m = best
                d = m.add(size, -1)
                if d.c >= 0 and all(v >= 0 for v in d.t.values()):
                    rep.ok("R24-room", key, sample={"copy": c.where(), "bytes": repr(size), "room_tested_for": repr(m)})
                else:
                    rep.violation("R24-room", key, "%s makes room for %r bytes (test at %s) and then copies %r bytes to the free end: when the object is exactly full the last "
                                  "byte(s) are written behind the allocated block" % (f.name, m, cc.where(), size), where=c.where(), witness=[cc.where(), c.where()])
    finally:
        expr.NAMED[0] = False
    rep.floor("R24-room", tag + "copies to the free end", n, 2)


def rule_R24_room_cxx(ctx, rep, config="cxx-lib"):
    rule_R24_room(ctx, rep, config="cxx-lib", tag="[c++] ")


def rule_R24_clear(ctx, rep, config="c-lib", tag=""):
    rep.rule("R24-clear", "empty_hash_table / hash_table::empty marks every entry empty: a loop with a pointer running from entries in steps of one entry, left only when "
                          "the pointer reaches entries + size, stores the EMPTY mark through the pointer")
    p = ctx.prog(config)
    fs = [f for f in p.m.defined() if f.module and f.module.startswith("hashtab.") and (f.name == "empty_hash_table" or f.d.get("srcname") == "empty")]
    if len(fs) != 1:
        raise AnalysisBroken("R24-clear: %d candidates for the table-emptying function" % len(fs))
    f = fs[0]
    rep.cover(p, [f.name])
    okl = None
    why = "no loop over the entries array"
    for L in f.loops():
        hdr = f.bmap[L["header"]]
        phis = [i for i in hdr.insts if i.op == "phi"]
        ptrs = []
        for ph in phis:
            inits = [v for (v, pb) in ph.d["incoming"] if pb not in L["body"]]
            if len(inits) == 1:
                ip = loaded_from(f, inits[0])
                if ip is not None and (ip.last_field() or "").endswith("entries"):
                    ptrs.append(ph)
        if not ptrs:
            # index form:  for (i = 0; i < size; i++) entries[i] = EMPTY
            for ph in phis:
                inits = [v for (v, pb) in ph.d["incoming"] if pb not in L["body"]]
                if len(inits) != 1 or const_int(inits[0]) != 0:
                    continue
                exits = [(bn, s_) for bn in L["body"] for s_ in f.bmap[bn].succs if s_ not in L["body"]]
                good = True
                for (bn, s_) in exits:
                    t = f.bmap[bn].term
                    cc = f.inst(t.ops[0]) if (t is not None and len(t.ops) == 3) else None
                    sz = loaded_from(f, cc.ops[1]) if (cc is not None and cc.op == "icmp") else None
                    if not (cc is not None and cc.op == "icmp" and strip_int_casts(f, cc.ops[0]).get("v") == ph.id and sz is not None and (sz.last_field() or "").endswith("size")):
                        good = False
                        why = "the scan can be left at %s before the index reaches size" % (t.where() if t is not None else bn)
                sts = []
                for bn in L["body"]:
                    for s_ in f.bmap[bn].insts:
                        if s_.op == "store" and strip_casts(f, s_.ops[0]).get("k") == "null":
                            pa = resolve_addr(f, s_.ops[1])
                            bp = loaded_from(f, pa.root[1]) if pa.root[0] == "val" else None
                            if bp is not None and (bp.last_field() or "").endswith("entries") and pa.steps and strip_int_casts(f, pa.steps[-1][1]).get("v") == ph.id:
                                sts.append(s_)
                if good and sts:
                    okl = (L, sts[0])
            continue
        ph = ptrs[0]
        # exits
        exits = [(bn, s_) for bn in L["body"] for s_ in f.bmap[bn].succs if s_ not in L["body"]]
        bound_ok = True
        for (bn, s_) in exits:
            t = f.bmap[bn].term
            cc = f.inst(t.ops[0]) if (t is not None and len(t.ops) == 3) else None
            good = False
            if cc is not None and cc.op == "icmp" and strip_casts(f, cc.ops[0]).get("v") == ph.id:
                b_ = f.inst(strip_casts(f, cc.ops[1]))
                if b_ is not None and b_.op == "getelementptr":
                    bp = loaded_from(f, b_.d["base"])
                    szs = [loaded_from(f, st["ptr"]) for st in b_.d["path"] if "ptr" in st]
                    if bp is not None and (bp.last_field() or "").endswith("entries") and szs and szs[0] is not None and (szs[0].last_field() or "").endswith("size"):
                        good = True
            if not good:
                bound_ok = False
                why = "the scan can be left at %s before the pointer reaches entries + size" % (t.where() if t is not None else bn)
        stores = [s_ for bn in L["body"] for s_ in f.bmap[bn].insts if s_.op == "store" and strip_casts(f, s_.ops[1]).get("v") == ph.id and strip_casts(f, s_.ops[0]).get("k") == "null"]
        if bound_ok and stores:
            okl = (L, stores[0])
        elif bound_ok:
            why = "the loop does not store the EMPTY mark through its pointer"
    if okl:
        rep.ok("R24-clear", tag + f.name + "/whole-array", sample={"store": okl[1].where()})
    else:
        rep.violation("R24-clear", tag + f.name + "/whole-array", "emptying the table does not clear the whole entries array (%s): elements (or DELETED marks) that stay behind "
                      "are found by later searches although the table counts as empty" % why, where=f.where())


def rule_R24_clear_cxx(ctx, rep, config="cxx-lib"):
    rule_R24_clear(ctx, rep, config="cxx-lib", tag="[c++] ")
