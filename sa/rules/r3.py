"""R3 -- error-path discipline (longjmp-based error exit)."""
from ..model import resolve_addr, strip_casts, const_int, loaded_from, alloca_reaching_value
from ..core import AnalysisBroken, setjmp_regions

ALLOC_FUNS = ("yaep_malloc", "yaep_calloc", "yaep_realloc")
PROCESS_EXITS = ("exit", "_exit", "_Exit", "abort", "__assert_fail", "quick_exit")


def armed_info(p, f):
    """for each setjmp call in f: (sj, handler_entry, normal_entry)"""
    res = []
    for sj in p.setjmp_calls(f):
        h, n = setjmp_regions(f, sj)
        res.append((sj, h, n))
    return res


def in_region(f, entry, inst):
    return f.dominates(entry, inst.block.name)


def fresh_allocator_hook(p, f, i):
    """For yaep_malloc/calloc/realloc(a, ..) where `a' is the result of yaep_alloc_new in
    this function: the hook function installed by the nearest dominating
    yaep_alloc_seterr(a, hook, ..), "default" if none; None if `a' is not fresh."""
    if i.callee not in ALLOC_FUNS or not i.args:
        return None
    a = strip_casts(f, i.args[0])
    ai = f.inst(a)
    if ai is None or not ai.is_call() or ai.callee != "yaep_alloc_new":
        return None
    best = None
    for j in f.calls():
        if j.callee == "yaep_alloc_seterr" and strip_casts(f, j.args[0]) == a and f.inst_dominates(j, i):
            if best is None or f.inst_dominates(best, j):
                best = j
    if best is None:
        return "yaep_alloc_defaulterrfunc"
    h = strip_casts(f, best.args[1])
    if h.get("k") == "f":
        return h["v"]
    if h.get("k") == "null":
        return "yaep_alloc_defaulterrfunc"
    return None


def site_targets(p, f, i):
    """call targets, allocator-sensitive for requests on a fresh allocator"""
    h = fresh_allocator_hook(p, f, i)
    if h is not None:
        return [h]
    return p.call_targets(f, i)


def propagating(p):
    """functions out of which a longjmp can propagate to the caller: they call
    longjmp, or call such a function outside their own armed region.  Least fixpoint."""
    m = p.m
    prop = set(p.thrower_name())
    info = {f.name: armed_info(p, f) for f in m.defined()}
    changed = True
    while changed:
        changed = False
        for f in m.defined():
            if f.name in prop:
                continue
            for i in f.calls():
                tg = site_targets(p, f, i)
                if not any(t in prop for t in tg):
                    continue
                armed = any(in_region(f, n, i) for (_, h, n) in info[f.name])
                if not armed:
                    prop.add(f.name)
                    changed = True
                    break
    return prop, info


def rule_R3a(ctx, rep, config="c-lib"):
    rep.rule("R3a", "longjmp is called only by yaep_error; no API function lets a longjmp propagate to its caller: every call that may reach yaep_error lies in the "
                    "region dominated by the `setjmp == 0' branch of the function itself or of a callee-side arming function; handler regions contain no may-throw call; "
                    "no armed region calls another arming function (the single jmp_buf would then point into a dead frame)")
    p = ctx.prog(config)
    m = p.m
    thr = p.thrower_name()
    if thr != {"yaep_error"} and not (config != "c-lib" and len(thr) == 1):
        if not thr:
            raise AnalysisBroken("no longjmp caller found")
        rep.violation("R3a", "longjmp-callers", "longjmp is called outside yaep_error: %s" % sorted(thr))
    else:
        rep.ok("R3a", "longjmp-callers", sample={"longjmp_called_only_by": sorted(thr)})
    prop, info = propagating(p)
    mt = p.may_throw()
    nsites = 0
    for a in p.api():
        f = m.functions[a]
        rep.cover(p, p.reach(a))
        sites = [i for i in f.calls() if p.call_may_throw(f, i)]
        nsites += len(sites)
        if a in prop:
            # find the unprotected site as witness
            wit = []
            for i in f.calls():
                if any(t in prop for t in site_targets(p, f, i)) and not any(in_region(f, n, i) for (_, h, n) in info[a]):
                    wit.append("%s call to %s outside any armed region of %s" % (i.where(), "/".join(p.call_targets(f, i)), a))
            rep.violation("R3a", "%s/propagates" % a, "an error raised below %s can longjmp out of it (into a dead frame or an unarmed jmp_buf)" % a, witness=wit,
                          where=f.where())
        else:
            rep.ok("R3a", "%s/propagates" % a, nontrivial=bool(sites), sample={"function": a, "may_throw_call_sites": len(sites), "arms_setjmp": bool(info[a])})
    # every function with an armed region: handler has no may-throw call, no nested arming
    arming = [f for f in m.defined() if info[f.name]]
    setjmp_users = set(f.name for f in arming)
    for f in arming:
        for (sj, h, n) in info[f.name]:
            bad = [i for i in f.calls() if in_region(f, h, i) and any(t in prop for t in p.call_targets(f, i))]
            key = "%s/handler-throws" % f.name
            if bad:
                rep.violation("R3a", key, "the error handler of %s itself makes a call that may raise an error: the longjmp re-enters the same handler" % f.name,
                              witness=[i.where() + " call " + "/".join(p.call_targets(f, i)) for i in bad], where=sj.where())
            else:
                rep.ok("R3a", key, sample={"function": f.name, "setjmp": sj.where()})
            nest = []
            for i in f.calls():
                if in_region(f, n, i) and i is not sj:
                    for t in p.call_targets(f, i):
                        if p.reach(t) & setjmp_users:
                            # a callee re-arms the shared jmp_buf; afterwards a throw in f jumps into the callee's dead frame
                            later = [j for j in f.calls() if j is not i and in_region(f, n, j) and p.call_may_throw(f, j) and _may_follow(f, i, j)]
                            if later:
                                nest.append("%s call %s re-arms the jmp_buf; %s may throw afterwards" % (i.where(), t, later[0].where()))
            key = "%s/nested-arming" % f.name
            if nest:
                rep.violation("R3a", key, "an armed region of %s calls a function that arms the same jmp_buf, then may throw" % f.name, witness=nest, where=sj.where())
            else:
                rep.ok("R3a", key)
    rep.call_sites += nsites
    rep.floor("R3a", "arming functions (setjmp users)", len(arming), 4 if config.startswith("c") else 1)
    rep.floor("R3a", "may-throw functions", len(mt), 40)


def _may_follow(f, i, j):
    """can instruction j execute after i (CFG reachability)"""
    if i.block is j.block and j.idx > i.idx:
        return True
    return j.block.name in f.reachable_from(i.block.name) and (j.block is not i.block or j.block.name in
                                                                 set(s for b in f.reachable_from(i.block.name) for s in f.bmap[b].succs))


def rule_R3b(ctx, rep, config="c-lib"):
    rep.rule("R3b", "the allocator's error hook is yaep's (error_func_for_allocate) before the first fallible request: every yaep_malloc/calloc/realloc whose allocator "
                    "argument is not loaded from an `alloc' field of an existing object is dominated by yaep_alloc_seterr on the same allocator value")
    p = ctx.prog(config)
    m = p.m
    n = 0
    fresh = 0
    for f in m.defined():
        if f.module and f.module.startswith("allocate."):
            continue
        for i in f.calls():
            if i.callee not in ALLOC_FUNS:
                continue
            n += 1
            a = strip_casts(f, i.args[0])
            lp = loaded_from(f, a)
            if lp is not None and lp.last_field() and lp.last_field().split(".")[-1] in ("alloc", "os_alloc", "vlo_alloc"):
                continue
            if a.get("k") == "a":
                # allocator passed in by the caller (container code): the caller's obligation
                continue
            fresh += 1
            key = "%s/%s#%d" % (f.name, i.callee, fresh)
            doms = [j for j in f.calls() if j.callee == "yaep_alloc_seterr" and strip_casts(f, j.args[0]) == a and f.inst_dominates(j, i)
                    and strip_casts(f, j.args[1]).get("k") == "f" and strip_casts(f, j.args[1])["v"] != "yaep_alloc_defaulterrfunc"]
            if doms:
                rep.ok("R3b", key, sample={"site": i.where(), "hook_installed_at": doms[0].where()})
            else:
                rep.violation("R3b", key, "allocation request on a freshly created allocator before yaep's error hook is installed: on failure the default hook "
                                          "prints `*** out of memory ***' and exits the process", witness=[i.where()], where=i.where())
    rep.call_sites += n
    rep.floor("R3b", "allocation call sites", n, 10)
    rep.floor("R3b", "requests on a fresh allocator", fresh, 1)


def rule_R3c(ctx, rep, config="c-lib"):
    rep.rule("R3c", "failures are reported only through return codes: no call of exit/_exit/abort/__assert_fail is reachable from an API function, except "
                    "(row 1) the allocator's default hook, reachable only through requests that R3b proves are made after yaep's hook is installed, and "
                    "(row 2) abort() guarded by `symb_find_by_code(<negative constant>) != NULL', unreachable because negative user codes are rejected first")
    p = ctx.prog(config)
    m = p.m
    n = 0
    for f in m.defined():
        reach_api = [a for a in p.api() if f.name in p.reach(a)]
        if not reach_api:
            continue
        for i in f.calls():
            if i.callee not in PROCESS_EXITS:
                continue
            n += 1
            key = "%s/%s" % (f.name, i.callee)
            if f.name == "yaep_alloc_defaulterrfunc":
                rep.ok("R3c", key, "table row 1: covered by R3b", sample={"site": i.where(), "row": 1})
                continue
            if i.callee == "abort" and _abort_guarded(p, f, i):
                rep.ok("R3c", key + "@" + _guard_const(p, f, i), "table row 2", sample={"site": i.where(), "row": 2})
                continue
            rep.violation("R3c", key, "%s() terminates the caller's process instead of returning an error code (reachable from %s)" % (i.callee, ", ".join(reach_api[:3])),
                          witness=[i.where()], where=i.where())
    rep.floor("R3c", "process-exit call sites reachable from the API", n, 1)


def _guard_call(p, f, i):
    """the symb_find_by_code(const) call whose `!= NULL' result controls the block of i"""
    b = i.block
    idom = f.idom()
    cur = b.name
    while cur is not None:
        par = idom.get(cur)
        if par is None:
            return None
        t = f.bmap[par].term
        if t is not None and t.op == "br" and len(t.ops) == 3:
            c = f.inst(t.ops[0])
            if c is not None and c.op == "icmp" and c.d["pred"] == "ne":
                x = strip_casts(f, c.ops[0])
                xi = f.inst(x)
                if xi is not None and xi.is_call() and xi.callee == "symb_find_by_code" and c.ops[1].get("k") == "null":
                    if t.ops[2]["v"] == cur or f.dominates(t.ops[2]["v"], b.name):
                        return xi
            return None
        cur = par
    return None


def _abort_guarded(p, f, i):
    g = _guard_call(p, f, i)
    if g is None:
        return False
    c = const_int(g.args[0])
    return c is not None and c < 0


def _guard_const(p, f, i):
    g = _guard_call(p, f, i)
    return str(const_int(g.args[0])) if g is not None else "?"


def rule_R3d(ctx, rep, config="c-lib"):
    rep.rule("R3d", "code, message and return value agree: yaep_error stores its code argument into grammar->error_code, formats the message into "
                    "grammar->error_message and passes the same value to longjmp; every value an int-returning API function can return is 0, the setjmp result, the "
                    "result of another status-returning library function, a load of error_code, or a constant that the same path stored into error_code")
    p = ctx.prog(config)
    m = p.m
    ye = p.fn("yaep_error")
    st = [i for i in ye.all_insts() if i.op == "store" and resolve_addr(ye, i.ops[1]).last_field() == "grammar.error_code"]
    lj = [i for i in ye.calls() if i.callee in ("longjmp", "_longjmp")]
    if not st or not lj:
        rep.violation("R3d", "yaep_error/stores-code", "yaep_error does not store the error code in the grammar object or does not longjmp", where=ye.where())
    else:
        okc = all(strip_casts(ye, s.ops[0]) == {"k": "a", "v": 0} for s in st) and all(strip_casts(ye, j.args[1]) == {"k": "a", "v": 0} for j in lj)
        msg = [i for i in ye.calls() if i.callee in ("vsprintf", "vsnprintf") and (resolve_addr(ye, i.args[0]).last_field() == "grammar.error_message")]
        if okc and msg and all(ye.inst_dominates(s, j) for s in st for j in lj):
            rep.ok("R3d", "yaep_error/stores-code", sample={"store": st[0].where(), "longjmp": lj[0].where(), "message": msg[0].where()})
        else:
            rep.violation("R3d", "yaep_error/stores-code", "yaep_error: the stored code, the longjmp value and the code argument are not the same value, or the message is not written",
                          where=ye.where())
    n = 0
    for a in p.api():
        f = m.functions[a]
        if f.ret != "i32":
            continue
        if a.startswith("yaep_set_") or a == "yaep_error_code":
            continue
        sjs = set(i.id for i in p.setjmp_calls(f))
        for (v, edge_block, retinst) in returned_values(f):
            n += 1
            vs = strip_casts(f, v)
            c = const_int(vs)
            if c == 0:
                rep.ok("R3d", "%s/ret@0" % a, nontrivial=False)
                continue
            if c is not None:
                # constant error code: the path must have recorded it
                recorded = False
                for i in f.all_insts():
                    if i.op == "store" and const_int(i.ops[0]) == c:
                        pa = resolve_addr(f, i.ops[1])
                        if pa.last_field() == "grammar.error_code" and f.dominates(i.block.name, edge_block):
                            recorded = True
                key = "%s/ret-const-%d" % (a, c)
                if recorded:
                    rep.ok("R3d", key)
                else:
                    rep.violation("R3d", key, "%s returns the constant error code %d without recording it in the grammar object: yaep_error_code() still reports the previous state" % (a, c),
                                  witness=["return edge from block %s, %s" % (edge_block, retinst.where())], where=retinst.where())
                continue
            vi = f.inst(vs)
            if vi is not None and vi.op == "load":
                rv = alloca_reaching_value(f, vi)
                if rv is not None:
                    vs = strip_casts(f, rv)
                    vi = f.inst(vs)
            ok = False
            what = "?"
            if vi is not None and vi.is_call():
                if vi.id in sjs:
                    ok, what = True, "setjmp result"
                elif vi.callee and m.functions.get(vi.callee) is not None and not m.functions[vi.callee].decl and m.functions[vi.callee].ret == "i32":
                    ok, what = True, "status of " + vi.callee
            elif vi is not None and vi.op == "load":
                pa = resolve_addr(f, vi.ops[0])
                if pa.last_field() == "grammar.error_code":
                    ok, what = True, "load of error_code"
            key = "%s/ret-%s" % (a, what.replace(" ", "-"))
            if ok:
                rep.ok("R3d", key, sample={"function": a, "returns": what})
            else:
                rep.violation("R3d", "%s/ret-unknown" % a, "%s can return a value that is neither 0 nor a recorded error code" % a, witness=[retinst.where()], where=retinst.where())
    rep.floor("R3d", "return values of status-returning API functions", n, 6)


def returned_values(f):
    """(value operand, block the value comes from, ret instruction), looking through phis"""
    out = []
    for b in f.ret_blocks():
        t = b.term
        if not t.ops:
            continue
        work = [(t.ops[0], b.name)]
        seen = set()
        while work:
            v, bn = work.pop()
            vi = f.inst(v)
            if vi is not None and vi.op == "phi":
                if vi.id in seen:
                    continue
                seen.add(vi.id)
                for (iv, pb) in vi.d["incoming"]:
                    if f.reachable(pb):
                        work.append((iv, pb))
            else:
                out.append((v, bn, t))
    return out


ALLOCATOR_FIELD_USERS = {
    "YaepAllocator.malloc": ["yaep_malloc", "yaep_calloc"],
    "YaepAllocator.calloc": ["yaep_calloc"],
    "YaepAllocator.realloc": ["yaep_realloc"],
    "YaepAllocator.free": ["yaep_free", "yaep_alloc_del"],
    "YaepAllocator.alloc_error": ["yaep_malloc", "yaep_calloc", "yaep_realloc"],
}


def rule_allocator_discipline(ctx, rep, config="c-lib"):
    rep.rule("R3f", "who may call: each function pointer of the allocator object is called only by its wrapper (free only by yaep_free / yaep_alloc_del, so a failing "
                    "yaep_malloc/calloc/realloc never releases anything before it raises the error), and in a wrapper the error hook is called only under `result == NULL'")
    from .r5 import _controlling_conditions
    p = ctx.prog(config)
    m = p.m
    n = 0
    for f in m.defined():
        for i in f.calls():
            if i.callee:
                continue
            lp = loaded_from(f, i.d["callee_op"])
            fld = lp.last_field() if lp is not None else None
            if fld is None:
                # pointer taken earlier into a local (yaep_alloc_del: freef = allocator->free)
                o = strip_casts(f, i.d["callee_op"])
                oi = f.inst(o)
                if oi is not None and oi.op == "phi":
                    continue
                continue
            if fld not in ALLOCATOR_FIELD_USERS:
                continue
            n += 1
            key = "%s/calls-%s" % (f.name, fld.split(".")[1])
            if f.name in ALLOCATOR_FIELD_USERS[fld]:
                ok = True
                if fld.endswith("alloc_error"):
                    # raised only when the request failed
                    conds = _controlling_conditions(f, i.block.name)
                    ok = any(c.d["pred"] in ("eq", "ne") and (c.ops[1].get("k") == "null" or c.ops[0].get("k") == "null") and ((c.d["pred"] == "eq") == pol) for (c, pol) in conds)
                if ok:
                    rep.ok("R3f", key, sample={"site": i.where()})
                else:
                    rep.violation("R3f", key, "%s raises the allocation error although the request did not fail" % f.name, where=i.where())
            else:
                rep.violation("R3f", key, "%s calls the allocator's `%s' function: only %s may (a failing request must leave the caller's block untouched -- the error is "
                                          "raised by longjmp and the owner still refers to it)" % (f.name, fld.split(".")[1], ", ".join(ALLOCATOR_FIELD_USERS[fld])),
                              where=i.where(), witness=[i.where()])
    rep.floor("R3f", "calls through the allocator's function pointers", n, 9)


def rule_R3e(ctx, rep, config="c-lib"):
    rep.rule("R3e", "(un-promoted IR, so that locals are still memory) in a function that calls setjmp, an automatic variable that is stored after the setjmp call and "
                    "loaded in the `setjmp != 0' handler before being stored again is indeterminate after longjmp unless it is volatile (ISO C 7.13.2.1): every such load "
                    "must be a volatile access")
    p = ctx.prog(config + "-raw")
    m = p.m
    n = 0
    for f in m.defined():
        sjs = p.setjmp_calls(f)
        if not sjs:
            continue
        rep.cover(p, [f.name])
        for sj in sjs:
            h, nn = setjmp_regions(f, sj)
            hblocks = set(b.name for b in f.rblocks() if f.dominates(h, b.name))
            ablocks = set(b.name for b in f.rblocks() if f.dominates(nn, b.name))
            for a in f.all_insts():
                if a.op != "alloca":
                    continue
                st_after = [u for u in f.uses().get(a.id, []) if u.op == "store" and u.ops[1].get("k") == "i" and u.ops[1]["v"] == a.id and u.block.name in ablocks]
                if not st_after:
                    continue
                for ld in [u for u in f.uses().get(a.id, []) if u.op == "load" and u.block.name in hblocks]:
                    # a store that re-defines the variable after the second return and dominates the load?
                    redefined = False
                    for s in [u for u in f.uses().get(a.id, []) if u.op == "store" and u.ops[1].get("k") == "i" and u.ops[1]["v"] == a.id]:
                        after_sj = (s.block is sj.block and s.idx > sj.idx) or s.block.name in hblocks
                        if after_sj and f.inst_dominates(s, ld) and s.block.name not in ablocks:
                            redefined = True
                    if redefined:
                        continue
                    n += 1
                    var = a.d.get("var") or a.d.get("name") or "local"
                    key = "%s/%s" % (f.name, var)
                    if ld.d.get("volatile"):
                        rep.ok("R3e", key, sample={"function": f.name, "variable": var, "modified_after_setjmp": st_after[0].where(), "read_in_handler": ld.where(), "volatile": True})
                    else:
                        rep.violation("R3e", key, "`%s' is modified after setjmp and read in the error exit but is not volatile: after longjmp its value is indeterminate "
                                                  "(gcc -O2 reads the value it had at the setjmp call, so the cleanup it guards is skipped or done twice)" % var,
                                      where=ld.where(), witness=[st_after[0].where(), ld.where()])
    rep.floor("R3e", "locals modified after setjmp and read in a handler", n, 3)


def rule_R3g(ctx, rep, config="c-lib"):
    rep.rule("R3g", "a function whose error handler releases a group of objects only under a flag (`if (x_init_p) x_fin ()') sets that flag right after the call that "
                    "creates the objects: between the creating call and the assignment of the flag there is no call that may raise an error -- an error raised there "
                    "(an invalid token code while the tokens are read) finds the flag unset and the objects are never released")
    from .r14 import path_exists
    from .r5 import _controlling_conditions
    p = ctx.prog(config)
    m = p.m
    rel_memo, cre_memo = {}, {}

    def released(fn):
        if fn in rel_memo:
            return rel_memo[fn]
        out = set()
        for g_ in [fn] + sorted(p.reach(fn)):
            g = m.functions.get(g_)
            if g is None or g.decl:
                continue
            for c in g.calls():
                if c.callee in ("yaep_free", "free") and c.args:
                    lp = loaded_from(g, c.args[-1])
                    if lp is not None and lp.root[0] == "g":
                        out.add(lp.root[1])
        rel_memo[fn] = out
        return out

    def created(fn):
        if fn in cre_memo:
            return cre_memo[fn]
        out = set()
        for g_ in [fn] + sorted(p.reach(fn)):
            g = m.functions.get(g_)
            if g is None or g.decl:
                continue
            for s_ in g.all_insts():
                if s_.op != "store":
                    continue
                v = g.inst(strip_casts(g, s_.ops[0]))
                if v is not None and v.is_call() and v.callee in ALLOC_FUNS:
                    a = resolve_addr(g, s_.ops[1])
                    if a.root[0] == "g":
                        out.add(a.root[1])
        cre_memo[fn] = out
        return out
    n = 0
    for f in m.defined():
        info = armed_info(p, f)
        if not info:
            continue
        for (sj, h, nrm) in info:
            guarded = []
            for c in f.calls():
                if not in_region(f, h, c) or not c.callee:
                    continue
                for (cc, pol) in _controlling_conditions(f, c.block.name):
                    lp = loaded_from(f, cc.ops[0])
                    if lp is not None and lp.root[0] == "alloca" and const_int(cc.ops[1]) == 0 and (cc.d["pred"] == "ne") == pol and in_region(f, h, cc):
                        guarded.append((lp.root, c))
            for (flag, R) in guarded:
                rel = released(R.callee)
                if R.callee in ("yaep_free", "free") and R.args:
                    # the release written out in the handler itself
                    lp_ = loaded_from(f, R.args[-1])
                    rel = set([lp_.root[1]]) if (lp_ is not None and lp_.root[0] == "g") else set()
                if not rel:
                    continue
                creators = [c for c in f.calls() if in_region(f, nrm, c) and c.callee and created(c.callee) & rel]
                if not creators:
                    continue
                C = creators[0]
                for c in creators:
                    if f.inst_dominates(c, C):
                        C = c
                sets = [s_ for s_ in f.all_insts() if s_.op == "store" and resolve_addr(f, s_.ops[1]).root == flag and const_int(s_.ops[0]) not in (None, 0)
                        and in_region(f, nrm, s_) and f.inst_dominates(C, s_)]
                n += 1
                rep.cover(p, [f.name])
                key = "%s/flag-of-%s-set-after-%s" % (f.name, R.callee, C.callee)
                if not sets:
                    rep.violation("R3g", key, "%s creates what the error handler releases through %s under a flag, and the flag is never set after it" % (C.callee, R.callee),
                                  where=C.where(), witness=[C.where(), R.where()])
                    continue
                late = [x for x in f.calls() if x is not C and in_region(f, nrm, x) and p.call_may_throw(f, x) and path_exists(f, C, x, sets)]
                if late:
                    rep.violation("R3g", key, "between %s, which creates the objects that the error handler releases through %s, and the assignment of the guarding flag "
                                  "the call of %s may raise an error: the handler then skips %s and the objects stay allocated (the library holds memory after "
                                  "everything was freed)" % (C.callee, R.callee, late[0].callee or "a function", R.callee), where=late[0].where(),
                                  witness=[C.where(), late[0].where(), sets[0].where()])
                else:
                    rep.ok("R3g", key, sample={"created_at": C.where(), "flag_set_at": sets[0].where(), "released_in_handler_at": R.where()})
    rep.floor("R3g", "flag-guarded releases in error handlers", n, 2)
