"""Shared machinery of the rule engines: call graph, exceptional-edge model,
report / evidence / known-findings plumbing."""
import json
import os
import sys
import time

from .model import resolve_addr, loaded_from, strip_casts, const_int
from .flow import Flow

VERIF = os.path.dirname(os.path.dirname(os.path.abspath(__file__)))

API_C = [
    "yaep_create_grammar", "yaep_error_code", "yaep_error_message", "yaep_read_grammar",
    "yaep_parse_grammar", "yaep_set_lookahead_level", "yaep_set_debug_level",
    "yaep_set_one_parse_flag", "yaep_set_cost_flag", "yaep_set_error_recovery_flag",
    "yaep_set_recovery_match", "yaep_parse", "yaep_free_grammar", "yaep_free_tree",
]

# user callbacks: globals / parameters through which user code is entered
USER_CALLBACK_GLOBALS = ["read_token", "syntax_error", "parse_alloc", "parse_free"]


class AnalysisBroken(Exception):
    """An anchor vanished, an idiom is unknown, a tool failed: neither a proof nor a witness."""


class Prog(object):
    """A Model plus derived whole-program facts."""

    def __init__(self, model):
        self.m = model
        self.flow = Flow(model).solve()
        self._cg = None
        self._throw = None
        self._reach_cache = {}

    def fn(self, name, required=True):
        f = self.m.functions.get(name)
        if (f is None or f.decl) and required:
            raise AnalysisBroken("anchor function `%s' not found in %s" % (name, self.m.name))
        return f

    def api(self):
        return [n for n in API_C if n in self.m.functions and not self.m.functions[n].decl]

    def call_targets(self, f, i):
        if i.callee:
            return [i.callee]
        return self.flow.targets(f, i)

    def callgraph(self):
        if self._cg is None:
            cg = {}
            for f in self.m.defined():
                s = cg.setdefault(f.name, set())
                for i in f.calls():
                    for t in self.call_targets(f, i):
                        s.add(t)
            self._cg = cg
        return self._cg

    def reach(self, name):
        """functions reachable from `name` (inclusive)"""
        if name in self._reach_cache:
            return self._reach_cache[name]
        cg = self.callgraph()
        seen = set()
        st = [name]
        while st:
            n = st.pop()
            if n in seen:
                continue
            seen.add(n)
            st.extend(cg.get(n, ()))
        self._reach_cache[name] = seen
        return seen

    def thrower_name(self):
        # the single function that calls longjmp
        callers = set()
        for f in self.m.defined():
            for i in f.calls():
                if i.callee in ("longjmp", "_longjmp", "siglongjmp", "__longjmp_chk"):
                    callers.add(f.name)
        return callers

    def may_throw(self):
        """functions from which a longjmp caller is reachable"""
        if self._throw is None:
            lj = self.thrower_name()
            t = set()
            for f in self.m.defined():
                if self.reach(f.name) & lj:
                    t.add(f.name)
            self._throw = t
        return self._throw

    def call_may_throw(self, f, i):
        mt = self.may_throw()
        return any(t in mt for t in self.call_targets(f, i))

    def setjmp_calls(self, f):
        return [i for i in f.calls() if i.callee in ("_setjmp", "setjmp", "__sigsetjmp", "sigsetjmp")]


def setjmp_regions(f, sj):
    """For a setjmp call `sj` in f: (handler_entry_blocks, normal_entry_blocks).
    Recognises `if (setjmp(..) != 0)` and `if ((code = setjmp(..)) != 0)` (also == 0)."""
    uses = f.uses().get(sj.id, [])
    for u in uses:
        if u.op == "icmp" and u.d["pred"] in ("ne", "eq"):
            other = [o for o in u.ops if not (o.get("k") == "i" and o["v"] == sj.id)]
            if len(other) == 1 and const_int(other[0]) == 0:
                for b in f.uses().get(u.id, []):
                    if b.op == "br" and len(b.ops) == 3:
                        # br cond, iffalse?, LLVM operand order: cond, false_dest, true_dest
                        tdest = b.ops[2]["v"]
                        fdest = b.ops[1]["v"]
                        if u.d["pred"] == "ne":
                            return tdest, fdest
                        return fdest, tdest
    raise AnalysisBroken("setjmp result in %s is not tested by a recognised `!= 0' branch" % f.name)


# --------------------------------------------------------------------------------
class Finding(object):
    def __init__(self, rule, key, what, witness=None, where=None):
        self.rule = rule
        self.key = key
        self.what = what
        self.witness = witness or []
        self.where = where

    def as_dict(self):
        return {"rule": self.rule, "instance": self.key, "what": self.what, "where": self.where, "witness": self.witness}


class Report(object):
    def __init__(self, prop, tier="quick"):
        self.prop = prop
        self.tier = tier
        self.t0 = time.time()
        self.obligations = []  # (rule, key, status, note)
        self.findings = []
        self.advisories = []
        self.broken = []
        self.samples = []
        self.units = set()
        self.functions = set()
        self.call_sites = 0
        self.rules = {}
        self.assumptions = []
        self.floors = []

    # -- recording -----------------------------------------------------------------
    def rule(self, rid, text):
        self.rules[rid] = text

    def ok(self, rule, key, note="", nontrivial=True, sample=None):
        self.obligations.append((rule, key, "ok", note, nontrivial))
        if sample is not None and len([s for s in self.samples if s.get("rule") == rule]) < 3:
            d = {"rule": rule, "instance": key, "verdict": "holds"}
            d.update(sample)
            self.samples.append(d)

    def violation(self, rule, key, what, witness=None, where=None):
        self.obligations.append((rule, key, "violation", what, True))
        self.findings.append(Finding(rule, key, what, witness, where))

    def advisory(self, rule, key, what, where=None):
        self.advisories.append({"rule": rule, "instance": key, "what": what, "where": where})

    def broke(self, rule, reason):
        self.broken.append((rule, reason))

    def floor(self, rule, what, got, minimum):
        self.floors.append({"rule": rule, "what": what, "matched": got, "floor": minimum})
        if got < minimum:
            self.broke(rule, "%s: matched %d instance(s), hand-confirmed floor is %d" % (what, got, minimum))

    def cover(self, prog_or_model, fns=None):
        m = getattr(prog_or_model, "m", prog_or_model)
        for u in getattr(m, "units", []):
            self.units.add("%s:%s" % (m.name, u))
        if fns is not None:
            for f in fns:
                self.functions.add(f if isinstance(f, str) else f.name)

    def assume(self, text):
        if text not in self.assumptions:
            self.assumptions.append(text)

    # -- finishing -----------------------------------------------------------------
    def finish(self):
        known = load_known()
        ev_dir = os.environ.get("VERIF_EVIDENCE_DIR") or os.path.join(VERIF, "evidence")
        os.makedirs(os.path.join(ev_dir, "replay"), exist_ok=True)
        out_lines = []
        new_viol = []
        known_hits = []
        for f in self.findings:
            k = match_known(known, self.prop, f)
            if k is not None:
                known_hits.append((f, k))
            else:
                new_viol.append(f)
        status = 0
        if new_viol:
            status = 1   # a witness is a witness, even if another rule could not be decided
        elif self.broken:
            status = 2
        for f, k in known_hits:
            out_lines.append("KNOWN-FINDING: property=%s %s %s -- %s" % (self.prop, f.rule, f.key, f.what))
        replay_paths = []
        for n, f in enumerate(new_viol):
            rp = os.path.join(ev_dir, "replay", "%s-%d.json" % (self.prop, n))
            with open(rp, "w") as fh:
                json.dump({"property": self.prop, "finding": f.as_dict(), "rule_text": self.rules.get(f.rule, "")}, fh, indent=1)
            replay_paths.append(rp)
            out_lines.append("VIOLATION property=%s replay=%s" % (self.prop, rp))
            out_lines.append("  rule %s instance %s: %s" % (f.rule, f.key, f.what))
            if f.where:
                out_lines.append("  at %s" % f.where)
            for w in f.witness[:12]:
                out_lines.append("    %s" % w)
        for r, why in self.broken:
            out_lines.append("ANALYSIS-BROKEN property=%s rule=%s reason=%s" % (self.prop, r, why))
        for a in self.advisories:
            out_lines.append("ADVISORY property=%s %s %s -- %s%s" % (self.prop, a["rule"], a["instance"], a["what"],
                                                                    (" at " + a["where"]) if a.get("where") else ""))
        nobl = len(self.obligations)
        ndis = len([o for o in self.obligations if o[2] == "ok"])
        distinct_nt = len(set((o[0], o[1]) for o in self.obligations if o[4]))
        ev = {
            "property_id": self.prop,
            "tier": self.tier,
            "seed": int(os.environ.get("VERIF_SEED", "0") or 0),
            "level": "other",
            "coverage": {
                "explanation": "static analysis of the LLVM IR / Clang AST that clang-14 produces from /repo's current working tree; "
                               "rules applied: " + "; ".join("%s: %s" % (k, v) for k, v in sorted(self.rules.items())),
                "units": sorted(self.units),
                "functions_analysed": len(self.functions),
                "functions": sorted(self.functions)[:400],
                "call_sites_analysed": self.call_sites,
                "obligations": nobl,
                "discharged": ndis,
                "evaluations": max(nobl, 1),
                "distinct_nontrivial": distinct_nt,
                "rule": "one obligation per rule instance (symbolic key: function/callee/field/ordinal); non-trivial = the rule had something to check at the site",
                "samples": self.samples[:24] if self.samples else [{"note": "no instance sampled"}],
                "instance_floors": self.floors,
                "advisories": self.advisories[:50],
                "known_findings_matched": [f.as_dict() for f, _ in known_hits],
                "violations": [f.as_dict() for f in new_viol],
                "analysis_broken": [{"rule": r, "reason": w} for r, w in self.broken],
                "trusted_base": ["clang-14 front end", "opt-14 mem2reg", "/verif/build/irfacts", "/verif/sa rule engines and their frozen tables"],
                "checker_cmd": "python3 -m sa.check %s" % self.prop,
            },
            "assumptions": self.assumptions,
            "wall_s": round(time.time() - self.t0, 3),
            "violations": len(new_viol),
        }
        with open(os.path.join(ev_dir, "%s.json" % self.prop), "w") as fh:
            json.dump(ev, fh, indent=1)
        for l in out_lines:
            print(l)
        print("%s: %d obligations, %d discharged, %d violation(s), %d known, %d advisory, %s  [%.1fs]" % (
            self.prop, nobl, ndis, len(new_viol), len(known_hits), len(self.advisories),
            "ANALYSIS-BROKEN" if self.broken else ("VIOLATED" if new_viol else "holds"), time.time() - self.t0))
        sys.stdout.flush()
        return status


def load_known():
    p = os.path.join(VERIF, "known_findings.json")
    if not os.path.exists(p):
        return []
    with open(p) as fh:
        return json.load(fh).get("findings", [])


def match_known(known, prop, f):
    for k in known:
        if k.get("status") != "known":
            continue
        if prop not in k.get("properties", []):
            continue
        if k.get("rule") == f.rule and k.get("instance") == f.key:
            return k
    return None
