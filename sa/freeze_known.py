"""Freeze the names and fingerprints of the functions of the pinned tree (run once, by hand, on the tree the rules were written for):
     python3 -m sa.freeze_known
writes sa/known_fingerprints.json  {"<unit>|<defines>": {function: [fingerprints]}}  (known_functions.json is left as it is)."""
import json
import os
import tempfile

from .build import CONFIGS, REPO, _run, _ll_functions, Workspace


def main():
    out = {}
    with Workspace() as ws:
        ws.bison()
        for cfg, (units, _, defs) in CONFIGS.items():
            for u in units:
                path = os.path.join(ws.src, u)
                cxx = u.endswith(".cpp")
                cc = ["clang++-14", "-std=gnu++11"] if cxx else ["clang-14", "-std=gnu90"]
                ll = os.path.join(ws.dir, "fz.ll")
                _run(cc + ["-I" + ws.dir, "-I" + ws.src] + list(defs) + ["-O0", "-Xclang", "-disable-O0-optnone", "-fno-discard-value-names", "-g",
                                                                          "-fstandalone-debug", "-w", "-S", "-emit-llvm", path, "-o", ll])
                fns = _ll_functions(open(ll).read())
                key = u + "|" + ",".join(defs)
                d = out.setdefault(key, {})
                for n, (_, fp) in fns.items():
                    d.setdefault(n, [])
                    if fp not in d[n]:
                        d[n].append(fp)
    p = os.path.join(os.path.dirname(os.path.abspath(__file__)), "known_fingerprints.json")
    json.dump(out, open(p, "w"), indent=0, sort_keys=True)
    print("%d unit configurations, %d functions" % (len(out), sum(len(v) for v in out.values())))


if __name__ == "__main__":
    main()
