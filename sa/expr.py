"""Symbolic value expressions over SSA: canonical strings and linear forms.

Used to compare an allocation size with a loop bound *as expressions* (no values
are computed, nothing is solved): two expressions are equal when their linear
normal forms over the same atoms coincide.  Atoms are SSA identities (phi, call,
argument) and loads keyed by their access path; a load atom is only meaningful
to compare when the memory it reads is not stored to in between -- the caller
checks that with `atoms_fields'.
"""
from .model import resolve_addr, const_int


NAMED = [False]   # print locals by their source names (for frozen tables) instead of SSA ids
ROLES = [None]    # optional {('alloca'|'inst', id): role name} for the function being printed (role beats source name)


class Lin(object):
    """c + sum(coeff * atom)"""
    __slots__ = ("c", "t")

    def __init__(self, c=0, t=None):
        self.c = c
        self.t = dict(t or {})

    def add(self, o, k=1):
        r = Lin(self.c + k * o.c, self.t)
        for a, v in o.t.items():
            r.t[a] = r.t.get(a, 0) + k * v
            if r.t[a] == 0:
                del r.t[a]
        return r

    def scale(self, k):
        return Lin(self.c * k, dict((a, v * k) for a, v in self.t.items() if v * k != 0))

    def div(self, k):
        if k == 0 or self.c % k or any(v % k for v in self.t.values()):
            return None
        return Lin(self.c // k, dict((a, v // k) for a, v in self.t.items()))

    def is_const(self):
        return not self.t

    def key(self):
        return (self.c, tuple(sorted(self.t.items())))

    def __eq__(self, o):
        return isinstance(o, Lin) and self.key() == o.key()

    def __ne__(self, o):
        return not self.__eq__(o)

    def __hash__(self):
        return hash(self.key())

    def __repr__(self):
        parts = []
        for a, v in sorted(self.t.items()):
            parts.append(("%d*" % v if v != 1 else "") + a)
        if self.c or not parts:
            parts.append(str(self.c))
        return " + ".join(parts)

    def atoms(self):
        return list(self.t.keys())


def addr_str(f, op, depth=0, ld=99):
    """canonical string of an address"""
    p = resolve_addr(f, op)
    r = p.root
    if r[0] == "g":
        s = "@" + r[1]
    elif r[0] == "a":
        s = (f.args[r[1]]["name"] if NAMED[0] and f.args[r[1]].get("name") else "a%d" % r[1])
    elif r[0] == "alloca":
        a_ = f.insts.get(r[1])
        if NAMED[0] and ROLES[0] and ("alloca", r[1]) in ROLES[0]:
            s = "&" + ROLES[0][("alloca", r[1])]
        else:
            s = ("&" + a_.d["var"]) if (a_ is not None and a_.d.get("var") and NAMED[0]) else "alloca#%d" % r[1]
    elif r[0] == "null":
        s = "null"
    else:
        s = "(" + repr(lin(f, r[1], depth + 1, ld)) + ")"
    for st in p.steps:
        if st[0] == "f":
            s += "." + st[1]
        elif st[0] in ("idx", "ptr"):
            s += "[" + repr(lin(f, st[1], depth + 1, ld)) + "]"
    return s


def lin(f, op, depth=0, ld=99):
    """linear form of an integer/pointer SSA operand"""
    if depth > 24:
        return Lin(0, {"deep": 1})
    k = op.get("k")
    c = const_int(op)
    if c is not None:
        return Lin(c)
    if k == "null":
        return Lin(0)
    if k == "a":
        return Lin(0, {(f.args[op["v"]]["name"] if NAMED[0] and f.args[op["v"]].get("name") else "a%d" % op["v"]): 1})
    if k == "g":
        return Lin(0, {"@" + op["v"]: 1})
    if k == "ce" and NAMED[0]:
        st_ = f.model.string_of(op)
        if st_ is not None:
            return Lin(0, {'"%s"' % st_: 1})
    if k == "i":
        i = f.insts.get(op["v"])
        if i is None:
            return Lin(0, {"?": 1})
        o = i.op
        if o in ("sext", "zext", "trunc", "bitcast", "ptrtoint", "inttoptr"):
            return lin(f, i.ops[0], depth + 1, ld)
        if o == "add":
            return lin(f, i.ops[0], depth + 1, ld).add(lin(f, i.ops[1], depth + 1, ld))
        if o == "sub":
            return lin(f, i.ops[0], depth + 1, ld).add(lin(f, i.ops[1], depth + 1, ld), -1)
        if o == "mul":
            a, b = lin(f, i.ops[0], depth + 1, ld), lin(f, i.ops[1], depth + 1, ld)
            if a.is_const():
                return b.scale(a.c)
            if b.is_const():
                return a.scale(b.c)
            return Lin(0, {"mul(%r,%r)" % tuple(sorted([a, b], key=repr)): 1})
        if o == "xor" and i.ty != "i1" and (const_int(i.ops[1]) == -1 or const_int(i.ops[0]) == -1):
            # ~x == -x - 1
            x_ = i.ops[0] if const_int(i.ops[1]) == -1 else i.ops[1]
            return lin(f, x_, depth + 1, ld).scale(-1).add(Lin(-1))
        if o == "shl":
            b = lin(f, i.ops[1], depth + 1, ld)
            if b.is_const() and 0 <= b.c < 62:
                return lin(f, i.ops[0], depth + 1, ld).scale(1 << b.c)
        if o in ("sdiv", "udiv"):
            a, b = lin(f, i.ops[0], depth + 1, ld), lin(f, i.ops[1], depth + 1, ld)
            if b.is_const() and b.c != 0:
                d = a.div(b.c)
                if d is not None and a.is_const():
                    return d
            return Lin(0, {"div(%r,%r)" % (a, b): 1})
        if o == "load":
            if ld <= 0:
                return Lin(0, {"load#%d" % i.id: 1})
            return Lin(0, {"L[" + addr_str(f, i.ops[0], depth + 1, ld - 1) + "]": 1})
        if o == "getelementptr":
            base = lin(f, i.d["base"], depth + 1, ld)
            src = i.d.get("src_ty", "")
            for st in i.d["path"]:
                if "ptr" in st:
                    base = base.add(lin(f, st["ptr"], depth + 1, ld).scale(st.get("eltsize", 1) or 1))
                else:
                    return Lin(0, {"gep#%d" % i.id: 1})
            return base
        if NAMED[0] and ROLES[0] and ("inst", i.id) in ROLES[0]:
            return Lin(0, {ROLES[0][("inst", i.id)]: 1})
        if NAMED[0] and o == "call" and i.callee:
            cs = "%s(%s)" % (i.callee, ",".join(repr(lin(f, a, depth + 1, ld)) for a in i.args))
            if ("#" not in cs and len(cs) < 60) or not i.d.get("var"):
                return Lin(0, {cs: 1})
        if NAMED[0] and i.d.get("var"):
            return Lin(0, {"%s" % i.d["var"]: 1})
        return Lin(0, {"%s#%d" % (o, i.id): 1})
    return Lin(0, {"?": 1})


def load_fields_in(f, op, depth=0, acc=None):
    """struct fields / globals read by loads inside the expression (for kill checks)"""
    if acc is None:
        acc = set()
    if depth > 24:
        return acc
    if op.get("k") != "i":
        return acc
    i = f.insts.get(op["v"])
    if i is None:
        return acc
    if i.op == "load":
        p = resolve_addr(f, i.ops[0])
        lf = p.last_field()
        if lf:
            acc.add(("fld", lf))
        elif p.root[0] == "g":
            acc.add(("g", p.root[1]))
        elif p.root[0] == "alloca":
            acc.add(("al", p.root[1]))
        else:
            acc.add(("mem", "?"))
        if p.root[0] == "val":
            load_fields_in(f, p.root[1], depth + 1, acc)
        for st in p.steps:
            if st[0] in ("idx", "ptr"):
                load_fields_in(f, st[1], depth + 1, acc)
        return acc
    if i.op in ("phi", "call", "alloca"):
        return acc
    for o in i.d.get("ops", []):
        load_fields_in(f, o, depth + 1, acc)
    if "base" in i.d:
        load_fields_in(f, i.d["base"], depth + 1, acc)
        for st in i.d["path"]:
            for kk in ("idx", "ptr"):
                if kk in st:
                    load_fields_in(f, st[kk], depth + 1, acc)
    return acc
