"""Driver:  python3 -m sa.check <property-id> [--tier quick|thorough]

Rebuilds the program model from /repo's current working tree, runs the rule
families that decide the given property, writes /verif/evidence/<id>.json and
prints the verdict lines.  exit 0 = holds (or only listed known findings),
1 = VIOLATION with witness, 2 = ANALYSIS-BROKEN.
"""
import os
import sys
import traceback

from .build import Workspace, BuildError
from .core import Prog, Report, AnalysisBroken


class Ctx(object):
    def __init__(self, ws, tier):
        self.ws = ws
        self.tier = tier
        self._prog = {}
        self._memo = {}

    def prog(self, config="c-lib"):
        if config not in self._prog:
            self._prog[config] = Prog(self.ws.model(config))
        return self._prog[config]

    def memo(self, key, fn):
        if key not in self._memo:
            self._memo[key] = fn()
        return self._memo[key]


def registry():
    from .props import PROPS
    return PROPS


def main(argv):
    if len(argv) < 2:
        print("usage: python3 -m sa.check <Cxx> [--tier quick|thorough]")
        return 2
    prop = argv[1]
    tier = os.environ.get("VERIF_TIER", "quick")
    if "--tier" in argv:
        tier = argv[argv.index("--tier") + 1]
    props = registry()
    if prop not in props:
        print("unknown or unclaimed property %s" % prop)
        return 2
    rep = Report(prop, tier)
    try:
        with Workspace() as ws:
            ctx = Ctx(ws, tier)
            for rule in props[prop]:
                try:
                    rule(ctx, rep)
                except AnalysisBroken as e:
                    rep.broke(getattr(rule, "__name__", "rule"), str(e))
    except BuildError as e:
        rep.broke("build", str(e).replace("\n", " | ")[:1500])
    except Exception as e:  # engine bug: never a pass, never a violation
        traceback.print_exc()
        rep.broke("engine", "%s: %s" % (type(e).__name__, e))
    return rep.finish()


if __name__ == "__main__":
    sys.exit(main(sys.argv))
