"""Driver:  python3 -m sa.check <property-id> [--tier quick|thorough]

Rebuilds the program model from /repo's current working tree, runs the rule
families that decide the given property, writes /verif/evidence/<id>.json and
prints the verdict lines.  exit 0 = holds (or only listed known findings),
1 = VIOLATION with witness, 2 = ANALYSIS-BROKEN.
"""
import os
import sys
import traceback

from .build import Workspace, BuildError
from .core import Prog, Report, AnalysisBroken


class Ctx(object):
    def __init__(self, ws, tier):
        self.ws = ws
        self.tier = tier
        self._prog = {}
        self._memo = {}

    def prog(self, config="c-lib"):
        if config not in self._prog:
            self._prog[config] = Prog(self.ws.model(config))
        return self._prog[config]

    def memo(self, key, fn):
        if key not in self._memo:
            self._memo[key] = fn()
        return self._memo[key]


class Prefixed(object):
    """report proxy that tags the instances of a second configuration"""

    def __init__(self, rep, tag):
        self._rep, self._tag = rep, tag

    def __getattr__(self, n):
        return getattr(self._rep, n)

    def ok(self, rule, key, *a, **k):
        return self._rep.ok(rule, self._tag + key, *a, **k)

    def violation(self, rule, key, *a, **k):
        return self._rep.violation(rule, self._tag + key, *a, **k)

    def floor(self, rule, what, got, minimum):
        return self._rep.floor(rule, self._tag + what, got, 1 if minimum else 0)


def thorough(ctx, rep, prop, rules):
    """thorough tier = quick tier + the same rule instances on the C++ library (yaep.cpp compiles
    yaep.c as C++ against the C++ containers) + the mutation self-test of this property
    (analysis only: every `break' mutant must be reported, every `benign' one must stay silent)
    + the kept patches of the sub-agents (seeded changes reported before must still be reported,
    behaviour-preserving edits must stay silent)."""
    import subprocess
    from .props import CXX_OK
    rep.rule("thorough", "the rules that do not depend on the C container idioms are re-run on libyaep++ (same instances must hold); the checker itself is tested on "
                         "scratch copies of /repo with one seeded breach each (must fire, naming the instance) and behaviour-preserving edits (must stay silent)")
    px = Prefixed(rep, "[c++] ")
    for rule in rules:
        if getattr(rule, "__name__", "") in CXX_OK:
            try:
                rule(ctx, px, config="cxx-lib")
            except AnalysisBroken as e:
                rep.broke(rule.__name__ + "[c++]", str(e))
    if os.environ.get("VERIF_REPO"):
        return   # nested run (we are a mutant ourselves)
    here = os.path.dirname(os.path.dirname(os.path.abspath(__file__)))
    p = subprocess.run([sys.executable, os.path.join(here, "selftest", "run.py"), "--prop", prop, "-j", "14"], cwd=here, stdout=subprocess.PIPE, stderr=subprocess.STDOUT,
                       universal_newlines=True)
    lines = [l for l in p.stdout.splitlines() if l[:6].strip() in ("ok", "FAIL", "STALE")]
    good = [l for l in lines if l.startswith("ok")]
    bad = [l for l in lines if not l.startswith("ok")]
    for l in good:
        parts = l.split()
        rep.ok("selftest", "mutant/" + parts[2], nontrivial=True, sample={"mutant": parts[2], "kind": parts[1], "verdict": "as expected"})
    for l in bad:
        rep.broke("selftest", "checker self-test: mutant not handled as expected: " + " ".join(l.split()))
    if not lines:
        rep.broke("selftest", "no mutant registered for " + prop)
    # the kept patches: seeded property-breaking changes that this check reported must still be reported, behaviour-preserving edits must stay silent
    q = subprocess.run([sys.executable, os.path.join(here, "selftest", "patches.py"), "--prop", prop, "-j", "14"], cwd=here, stdout=subprocess.PIPE, stderr=subprocess.STDOUT,
                       universal_newlines=True)
    for l in q.stdout.splitlines():
        parts = l.split(None, 3)
        if len(parts) >= 3 and parts[0] == "ok":
            rep.ok("selftest", "%s/%s" % (parts[1], parts[2]), nontrivial=True, sample={"patch": parts[2], "kind": parts[1], "verdict": "reported" if parts[1] == "seed" else "silent"})
        elif len(parts) >= 3 and parts[0] == "FAIL":
            rep.broke("selftest", "checker self-test: kept patch not handled as expected: " + " ".join(l.split())[:500])


def registry():
    from .props import PROPS
    return PROPS


def main(argv):
    if len(argv) < 2:
        print("usage: python3 -m sa.check <Cxx> [--tier quick|thorough]")
        return 2
    prop = argv[1]
    tier = os.environ.get("VERIF_TIER", "quick")
    if "--tier" in argv:
        tier = argv[argv.index("--tier") + 1]
    props = registry()
    if prop not in props:
        print("unknown or unclaimed property %s" % prop)
        return 2
    rep = Report(prop, tier)
    try:
        with Workspace() as ws:
            ctx = Ctx(ws, tier)
            for rule in props[prop]:
                try:
                    rule(ctx, rep)
                except AnalysisBroken as e:
                    rep.broke(getattr(rule, "__name__", "rule"), str(e))
            if tier == "thorough":
                thorough(ctx, rep, prop, props[prop])
    except BuildError as e:
        rep.broke("build", str(e).replace("\n", " | ")[:1500])
    except Exception as e:  # engine bug: never a pass, never a violation
        traceback.print_exc()
        rep.broke("engine", "%s: %s" % (type(e).__name__, e))
    return rep.finish()


if __name__ == "__main__":
    sys.exit(main(sys.argv))
