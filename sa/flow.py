"""Field-based, flow-insensitive inclusion analysis over the program model.

Abstract cells
  ('v', fn, id)      SSA value
  ('arg', fn, i)     formal parameter
  ('ret', fn)        return value
  ('g', name)        scalar / pointer global variable (the variable's content)
  ('fld', 'S.f')     one cell per struct field, shared by all objects of type S
  ('al', fn, id)     content of a scalar alloca
  ('deref', ty)      memory reached through a pointer of type ty with no field
                     step (array elements, out-parameters)

Labels are opaque hashable tokens injected by the client (function constants,
allocation sites, parameters...).  Used for (a) resolving indirect calls and
(b) the provenance rules (R7).
"""
from .model import resolve_addr, iter_operands


def cell_of_addr(fn, op, inst_ty=None):
    """The abstract memory cell an address operand denotes."""
    p = resolve_addr(fn, op)
    lf = None
    # last field step, unless an index step follows a pointer-typed field (then it
    # is an element of the array the field points to -> handled by caller via load)
    for s in reversed(p.steps):
        if s[0] == "f":
            lf = s[1]
            break
        if s[0] in ("idx", "ptr"):
            # element of an array: if array is embedded in struct field the field
            # appears earlier in steps; keep scanning
            continue
    if lf is not None:
        return ("fld", lf)
    r = p.root
    if r[0] == "g":
        return ("g", r[1])
    if r[0] == "alloca":
        return ("al", fn.name, r[1])
    if r[0] == "a":
        ty = fn.args[r[1]]["ty"]
        return ("deref", ty)
    if r[0] == "val":
        o = r[1]
        if o.get("k") == "i":
            i = fn.insts.get(o["v"])
            if i is not None:
                return ("deref", i.ty)
        return ("deref", o.get("ty", "?"))
    return ("deref", "?")


class Flow(object):
    def __init__(self, model, seeds=None, extern_labels=True):
        self.m = model
        self.pts = {}
        self.edges = {}
        self.indirect = []  # (fn, inst)
        self.extern_labels = extern_labels
        self._build()
        if seeds:
            for c, l in seeds:
                self.add(c, l)

    # -- graph ---------------------------------------------------------------------
    def add(self, cell, label):
        s = self.pts.setdefault(cell, set())
        if label not in s:
            s.add(label)
            return True
        return False

    def edge(self, src, dst):
        if src == dst:
            return
        self.edges.setdefault(src, set()).add(dst)

    def vcell(self, fn, op):
        k = op.get("k")
        if k == "i":
            return ("v", fn.name, op["v"])
        if k == "a":
            return ("arg", fn.name, op["v"])
        if k == "f":
            c = ("const_f", op["v"])
            self.add(c, ("fn", op["v"]))
            return c
        if k == "g":
            # address of a global: label it so that provenance clients can see it
            c = ("addr_g", op["v"])
            self.add(c, ("gaddr", op["v"]))
            return c
        if k == "null":
            c = ("const_null",)
            self.add(c, ("null",))
            return c
        if k == "ce":
            if op.get("op") in ("bitcast", "getelementptr", "inttoptr", "ptrtoint"):
                inner = op["ops"][0] if "ops" in op else op["base"]
                return self.vcell(fn, inner)
            return None
        return None

    def _build(self):
        m = self.m
        for f in m.defined():
            for i in f.all_insts():
                op = i.op
                if op == "store":
                    val, addr = i.ops[0], i.ops[1]
                    vc = self.vcell(f, val)
                    if vc is not None:
                        self.edge(vc, cell_of_addr(f, addr))
                elif op == "load":
                    self.edge(cell_of_addr(f, i.ops[0]), ("v", f.name, i.id))
                elif op in ("bitcast", "getelementptr", "inttoptr", "ptrtoint", "zext", "sext", "trunc"):
                    src = i.d["base"] if op == "getelementptr" else i.ops[0]
                    vc = self.vcell(f, src)
                    if vc is not None:
                        self.edge(vc, ("v", f.name, i.id))
                elif op == "phi":
                    for v, _ in i.d["incoming"]:
                        vc = self.vcell(f, v)
                        if vc is not None:
                            self.edge(vc, ("v", f.name, i.id))
                elif op == "select":
                    for v in i.ops[1:]:
                        vc = self.vcell(f, v)
                        if vc is not None:
                            self.edge(vc, ("v", f.name, i.id))
                elif op == "ret":
                    if i.ops:
                        vc = self.vcell(f, i.ops[0])
                        if vc is not None:
                            self.edge(vc, ("ret", f.name))
                elif i.is_call():
                    if i.callee:
                        self._bind_call(f, i, i.callee)
                    else:
                        self.indirect.append((f, i))

    def _bind_call(self, f, i, callee):
        g = self.m.functions.get(callee)
        if g is None or g.decl:
            # library function: memcpy-like copies are field-based no-ops; returns
            # of allocation functions are labelled by clients
            if callee in ("memcpy", "memmove", "llvm.memcpy.p0i8.p0i8.i64", "llvm.memmove.p0i8.p0i8.i64"):
                pass
            if callee in ("strcpy", "strncpy"):
                vc = self.vcell(f, i.args[0])
                if vc is not None:
                    self.edge(vc, ("v", f.name, i.id))
            return
        for k, a in enumerate(i.args):
            if k < len(g.args):
                vc = self.vcell(f, a)
                if vc is not None:
                    self.edge(vc, ("arg", g.name, k))
        self.edge(("ret", g.name), ("v", f.name, i.id))

    def solve(self):
        bound = set()
        while True:
            # propagate
            work = [c for c in self.pts if self.pts[c]]
            while work:
                c = work.pop()
                for d in self.edges.get(c, ()):
                    s = self.pts.setdefault(d, set())
                    n = len(s)
                    s |= self.pts[c]
                    if len(s) != n:
                        work.append(d)
            # resolve indirect calls with the function labels found so far
            new = False
            for f, i in self.indirect:
                vc = self.vcell(f, i.d["callee_op"])
                for l in list(self.pts.get(vc, ())) if vc is not None else []:
                    if l[0] == "fn" and (f.name, i.id, l[1]) not in bound:
                        bound.add((f.name, i.id, l[1]))
                        self._bind_call(f, i, l[1])
                        new = True
            if not new:
                break
        self.bound = bound
        return self

    def labels(self, cell):
        return self.pts.get(cell, set())

    def targets(self, f, i):
        """Function names an indirect call may reach (only function constants that
        flow there inside the library; user callbacks are 'external')."""
        vc = self.vcell(f, i.d["callee_op"])
        return sorted(l[1] for l in self.pts.get(vc, ()) if l[0] == "fn")
